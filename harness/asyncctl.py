"""Controlled scheduling of concurrently awaited triggers on the REAL async machine classes (C08).

Recorder callbacks sit in every callback slot; a coroutine recorder may suspend on harness-owned
futures.  The controller starts the top-level triggers as tasks, runs the event loop until it is
quiescent (every task blocked), then releases ONE pending future chosen by the schedule, and so on.

A case (JSON-able dict):
  hsm       bool        HierarchicalAsyncMachine instead of AsyncMachine
  queued    0|1|2       False | True | 'model'
  on_exc    bool        machine has an on_exception callback
  ignore    bool        ignore_invalid_triggers
  n_models  int
  attach    'ctor'|'list'|'each'   models given to the constructor | ONE add_model([..]) call | one call per model
  late      [model]     models attached later by an ["add", model] op of a callback
  protected [tag]       top-level triggers whose task is put into machine.protected_tasks
  triggers  [[model, event]]          top-level triggers, tags 0..n-1, started in this order; model -1 = machine.dispatch(event):
                                      the event of model i then has tag 100 + 10 * k + i
  sparse    [slot]      callback slots left EMPTY (no recorders)
  timeout   bool        every state carries the AsyncTimeout feature (timer armed on entry, never fires)
  kinds     {"1": k, "2": k}          flavour of the recorders with index 1 / 2: 0 coroutine function, 1 plain function returning
                                      a Task, 2 … a bare Future, 3 … an object with __await__
  script    {"tag:slot:idx": [op]}    what that recorder does when invoked for that tag
               op: ["susp"] | ["trig", model, event, newtag] | ["raise", n] | ["remove", model] | ["add", model] | ["ret", 0|1]
  delays    [int]       top-level trigger k starts after delays[k] bare `await asyncio.sleep(0)` trips
  schedule  [int]       at the k-th quiescence release pending[schedule[k] % len(pending)] (default 0)

Log items (tuples, first field = kind):
  begin tag chain model ev      a trigger call starts (chain = tag of the root task of the calling chain)
  ret tag value | raised tag kind
  cb tag slot idx model state chain   a recorder starts      cbend tag slot idx outcome(ok|raise|cancelled)
  decide tag model chain        cancel_running_transitions entered        cancel target chain
  set tag model value chain     the model's state attribute is written
  stage tag finalize_event|on_exception     `_trigger` enters that stage (machine.callbacks is called with the list)
  release fid | quiet k {model: [[tag, done]]}
"""
import asyncio
import functools
import signal
import sys

from . import common  # noqa: F401  (puts the repo under test on sys.path)

from transitions.extensions.asyncio import AsyncMachine, HierarchicalAsyncMachine, AsyncTimeout  # noqa: E402
from transitions.extensions.states import add_state_features  # noqa: E402

PRE = ['prepare_event', 'prepare', 'conditions']
MID = ['before_state_change', 'before', 'on_exit', 'on_exit_c']        # *_c: callbacks of the nested states B_x / B_y
POST = ['on_enter', 'on_enter_c', 'on_final', 'after', 'after_state_change']
TRANSITION_SLOTS = PRE + MID + POST
FLAT_TRANSITION_SLOTS = [x for x in TRANSITION_SLOTS if not x.endswith('_c')]
SLOTS = TRANSITION_SLOTS + ['finalize_event', 'on_exception']
EVENTS = ['go', 'hop', 'stay']
STATES = ['A', 'B', 'C']


class UserExc(Exception):
    pass


# the same exception as a member of the builtin families the library catches around its own look-ups (popleft on the
# queue of a removed model, get_state, attribute resolution): what a callback raises stays the user's whatever its family;
# all are called 'UserExc' in the log (the tag picks the family)
USER_EXC = (UserExc, type('UserExc', (UserExc, KeyError), {}), type('UserExc', (UserExc, ValueError), {}),
            type('UserExc', (UserExc, AttributeError), {}))


class Hang(Exception):
    """the case did not finish: deadlock (nothing to release, triggers unfinished) or step bound"""


def _event_data():
    """EventData of the event whose code is on the Python stack"""
    f = sys._getframe(2)
    while f is not None:
        ed = f.f_locals.get('event_data')
        if ed is not None and getattr(ed, 'args', None):
            return ed
        f = f.f_back
    return None


DISPATCH_BASE = 100     # machine.dispatch(ev, 100 + 10 * k) gives the event of model i the tag 100 + 10 * k + i


class Later(object):
    """an awaitable that is neither a coroutine nor a Future"""

    def __init__(self, coro):
        self.coro = coro

    def __await__(self):
        return self.coro.__await__()


KIND_CORO, KIND_TASK, KIND_FUTURE, KIND_AWAIT = range(4)
KIND_NAMES = ['coroutine function', 'plain -> Task', 'plain -> Future', 'plain -> __await__ object']


class Run(object):
    def __init__(self, case):
        self.case = case
        self.log = []
        self.futs = {}          # fid -> future (pending)
        self.fseq = {}
        self.root_tasks = {}    # task -> tag
        self.models = []
        self.machine = None
        self.hang = None
        self.nquiet = 0
        self.trips = 0
        self.recording = False     # state writes are logged (not while models are being attached)
        self.branching = []

    # ------------------------------------------------------------------ observation helpers
    def chain(self):
        t = AsyncMachine.current_context.get()
        if t is None:
            t = asyncio.current_task()
        return self.root_tasks.get(t, -1)

    def etag(self, event_data):
        """tag of an event: the first trigger argument; events started by dispatch share their arguments and are
        told apart by their model"""
        if event_data is None or not getattr(event_data, 'args', None):
            return None
        a = event_data.args[0]
        return a + self.midx(event_data.model) if a >= DISPATCH_BASE else a

    def midx(self, model):
        for i, m in enumerate(self.models):
            if m is model:
                return i
        return -1

    def names_probe(self):
        """after everything finished: the machine can still list its states and every state object answers to its own
        name (hierarchical state objects carry a `_scope` that enter/exit set and must hand back; the objects are shared
        by all models)"""
        if not self.case.get('hsm'):
            return None
        try:
            names = sorted(self.machine.get_nested_state_names())
        except BaseException as e:       # noqa: BLE001
            names = 'raised ' + type(e).__name__
        objs = []
        for full in ('A', 'B', 'B_x', 'B_y', 'C'):
            try:
                objs.append(self.machine.get_state(full).name)
            except BaseException as e:   # noqa: BLE001
                objs.append('raised ' + type(e).__name__)
        return [names, objs]

    def state_code(self, m):
        v = m._st
        return v if isinstance(v, str) else repr(v)

    # ------------------------------------------------------------------ construction
    def build(self):
        run = self
        case = self.case

        class Model(object):
            _st = None

            @property
            def state(self):
                return self._st

            @state.setter
            def state(self, v):
                if run.recording:
                    run.log.append(('set', run.etag(_event_data()), run.midx(self), v if isinstance(v, str) else repr(v),
                                    run.chain()))
                self._st = v

        base = HierarchicalAsyncMachine if case['hsm'] else AsyncMachine

        class M(base):
            async def cancel_running_transitions(self, model, msg=None):
                run.log.append(('decide', run.etag(_event_data()), run.midx(model), run.chain()))
                await super().cancel_running_transitions(model, msg)

            async def callbacks(self, funcs, event_data):
                # stage entry markers for the two stages of `_trigger`'s exception handling
                if funcs is self.finalize_event or funcs is self.on_exception:
                    run.log.append(('stage', run.etag(event_data),
                                    'finalize_event' if funcs is self.finalize_event else 'on_exception'))
                await super().callbacks(funcs, event_data)

            async def _process_async(self, trigger, model):
                # per-event begin/end markers: wrap the `_trigger` partial handed to the real method
                tag = run.etag(trigger.args[0])

                async def marked(_event_data):
                    run.log.append(('evstart', tag, run.midx(model), run.chain()))
                    try:
                        res = await trigger()
                    except asyncio.CancelledError:
                        run.log.append(('evend', tag, run.midx(model), 2))
                        raise
                    except BaseException:
                        run.log.append(('evend', tag, run.midx(model), 1))
                        raise
                    run.log.append(('evend', tag, run.midx(model), 0))
                    return res
                # remove_model inspects `queued_partial.args[0].model`: keep that shape
                return await super()._process_async(functools.partial(marked, trigger.args[0]), model)

        self.models = [Model() for _ in range(case['n_models'])]

        sparse = set(case.get('sparse', []))

        def recs(slot):
            # idx 0 plain function, idx 1 coroutine (suspends only), idx 2 coroutine (may also raise / trigger);
            # slots listed in case['sparse'] have NO callbacks: the library's own await points are then the only
            # places where the event can be suspended
            if slot in sparse:
                return []
            return [self.recorder(slot, 0), self.recorder(slot, 1), self.recorder(slot, 2)]

        if case.get('timeout'):
            # every state carries the AsyncTimeout feature with a timer that is armed on entry and never fires
            M = add_state_features(AsyncTimeout)(M)

        def st(d):
            if case.get('timeout'):
                d = dict(d, timeout=100000, on_timeout=[lambda event_data: None])
            if 'children' in d:
                d['children'] = [st(c) for c in d['children']]
            return d

        if case['hsm']:
            states = [{'name': 'A', 'on_enter': recs('on_enter'), 'on_exit': recs('on_exit')},
                      {'name': 'B', 'on_enter': recs('on_enter'), 'on_exit': recs('on_exit'), 'initial': 'x',
                       'children': [{'name': 'x', 'on_enter': recs('on_enter_c'), 'on_exit': recs('on_exit_c')},
                                    {'name': 'y', 'on_enter': recs('on_enter_c'), 'on_exit': recs('on_exit_c')}]},
                      {'name': 'C', 'on_enter': recs('on_enter'), 'on_exit': recs('on_exit'), 'final': True}]
        else:
            states = [{'name': s, 'on_enter': recs('on_enter'), 'on_exit': recs('on_exit'), 'final': s == 'C'} for s in STATES]
        states = [st(d) for d in states]

        def tr(trigger, source, dest):
            return {'trigger': trigger, 'source': source, 'dest': dest, 'prepare': recs('prepare'),
                    'conditions': [] if 'conditions' in sparse else [self.recorder('conditions', 2)], 'before': recs('before'), 'after': recs('after')}
        transitions = [tr('go', 'A', 'B'), tr('go', 'B', 'C'), tr('go', 'C', 'A'), tr('hop', 'A', 'C'),
                       tr('stay', 'A', None), tr('stay', 'B', None), tr('stay', 'C', None)]
        if case['hsm']:
            transitions.append(tr('hop', 'B_x', 'B_y'))
            # `nest`: valid from every state; from a child of B it goes to the parent B (exits the child, re-enters the initial child x)
            transitions += [tr('nest', 'A', 'B'), tr('nest', 'B_x', 'B'), tr('nest', 'B_y', 'B'), tr('nest', 'C', 'B')]
        q = {0: False, 1: True, 2: 'model'}[case['queued']]
        attach = case.get('attach', 'ctor')
        late = case.get('late', [])
        first = [m for i, m in enumerate(self.models) if i not in late]
        self.machine = M(model=first if attach == 'ctor' else None, states=states, transitions=transitions, initial='A', queued=q,
                         auto_transitions=False, ignore_invalid_triggers=case.get('ignore', False), send_event=True,
                         prepare_event=recs('prepare_event'), before_state_change=recs('before_state_change'),
                         after_state_change=recs('after_state_change'), finalize_event=recs('finalize_event'),
                         on_final=recs('on_final'),
                         on_exception=recs('on_exception') if case['on_exc'] else None)
        # how the models get attached is part of the case: constructor list | ONE add_model call with the list |
        # one add_model call per model; models in case['late'] are attached by a callback during the run
        if attach == 'list':
            self.machine.add_model(first)
        elif attach == 'each':
            for m in first:
                self.machine.add_model(m)
        for mi, m in enumerate(self.models):
            if mi not in late:
                self.wrap_triggers(mi)
        self.log = []
        self.recording = True

    def ops(self, tag, slot, idx):
        return self.case['script'].get('%s:%s:%d' % (tag, slot, idx), [])

    def recorder(self, slot, idx):
        run = self

        def start(tag, model):
            run.log.append(('cb', tag, slot, idx, run.midx(model), run.state_code(model), run.chain()))

        def sync_ops(tag, model):
            res = True
            for op in run.ops(tag, slot, idx):
                if op[0] == 'raise':
                    run.log.append(('cbend', tag, slot, idx, 'raise'))
                    raise USER_EXC[op[1] % 4](op[1])
                if op[0] == 'remove':
                    run.do_remove(op[1])
                if op[0] == 'add':
                    run.do_add(op[1])
                if op[0] == 'ret':
                    res = bool(op[1])
            run.log.append(('cbend', tag, slot, idx, 'ok'))
            return res

        if idx == 0:
            def plain(event_data):
                tag, model = run.etag(event_data), event_data.model
                start(tag, model)
                return sync_ops(tag, model)
            return plain

        async def body(tag):
            res = True
            try:
                for op in run.ops(tag, slot, idx):
                    if op[0] == 'susp':
                        await run.suspend((tag, slot, idx))
                    elif op[0] == 'trig':
                        await run.call_trigger(op[3], op[1], op[2])
                    elif op[0] == 'raise':
                        raise USER_EXC[op[1] % 4](op[1])
                    elif op[0] == 'remove':
                        run.do_remove(op[1])
                    elif op[0] == 'add':
                        run.do_add(op[1])
                    elif op[0] == 'ret':
                        res = bool(op[1])
            except asyncio.CancelledError:
                run.log.append(('cbend', tag, slot, idx, 'cancelled'))
                raise
            except BaseException:
                run.log.append(('cbend', tag, slot, idx, 'raise'))
                raise
            run.log.append(('cbend', tag, slot, idx, 'ok'))
            return res

        kind = self.case.get('kinds', {}).get(str(idx), KIND_CORO)
        if kind == KIND_CORO:
            async def coro(event_data):
                tag = run.etag(event_data)
                start(tag, event_data.model)
                return await body(tag)
            return coro

        # PLAIN callables that hand back an awaitable which is not a coroutine
        def handing_back(event_data):
            tag = run.etag(event_data)
            start(tag, event_data.model)
            if kind == KIND_AWAIT:
                return Later(body(tag))
            task = asyncio.ensure_future(body(tag))
            # (a bare Future passes a cancellation on one loop trip late: not for callbacks that await triggers)
            if kind == KIND_TASK or any(op[0] == 'trig' for op in run.ops(tag, slot, idx)):
                return task
            # a bare Future, resolved when the work is done; cancelling the future cancels the work
            fut = asyncio.get_event_loop().create_future()

            def finished(t):
                if fut.done():
                    return
                if t.cancelled():
                    fut.cancel()
                elif t.exception() is not None:
                    fut.set_exception(t.exception())
                else:
                    fut.set_result(t.result())
            task.add_done_callback(finished)
            fut.add_done_callback(lambda f: task.cancel() if f.cancelled() else None)
            return fut
        return handing_back

    def do_remove(self, mi):
        m = self.models[mi]
        if m in self.machine.models:
            self.log.append(('remove', mi, self.chain()))
            self.machine.remove_model(m)

    def do_add(self, mi):
        m = self.models[mi]
        if m not in self.machine.models:
            self.log.append(('add', mi, self.chain()))
            self.recording = False
            try:
                self.machine.add_model(m)
                self.wrap_triggers(mi)
            finally:
                self.recording = True

    async def suspend(self, key):
        n = self.fseq.get(key, 0)
        self.fseq[key] = n + 1
        fid = '%s:%s:%d:%d' % (key[0], key[1], key[2], n)
        fut = asyncio.get_event_loop().create_future()
        self.futs[fid] = fut
        try:
            await fut
        finally:
            self.futs.pop(fid, None)

    def wrap_triggers(self, mi):
        """put begin/end markers around the model's trigger methods (dispatch looks them up with getattr too)"""
        run = self
        model = self.models[mi]
        for ev in EVENTS + ['nest']:
            orig = getattr(model, ev, None)
            if orig is None or getattr(orig, '_c08', False):
                continue

            def make(orig, ev):
                async def marked(*args, **kwargs):
                    a = args[0]
                    tag = a + mi if a >= DISPATCH_BASE else a
                    if AsyncMachine.current_context.get() is None:
                        run.root_tasks[asyncio.current_task()] = tag        # a new root task
                    run.log.append(('begin', tag, run.chain(), mi, ev))
                    try:
                        res = await orig(*args, **kwargs)
                    except asyncio.CancelledError:
                        run.log.append(('raised', tag, 'Cancelled'))
                        raise
                    except BaseException as e:
                        run.log.append(('raised', tag, type(e).__name__))
                        raise
                    run.log.append(('ret', tag, res))
                    return res
                marked._c08 = True
                return marked
            setattr(model, ev, make(orig, ev))

    async def call_trigger(self, tag, mi, ev):
        fn = getattr(self.models[mi], ev, None)
        if fn is None:          # model not attached (shrinking artefact)
            self.log.append(('begin', tag, self.chain(), mi, ev))
            self.log.append(('raised', tag, 'AttributeError'))
            raise AttributeError(ev)
        return await fn(tag)

    # ------------------------------------------------------------------ the controller
    def snapshot(self):
        snap = {}
        for key, tasks in list(AsyncMachine.async_tasks.items()):
            mi = next((i for i, m in enumerate(self.models) if id(m) == key), -1)
            snap[mi] = [[self.root_tasks.get(t, -1), bool(t.done())] for t in tasks]
        return snap

    async def top(self, tag, mi, ev):
        # arrival at an arbitrary loop iteration: `delays[tag]` bare trips through the event loop first
        delays = self.case.get('delays', [])
        for _ in range(delays[tag] if tag < len(delays) else 0):
            await asyncio.sleep(0)
        if mi >= 0:
            return await self.call_trigger(tag, mi, ev)
        # machine.dispatch: the event on every model of the machine, gathered; the per-model calls are root tasks
        self.log.append(('dispatch', tag, ev))
        try:
            res = await self.machine.dispatch(ev, DISPATCH_BASE + 10 * tag)
        except asyncio.CancelledError:
            self.log.append(('draised', tag, 'Cancelled'))
            raise
        except BaseException as e:
            self.log.append(('draised', tag, type(e).__name__))
            raise
        self.log.append(('dret', tag, res))
        return res

    async def controller(self, loop):
        case = self.case
        run = self
        self.tag_model = {}

        class Task(asyncio.Task):
            def cancel(self, msg=None):
                if self in run.root_tasks and not self.done():      # cancel() on a finished task is a no-op
                    run.log.append(('cancel', run.root_tasks[self], run.chain()))
                return super().cancel(msg)
        loop.set_task_factory(lambda lp, coro, **kw: Task(coro, loop=lp, **kw))
        me = asyncio.current_task()
        tasks = []
        for tag, (mi, ev) in enumerate(case['triggers']):
            # a root task must start with an empty current_context (the controller has none set)
            t = loop.create_task(self.top(tag, mi, ev))
            if mi >= 0:
                self.root_tasks[t] = tag
            tasks.append(t)
            if tag in case.get('protected', []):
                AsyncMachine.protected_tasks.append(t)
        sched = list(case.get('schedule', []))
        steps = 0
        while True:
            # run until every other task is blocked
            spins = 0
            while True:
                await asyncio.sleep(0)
                spins += 1
                self.trips += 1
                if not loop._ready:
                    break
                if spins > 20000:
                    raise Hang('livelock: the loop never becomes quiescent')
            self.log.append(('quiet', self.nquiet, self.snapshot()))
            self.nquiet += 1
            if all(t.done() for t in tasks) and all(t.done() for t in list(self.root_tasks)):
                break
            pending = sorted(f for f in self.futs if not self.futs[f].done())
            if not pending:
                raise Hang('deadlock: triggers unfinished and no suspended callback to release: %s' %
                           [i for i, t in enumerate(tasks) if not t.done()] + [g for t, g in self.root_tasks.items() if not t.done()])
            k = sched[steps] if steps < len(sched) else 0
            self.branching.append(len(pending))
            fid = pending[k % len(pending)]
            steps += 1
            if steps > 200:
                raise Hang('step bound')
            self.log.append(('release', fid))
            self.futs[fid].set_result(None)
        # orphaned callbacks (siblings of a raising callback in a gather) may still be suspended
        for f in list(self.futs.values()):
            if not f.done():
                f.cancel()
        for _ in range(5):
            await asyncio.sleep(0)
        for t in tasks:
            if not t.cancelled() and t.exception() is not None:
                pass                       # retrieved: recorded in the log by call_trigger
        self.final_tasks = self.snapshot()
        self.final_states = [self.state_code(m) for m in self.models]
        self.final_names = self.names_probe()
        _ = me

    def run(self, timeout=20):
        AsyncMachine.async_tasks.clear()
        del AsyncMachine.protected_tasks[:]
        self.build()
        loop = asyncio.new_event_loop()
        loop.set_exception_handler(lambda lp, ctx: None)     # "exception was never retrieved" of orphans

        def on_alarm(signum, frame):
            raise Hang('watchdog: case exceeded %ds' % timeout)
        old = signal.signal(signal.SIGALRM, on_alarm)
        signal.alarm(timeout)
        try:
            asyncio.set_event_loop(loop)
            loop.run_until_complete(self.controller(loop))
        except Hang as e:
            self.hang = str(e)
            self.final_tasks = self.snapshot()
            self.final_states = [self.state_code(m) for m in self.models]
        finally:
            signal.alarm(0)
            signal.signal(signal.SIGALRM, old)
            try:
                for t in asyncio.all_tasks(loop):
                    t.cancel()
                loop.run_until_complete(asyncio.sleep(0))
            except BaseException:
                pass
            asyncio.set_event_loop(None)
            loop.close()
            AsyncMachine.async_tasks.clear()
            del AsyncMachine.protected_tasks[:]
        return self


def execute(case, timeout=20):
    return Run(case).run(timeout)


def show(log):
    return [' '.join(str(x) for x in it) for it in log]
