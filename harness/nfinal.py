"""Hierarchical on_final cases for C18: abstract descriptions (state tree with final flags and on_final
recorders on every state and on the machine, global and scope-local transitions, histories), a
generator, an exhaustive small-scope enumerator, the runner that realises a description on the real
`HierarchicalMachine` / `HierarchicalAsyncMachine`, the observation parser (one segment per executed
transition: entered set, configuration, on_final calls, position) and the Python statement of the
property (`fin` / `fires`, DESIGN 4/C18)."""
import asyncio
import itertools

from . import common

SEP = '_'


def seg(i):
    return 'n%d' % i


# ---------------------------------------------------------------------------------------------
# description
# ---------------------------------------------------------------------------------------------

class NDesc(object):
    """Plain data.
    nodes[i] = dict(parent, kids [definition order], init [initial children, order of the `initial`
    list; [] = none], final, cbs [on_final callback ids]); roots; initial (node id); mcbs (machine
    on_final callback ids); trans = [dict(ev, src, dst | None, scope | None, cond None/True/False)];
    history = [('e', ev) | ('to', node)]; kind 0 sync / 1 async; coro = on_final callback ids realised as
    coroutine functions (async only); susp = [[cb, k]]: that coroutine really suspends k times
    (`await asyncio.sleep(0)`) between its start and its end."""

    def __init__(self):
        self.nodes = []
        self.roots = []
        self.initial = 0
        self.mcbs = []
        self.trans = []
        self.history = []
        self.kind = 0
        self.coro = []
        self.susp = []
        self.self_model = False   # the machine is its own model (the library's default `model='self'`)
        self.evnames = []         # [[ev, name]]: events not called 'e<ev>' (e.g. an event named 'final')
        self.locked = False       # LockedHierarchicalMachine (sync only)
        self.features = []        # state feature mixins the machine class is decorated with (`add_state_features`)
        self.bystander = False    # a second machine of the same class is alive (own dynamically registered on_final)
        self.flags = None        # optional list of final-flag placements applied in turn (exhaustive tier)

    def to_json(self):
        return {'nodes': self.nodes, 'roots': self.roots, 'initial': self.initial, 'mcbs': self.mcbs,
                'trans': self.trans, 'history': [list(h) for h in self.history], 'kind': self.kind,
                'coro': list(self.coro), 'susp': [list(x) for x in self.susp], 'self_model': self.self_model,
                'evnames': [list(x) for x in self.evnames], 'bystander': self.bystander, 'locked': self.locked,
                'features': list(self.features)}

    @staticmethod
    def from_json(j):
        d = NDesc()
        d.nodes = [dict(n) for n in j['nodes']]
        d.roots = list(j['roots'])
        d.initial = j['initial']
        d.mcbs = list(j['mcbs'])
        d.trans = [dict(t) for t in j['trans']]
        d.history = [tuple(h) for h in j['history']]
        d.kind = j.get('kind', 0)
        d.coro = list(j.get('coro', []))
        d.susp = [list(x) for x in j.get('susp', [])]
        d.self_model = bool(j.get('self_model', False))
        d.evnames = [list(x) for x in j.get('evnames', [])]
        d.bystander = bool(j.get('bystander', False))
        d.locked = bool(j.get('locked', False))
        d.features = list(j.get('features', []))
        return d

    # -- names -------------------------------------------------------------------------------
    def path(self, i):
        p = []
        while i is not None:
            p.append(i)
            i = self.nodes[i]['parent']
        return list(reversed(p))

    def obj(self, i):
        """the state OBJECT the node is: its own number, or — for the copy of an embedded child machine's state
        under a second host — the number of the node under the first host (`nodes[i]['obj']`)"""
        return self.nodes[i].get('obj', i)

    def full_name(self, i):
        return SEP.join(seg(self.obj(x)) for x in self.path(i))

    def rel_name(self, i, scope):
        p = self.path(i)
        k = p.index(scope)
        return SEP.join(seg(self.obj(x)) for x in p[k + 1:])

    def ename(self, ev):
        return dict((e, n) for e, n in self.evnames).get(ev, 'e%d' % ev)

    def machine_final_attr(self):
        """`getattr(machine, 'final', False)` is truthy: the machine is its own model and an event is named 'final'"""
        return self.self_model and any(n == 'final' for _e, n in self.evnames)

    def reg(self, i):
        """how each on_final callback of node i is registered: 0 = `on_final=` at construction, 1 = a model method
        named on_final_<state>, 2 = `machine.on_final_<state>(cb)` after construction (list order = this order)"""
        nd = self.nodes[i]
        return nd.get('reg') or [0] * len(nd['cbs'])

    def shared(self):
        objs = [self.obj(i) for i in range(len(self.nodes))]
        return set(o for o in objs if objs.count(o) > 1)

    def depth(self, i):
        return len(self.path(i)) - 1

    # -- protocol (Handlers/HC18.lean) ---------------------------------------------------------
    def enc_defs(self, finals=None):
        o = [len(self.nodes)]
        for i, n in enumerate(self.nodes):
            f = n['final'] if finals is None else finals[i]
            o += [i, int(bool(f)), len(n['cbs'])] + list(n['cbs'])
        return o + [len(self.mcbs)] + list(self.mcbs)


def enc_tree(t):
    i, kids = t
    o = [i, len(kids)]
    for k in kids:
        o += enc_tree(k)
    return o


def enc_forest(roots):
    o = [len(roots)]
    for t in roots:
        o += enc_tree(t)
    return o


def request(d, roots, entered, finals=None):
    return ('c18', d.enc_defs(finals) + enc_forest(roots) + [len(entered)] + list(entered))


def parse_answer(ans):
    """`S <owners> <cbs> C <0 owners cbs | 1> W <wf> <nodup>`"""
    if not ans.startswith('S '):
        raise common.MachineryError('driver answered %r to a c18 request' % ans[:200])
    s, rest = ans[2:].split(' C ')
    c, w = rest.split(' W ')

    def two(nums):
        n = nums[0]
        owners = nums[1:1 + n]
        m = nums[1 + n]
        cbs = nums[2 + n:2 + n + m]
        return owners, cbs
    sn = [int(x) for x in s.split()]
    cn = [int(x) for x in c.split()]
    wn = [int(x) for x in w.split()]
    spec = two(sn)
    code = None if cn[0] == 1 else two(cn[1:])
    return {'spec': spec, 'code': code, 'wf': bool(wn[0]), 'nodup': bool(wn[1])}


# ---------------------------------------------------------------------------------------------
# generator
# ---------------------------------------------------------------------------------------------

class Knobs(object):
    def __init__(self, **kw):
        self.max_nodes = 9
        self.max_depth = 3           # root = depth 0: four levels
        self.p_root = 0.22
        self.max_events = 4
        self.max_trans = 4
        self.max_history = 9
        self.p_to = 0.3
        self.p_local = 0.4
        self.p_cond_false = 0.1
        self.p_internal = 0.07
        self.p_reflexive = 0.1
        self.__dict__.update(kw)


def gen_tree(rng, kn, d):
    n = rng.randint(1, kn.max_nodes)
    depth = {}
    for i in range(n):
        cands = [j for j in range(i) if depth[j] < kn.max_depth]
        if i == 0 or not cands or rng.random() < kn.p_root:
            parent = None
            depth[i] = 0
            d.roots.append(i)
        else:
            parent = rng.choice(cands)
            depth[i] = depth[parent] + 1
            d.nodes[parent]['kids'].append(i)
        d.nodes.append({'parent': parent, 'kids': [], 'init': [], 'final': False, 'cbs': []})
    pf = rng.choice([0.15, 0.35, 0.6, 0.85])
    nxt = 1
    for i, nd in enumerate(d.nodes):
        kids = nd['kids']
        if kids:
            r = rng.random()
            if r < 0.42:
                nd['init'] = [rng.choice(kids)]
            elif r < 0.8:
                nd['init'] = list(kids)
                if rng.random() < 0.35:
                    rng.shuffle(nd['init'])
            elif r < 0.9:
                k = rng.randint(1, len(kids))
                nd['init'] = rng.sample(kids, k)
            else:
                nd['init'] = []
        nd['final'] = rng.random() < pf
        r = rng.random()
        ncb = 0 if r < 0.08 else (1 if r < 0.8 else 2)
        nd['cbs'] = list(range(nxt, nxt + ncb))
        nxt += ncb
    r = rng.random()
    ncb = 0 if r < 0.08 else (1 if r < 0.8 else 2)
    d.mcbs = list(range(nxt, nxt + ncb))
    return d


def is_descendant(d, i, anc):
    return anc in d.path(i)[:-1]


def gen_desc(rng, kn=None, kind=0):
    kn = kn or Knobs()
    d = NDesc()
    gen_tree(rng, kn, d)
    n = len(d.nodes)
    d.initial = rng.randrange(n)
    d.kind = kind
    nev = rng.randint(1, kn.max_events)
    for ev in range(nev):
        for _ in range(rng.randint(1, kn.max_trans)):
            src = rng.randrange(n)
            r = rng.random()
            if r < kn.p_internal:
                dst = None
            elif r < kn.p_internal + kn.p_reflexive:
                dst = src
            else:
                dst = rng.randrange(n)
            scope = None
            p = d.nodes[src]['parent']
            if p is not None and rng.random() < kn.p_local:
                # declared in the scope of an ancestor of the source that also contains the destination
                anc = [a for a in d.path(src)[:-1] if dst is None or is_descendant(d, dst, a)]
                if anc:
                    scope = rng.choice(anc)
            cond = None
            if rng.random() < kn.p_cond_false:
                cond = False
            elif rng.random() < 0.1:
                cond = True
            d.trans.append({'ev': ev, 'src': src, 'dst': dst, 'scope': scope, 'cond': cond})
    for _ in range(rng.randint(2, kn.max_history)):
        if rng.random() < kn.p_to:
            d.history.append(('to', rng.randrange(n)))
        else:
            d.history.append(('e', rng.randrange(nev)))
    # registration of the on_final callbacks: at construction, through a model method on_final_<state>, or through the
    # dynamic machine.on_final_<state>(cb) after construction (states without constructor callbacks get no on_final key)
    for nd in d.nodes:
        if nd['cbs'] and rng.random() < 0.45:
            reg = [rng.choice((1, 2))] + [2] * (len(nd['cbs']) - 1)
            if rng.random() < 0.3 and len(reg) > 1:
                reg[0] = 0
            nd['reg'] = sorted(reg)
    d.self_model = rng.random() < 0.3
    if d.self_model:
        # on a machine that is its own model `machine.on_final_<state>` IS the model method when there is one:
        # no dynamic registration next to a model method for the same state
        for nd in d.nodes:
            if 1 in nd.get('reg', []) and 2 in nd['reg']:
                nd['reg'] = sorted(0 if r == 1 else r for r in nd['reg'])
    d.bystander = rng.random() < 0.3
    # the machine class: plain / locked, optionally decorated with state feature mixins (the decorated state class
    # must keep NestedState's dynamic on_final_<state> registration and model-method convention)
    d.locked = kind == 0 and rng.random() < 0.2
    if rng.random() < 0.35:
        # (Error / Volatile override enter / exit synchronously: sync classes only)
        d.features = ['Tags'] if kind == 1 else rng.choice([['Tags'], ['Error'], ['Volatile'], ['Tags', 'Volatile'],
                                                             ['Error', 'Volatile']])
    if rng.random() < (0.6 if d.self_model else 0.15):
        d.evnames = [[rng.randrange(nev), 'final']]
    if kind == 1:
        ncb = max([0] + d.mcbs + [c for nd in d.nodes for c in nd['cbs']])
        d.coro = [c for c in range(1, ncb + 1) if rng.random() < 0.6]
        # most coroutine recorders really suspend; callbacks of deeper states tend to take longer
        d.susp = [[c, rng.randint(1, 3)] for c in d.coro if rng.random() < 0.75]
    return d


def gen_embedded(rng, kind=0):
    """one child machine instance embedded as `children` of several states (regions of a parallel state, or
    alternatives of a compound): root 0 = leaf, root 1 = P with 2-3 regions, most of which host the SAME child
    machine (1-3 flat states + possibly one compound); the copies share their state objects (`obj`)."""
    d = NDesc()
    d.kind = kind

    def add(parent, **kw):
        i = len(d.nodes)
        nd = {'parent': parent, 'kids': [], 'init': [], 'final': False, 'cbs': []}
        nd.update(kw)
        d.nodes.append(nd)
        if parent is None:
            d.roots.append(i)
        else:
            d.nodes[parent]['kids'].append(i)
        return i
    nxt = [1]

    def cbs():
        r = rng.random()
        n = 0 if r < 0.05 else (1 if r < 0.85 else 2)
        out = list(range(nxt[0], nxt[0] + n))
        nxt[0] += n
        return out
    pf = rng.choice([0.3, 0.5, 0.8])
    add(None, cbs=cbs(), final=rng.random() < 0.2)
    P = add(None, cbs=cbs(), final=rng.random() < 0.2)
    # shape of the child machine: list of (final, [sub finals])
    child = []
    for _ in range(rng.randint(2, 3)):
        sub = [rng.random() < pf for _ in range(rng.randint(1, 2))] if rng.random() < 0.25 else []
        child.append((rng.random() < pf, sub))
    if not any(f or any(sub) for f, sub in child):
        child[-1] = (True, child[-1][1])
    child_init = rng.randrange(len(child))
    canon = None
    for _r in range(rng.randint(2, 3)):
        R = add(P, cbs=cbs(), final=rng.random() < 0.2)
        if canon is not None and rng.random() < 0.15:
            k = add(R, cbs=cbs(), final=rng.random() < pf)      # a plain region
            d.nodes[R]['init'] = [k]
            continue
        d.nodes[R]['emb'] = True
        ids = []
        for ci, (f, sub) in enumerate(child):
            if canon is None:
                k = add(R, cbs=cbs(), final=f)
                for sf in sub:
                    add(k, cbs=cbs(), final=sf)
                if sub:
                    d.nodes[k]['init'] = [d.nodes[k]['kids'][0]]
            else:
                c = canon[ci]
                k = add(R, cbs=list(d.nodes[c]['cbs']), final=d.nodes[c]['final'], obj=c)
                for sc in d.nodes[c]['kids']:
                    add(k, cbs=list(d.nodes[sc]['cbs']), final=d.nodes[sc]['final'], obj=sc)
                if sub:
                    d.nodes[k]['init'] = [d.nodes[k]['kids'][0]]
            ids.append(k)
        d.nodes[R]['init'] = [ids[child_init]]
        if canon is None:
            canon = ids
    regions = d.nodes[P]['kids']
    d.nodes[P]['init'] = list(regions) if rng.random() < 0.8 else [rng.choice(regions)]
    d.mcbs = cbs()
    d.initial = 0
    n = len(d.nodes)
    d.history = [('to', rng.randrange(n)) for _ in range(rng.randint(3, 9))]
    if kind == 1:
        d.coro = [c for c in range(1, nxt[0]) if rng.random() < 0.6]
        d.susp = [[c, rng.randint(1, 3)] for c in d.coro if rng.random() < 0.75]
    return d


# ---------------------------------------------------------------------------------------------
# exhaustive small scope: every ordered forest with n nodes, every compound kind
# ---------------------------------------------------------------------------------------------

def forests(n):
    """all ordered forests with n nodes, as nested lists of children; preorder numbering is applied later"""
    if n == 0:
        yield []
        return
    for k in range(1, n + 1):              # size of the first tree
        for first_kids in forests(k - 1):
            for rest in forests(n - k):
                yield [first_kids] + rest


def number(forest):
    """nested lists → (nodes, roots) with preorder ids"""
    nodes = []

    def walk(kids_shape, parent):
        i = len(nodes)
        nodes.append({'parent': parent, 'kids': [], 'init': [], 'final': False, 'cbs': [i + 1]})
        for ks in kids_shape:
            c = walk(ks, i)
            nodes[i]['kids'].append(c)
        return i
    roots = [walk(t, None) for t in forest]
    return nodes, roots


def init_choices(kids):
    """kinds of a compound: one initial child (each), parallel (all; for two children also the swapped
    order), no initial"""
    out = [[k] for k in kids]
    if len(kids) >= 1:
        out.append(list(kids))
    if len(kids) == 2:
        out.append(list(reversed(kids)))
    if len(kids) >= 3:
        out.append(list(reversed(kids)))
    out.append([])
    # parallel with a single child == exclusive with that child: drop the duplicate
    seen, res = set(), []
    for o in out:
        if tuple(o) not in seen:
            seen.add(tuple(o))
            res.append(o)
    return res


def small_shapes(n):
    """every (nodes, roots) with n states: forest shape x kind of every compound"""
    for f in forests(n):
        nodes, roots = number(f)
        comp = [i for i, nd in enumerate(nodes) if nd['kids']]
        for choice in itertools.product(*[init_choices(nodes[i]['kids']) for i in comp]):
            ns = [dict(nd, kids=list(nd['kids'])) for nd in nodes]
            for i, c in zip(comp, choice):
                ns[i]['init'] = list(c)
            yield ns, list(roots)


def euler_walk(n):
    """a closed walk over 0..n-1 in which every ordered pair (y, z), y = z included, occurs exactly once as
    consecutive elements (Hierholzer on the complete digraph with loops): n*n + 1 elements"""
    nxt = {v: list(range(n)) for v in range(n)}
    stack, walk = [0], []
    while stack:
        v = stack[-1]
        if nxt[v]:
            stack.append(nxt[v].pop())
        else:
            walk.append(stack.pop())
    return list(reversed(walk))


def small_desc(nodes, roots, kind=0):
    d = NDesc()
    d.nodes = nodes
    d.roots = roots
    d.initial = 0
    d.mcbs = [len(nodes) + 1]
    d.kind = kind
    n = len(nodes)
    for i, nd in enumerate(d.nodes):
        if i % 2 == 1:
            nd['reg'] = [2]       # machine.on_final_<state>(cb) after construction; the state gets no on_final argument
    if kind == 1:
        # every state's recorder suspends, deeper states longer; the machine's does not
        d.coro = list(range(1, n + 2))
        d.susp = [[i + 1, 1 + d.depth(i)] for i in range(n)]
    if n <= 4:
        # single transitions: from the configuration reached by entering Y, go to Z — for all Y, Z
        for y in range(n):
            for z in range(n):
                d.history.append(('to', y))
                d.history.append(('to', z))
    else:
        # the same pairs (to_Y directly followed by to_Z) along one closed walk: n*n + 1 transitions
        d.history = [('to', v) for v in euler_walk(n)]
    return d


# ---------------------------------------------------------------------------------------------
# runner
# ---------------------------------------------------------------------------------------------

class _Model(object):
    pass


def parse_state(value, d=None):
    """model.state (a name or nested lists of names) → forest [(id, [kids…])…] in the order of the
    machine's own state tree (`build_state_tree`: insertion order); a name segment is the number of the state
    OBJECT, the node id is found by walking the description (copies of an embedded machine share segments)"""
    roots = []

    def add(name):
        cur = roots
        level = None if d is None else d.roots
        for part in name.split(SEP):
            i = int(part[1:])
            if d is not None:
                i = next((k for k in level if d.obj(k) == i), i)
                level = d.nodes[i]['kids'] if i < len(d.nodes) else []
            for t in cur:
                if t[0] == i:
                    cur = t[1]
                    break
            else:
                t = (i, [])
                cur.append(t)
                cur = t[1]

    def walk(v):
        if isinstance(v, (list, tuple)):
            for x in v:
                walk(x)
        else:
            add(getattr(v, 'name', v))
    walk(value)
    return roots


def freeze(forest):
    return tuple((i, freeze(k)) for i, k in forest)


class NRun(object):
    """Realise an NDesc on the real class and run its history.
    log = [{'cmd', 'items', 'out'}]; items:
      ('bsc',) ('asc', snap)                machine before/after_state_change: one transition's bracket
      ('before', t) ('after', t, snap)      the transition's own callbacks
      ('exit', node) ('enter', node, snap)  state callbacks
      ('final', owner, cb, snap)            on_final recorders (start); owner -1 = machine
      ('final_end', owner, cb) ('enter_end', node)   a coroutine recorder completes (async class only)
    """

    def __init__(self, desc):
        self.d = desc
        self.cur = None
        self.log = []
        self._snaps = {}
        self._cls = None
        self.emb = {}
        self._shared = desc.shared()
        self.is_async = desc.kind == 1
        self.reg_errors = []
        self.by = self.build_bystander() if desc.bystander else None
        methods = self.model_methods()
        self.model = None if desc.self_model else type('Model', (_Model,), methods)()
        # further models of the same class on the same machine that never receive an event (some registered at
        # construction, some through add_model afterwards): registering a model must not change what happens for
        # another one (per-state callback lists are shared by all models — C10's independence seen from C18)
        n_idle = 0 if desc.self_model else (len(desc.nodes) + len(desc.trans)) % 3
        self.idle = [type(self.model)() for _ in range(n_idle)]
        self.machine = self.build(methods)
        for extra in self.idle[1:]:
            self.machine.add_model(extra)
        if desc.self_model:
            self.model = self.machine
        for i in range(len(desc.nodes)):
            for c, r in zip(desc.nodes[i]['cbs'], desc.reg(i)):
                if r == 2:
                    self.register('on_final_' + desc.full_name(i), self.machine, self.final_rec(i, c))


    # -- recorders ---------------------------------------------------------------------------
    def snap(self):
        v = getattr(self.model, 'state')
        key = repr(v)
        fr = self._snaps.get(key)
        if fr is None:
            fr = self._snaps[key] = freeze(parse_state(v, self.d))
        return fr

    def rec(self, make, cb=None, co=False, end=None, susp=0):
        """a recorder; on the async class a coroutine function when `co` or when the on_final callback id
        `cb` is listed in `desc.coro`; a coroutine recorder suspends `susp` times and then logs `end()`"""
        run = self

        def f(*_a, **_k):
            if run.cur is not None:
                run.cur.append(make())
            return True
        if self.is_async and (co or (cb is not None and cb in self.d.coro)):
            if cb is not None:
                susp = dict((c, k) for c, k in self.d.susp).get(cb, 0)

            async def g(*_a, **_k):
                cur = run.cur
                f()
                for _ in range(susp):
                    await asyncio.sleep(0)
                if end is not None and cur is not None:
                    cur.append(end())
                return True
            return g
        return f

    def final_rec(self, i, c):
        return self.rec(lambda: ('final', i, c, self.snap()), cb=c, end=lambda: ('final_end', i, c))

    def register(self, name, machine, recorder):
        """`machine.on_final_<state>(cb)`: the dynamic registration of NestedState.dynamic_methods; a machine that does
        not recognise it is recorded (and judged), the run goes on without that callback"""
        try:
            getattr(machine, name)(recorder)
        except Exception as e:          # noqa: BLE001
            if isinstance(e, common.MachineryError):
                raise
            self.reg_errors.append([name, type(e).__name__, str(e)[:100]])

    def model_methods(self):
        """model methods named on_final_<state> (picked up by `_add_model_to_state`)"""
        out = {}
        d = self.d
        for i in range(len(d.nodes)):
            for c, r in zip(d.nodes[i]['cbs'], d.reg(i)):
                if r == 1:
                    out['on_final_' + d.full_name(i)] = (lambda f: (lambda _self, *a, **k: f(*a, **k)))(self.final_rec(i, c))
        return out

    def build_bystander(self):
        """another machine of the same class in the same process, with states that have no on_final of their own and
        one callback registered dynamically; nothing of it may ever run in the machine under test"""
        by = self.machine_cls()(states=['p', {'name': 'q', 'final': True}, {'name': 'r', 'children': ['s']}], initial='p')
        self.register('on_final_q', by, self.rec(lambda: ('final', -2, 0, self.snap())))
        return by

    def cond(self, value):
        def f(*_a, **_k):
            return value
        return f

    # -- construction ------------------------------------------------------------------------
    def trans_def(self, ti, t, local):
        d = self.d
        if local:
            src = d.rel_name(t['src'], t['scope'])
            dst = None if t['dst'] is None else d.rel_name(t['dst'], t['scope'])
        else:
            src = d.full_name(t['src'])
            dst = None if t['dst'] is None else d.full_name(t['dst'])
        td = {'trigger': d.ename(t['ev']), 'source': src, 'dest': dst,
              'before': [self.rec(lambda: ('before', ti))],
              'after': [self.rec(lambda: ('after', ti, self.snap()), co=(ti % 2 == 0))]}
        if t['cond'] is not None:
            td['conditions'] = [self.cond(t['cond'])]
        return td

    def node_def(self, i):
        d = self.d
        nd = d.nodes[i]
        sd = {'name': seg(i), 'final': bool(nd['final']),
              'on_enter': [self.rec(lambda: ('enter', self.who(i), self.snap()), co=(i % 2 == 1),
                                   end=lambda: ('enter_end', self.who(i)), susp=i % 3)],
              'on_exit': [self.rec(lambda: ('exit', self.who(i)), co=(i % 3 == 0))],
              }
        if 'Error' in d.features:
            sd['accepted'] = True          # a dead end that is not accepted would raise MachineError on entry
        if 'Tags' in d.features and i % 2 == 0:
            sd['tags'] = ['t%d' % i]
        ctor = [self.final_rec(i, c) for c, r in zip(nd['cbs'], d.reg(i)) if r == 0]
        if ctor:
            sd['on_final'] = ctor          # otherwise the state is created without an on_final argument
        if nd.get('emb'):
            # the children are ONE child machine instance, possibly embedded under several hosts (README "reuse of
            # previously created HSMs"): `_add_machine_states` adds the child's state objects themselves
            key = tuple(d.obj(k) for k in nd['kids'])
            if key not in self.emb:
                self.emb[key] = self.machine_cls()(states=[self.node_def(k) for k in nd['kids']],
                                                   initial=seg(d.obj(nd['init'][0])), auto_transitions=False)
            sd['children'] = self.emb[key]
        elif nd['kids']:
            kids = [self.node_def(k) for k in nd['kids']]
            if nd['init'] == nd['kids'] and len(kids) >= 2 and i % 2 == 0:
                sd['parallel'] = kids            # the short handle for children + initial = all of them
            else:
                sd['children'] = kids
                if len(nd['init']) == 1:
                    sd['initial'] = seg(nd['init'][0])
                elif nd['init']:
                    sd['initial'] = [seg(k) for k in nd['init']]
        local = [self.trans_def(ti, t, True) for ti, t in enumerate(d.trans) if t['scope'] == i]
        if local:
            sd['transitions'] = local
        return sd

    def machine_cls(self):
        if self._cls is not None:
            return self._cls
        if self.is_async:
            from transitions.extensions.asyncio import HierarchicalAsyncMachine as cls
        elif self.d.locked:
            from transitions.extensions import LockedHierarchicalMachine as cls
        else:
            from transitions.extensions import HierarchicalMachine as cls
        if self.d.features:
            from transitions.extensions import states as st
            cls = st.add_state_features(*[getattr(st, f) for f in self.d.features])(type('Decorated', (cls,), {}))
        self._cls = cls
        return cls

    def who(self, i):
        """the node a state callback runs for: for a state object that sits at several paths, the path is read
        from the object's scoped name (`NestedState.name` while `scoped_enter` / `scoped_exit` run)"""
        d = self.d
        if d.obj(i) not in self._shared:
            return i
        st = self.machine.get_state(d.full_name(d.obj(i)))
        forest = parse_state(st.name, d)
        t = forest[0]
        while t[1]:
            t = t[1][0]
        return t[0]

    def build(self, methods=None):
        d = self.d
        cls = self.machine_cls()
        if d.self_model:
            cls = type('SelfModel', (cls,), dict(methods or {}))
        states = [self.node_def(i) for i in d.roots]
        transitions = [self.trans_def(ti, t, False) for ti, t in enumerate(d.trans) if t['scope'] is None]
        return cls(model=(cls.self_literal if d.self_model else ([self.model] + self.idle[:1] if self.idle else self.model)), states=states, transitions=transitions, initial=d.full_name(d.initial),
                   auto_transitions=True, ignore_invalid_triggers=True,
                   before_state_change=[self.rec(lambda: ('bsc',))],
                   after_state_change=[self.rec(lambda: ('asc', self.snap()))],
                   on_final=[self.rec((lambda c: (lambda: ('final', -1, c, self.snap())))(c), cb=c,
                                      end=(lambda c: (lambda: ('final_end', -1, c)))(c)) for c in d.mcbs])

    def set_flags(self, finals):
        """another placement of the final flags on the same machine (`State.final` is a plain attribute)"""
        for i, f in enumerate(finals):
            self.machine.get_state(self.d.full_name(i)).final = bool(f)

    # -- history -----------------------------------------------------------------------------
    def call(self, cmd):
        if cmd[0] == 'to':
            return getattr(self.model, 'to_' + self.d.full_name(cmd[1]))()
        return self.model.trigger(self.d.ename(cmd[1]))

    def step(self, cmd):
        self.cur = []
        entry = {'cmd': list(cmd), 'items': self.cur, 'out': None, 'before': self.snap()}
        try:
            r = self.call(cmd)
            entry['out'] = ('ret', bool(r))
        except BaseException as e:
            if isinstance(e, (common.MachineryError, KeyboardInterrupt)):
                raise
            entry['out'] = ('raised', type(e).__name__, str(e)[:120])
        entry['after'] = self.snap()
        self.cur = None
        self.log.append(entry)

    async def astep(self, cmd):
        self.cur = []
        entry = {'cmd': list(cmd), 'items': self.cur, 'out': None, 'before': self.snap()}
        try:
            r = await self.call(cmd)
            entry['out'] = ('ret', bool(r))
        except BaseException as e:
            if isinstance(e, (common.MachineryError, KeyboardInterrupt, asyncio.CancelledError)):
                raise
            entry['out'] = ('raised', type(e).__name__, str(e)[:120])
        entry['after'] = self.snap()
        self.cur = None
        self.log.append(entry)

    def run(self, history=None, timeout=120.0):
        history = self.d.history if history is None else history
        if not self.is_async:
            for cmd in history:
                self.step(tuple(cmd))
            return self

        async def main():
            for cmd in history:
                await asyncio.wait_for(self.astep(tuple(cmd)), timeout)
        try:
            asyncio.run(main())
        except asyncio.TimeoutError:
            self.log.append({'cmd': ['hang'], 'items': [], 'out': ('hang',), 'before': (), 'after': ()})
        return self


# ---------------------------------------------------------------------------------------------
# observation: one segment per executed transition
# ---------------------------------------------------------------------------------------------

class Segment(object):
    def __init__(self):
        self.items = []
        self.closed = False
        self.snap_asc = None

    def enters(self):
        return [it[1] for it in self.items if it[0] == 'enter']

    def finals(self):
        return [(it[1], it[2]) for it in self.items if it[0] == 'final']

    def config(self):
        """the configuration the transition established: as seen by the first recorder after
        `_update_model` (enter / final / after / asc); None when no recorder ran after it"""
        for it in self.items:
            if it[0] in ('enter', 'after'):
                return it[2]
            if it[0] == 'final':
                return it[3]
        return self.snap_asc

    def snaps(self):
        out = [it[2] for it in self.items if it[0] in ('enter', 'after')] + [it[3] for it in self.items if it[0] == 'final']
        if self.snap_asc is not None:
            out.append(self.snap_asc)
        return out


def segments(items):
    """(segments, stray items outside any transition bracket)"""
    segs, stray, cur = [], [], None
    for it in items:
        if it[0] == 'bsc':
            cur = Segment()
            segs.append(cur)
        elif it[0] == 'asc':
            if cur is None:
                stray.append(it)
            else:
                cur.closed = True
                cur.snap_asc = it[1]
                cur = None
        elif cur is None:
            stray.append(it)
        else:
            cur.items.append(it)
    return segs, stray


def thaw(fr):
    return [(i, thaw(k)) for i, k in fr]


# ---------------------------------------------------------------------------------------------
# the property, stated directly (DESIGN 4/C18)
# ---------------------------------------------------------------------------------------------

def fin(final, t):
    i, kids = t
    return all(fin(final, k) for k in kids) if kids else bool(final[i])


def fires(final, E, t):
    i, kids = t
    if final[i] and i in E:
        return True
    return bool(kids) and all(fin(final, k) for k in kids) and any(fires(final, E, k) for k in kids)


def machine_fires(final, E, roots):
    return bool(roots) and all(fin(final, t) for t in roots) and any(fires(final, E, t) for t in roots)


def firing(final, E, roots):
    """owners that fire, children first, machine (-1) last"""
    out = []

    def walk(t):
        for k in t[1]:
            walk(k)
        if fires(final, E, t):
            out.append(t[0])
    for t in roots:
        walk(t)
    if machine_fires(final, E, roots):
        out.append(-1)
    return out


def ancestors_in(roots):
    """node id -> set of its strict ancestors within the configuration (the machine, -1, above all)"""
    anc = {}

    def walk(t, above):
        anc[t[0]] = set(above)
        for k in t[1]:
            walk(k, above + [t[0]])
    for t in roots:
        walk(t, [-1])
    anc[-1] = set()
    return anc


def judge_segment(d, final, sg):
    """The property on one executed transition of the implementation.  Returns (problems, info):
    problems = list of strings (empty: the property holds on this segment)."""
    problems = []
    snaps = sg.snaps()
    cfg = sg.config()
    if cfg is None:
        return (['on_final call without any configuration evidence'] if sg.finals() else []), None
    if any(s != cfg for s in snaps):
        problems.append('configuration changes inside the transition bracket')
    roots = thaw(cfg)
    E = sg.enters()
    Eset = set(E)
    want = firing(final, Eset, roots)
    cbs_of = lambda o: (d.mcbs if o == -1 else d.nodes[o]['cbs'])       # noqa: E731
    got = sg.finals()
    # multiplicity: exactly the callbacks of the owners that fire, once each (owners are named by their state
    # OBJECT here: the on_final recorder of an object that sits at several paths cannot tell them apart)
    ob = lambda o: o if o < 0 else d.obj(o)       # noqa: E731
    want_calls = sorted((ob(o), c) for o in want for c in cbs_of(o))
    got_calls = sorted(got)
    if want_calls != got_calls:
        missing = [x for x in want_calls if x not in got_calls]
        extra = [x for x in got_calls if x not in want_calls or got_calls.count(x) > 1]
        if missing:
            problems.append('on_final not run for %s' % sorted(set(o for o, _ in missing)))
        if extra:
            problems.append('on_final run without cause (or twice) for %s' % sorted(set(o for o, _ in extra)))
    # order: children's callbacks before their parents', the machine's last
    anc = ancestors_in(roots)
    node_of = lambda o: o        # noqa: E731
    if d.shared():
        # an observed owner is an object; it stands for the unique active node of that object that fires, if unique
        by_obj = {}
        for o in want:
            by_obj.setdefault(ob(o), []).append(o)
        node_of = lambda o: by_obj[o][0] if len(by_obj.get(o, [])) == 1 else None      # noqa: E731
    got_n = [node_of(o) for o, _c in got]
    got_n = [o for o in got_n if o is not None]
    for a in range(len(got_n)):
        for b in range(a + 1, len(got_n)):
            oa, o2 = got_n[a], got_n[b]
            if oa != o2 and oa in anc.get(o2, ()):
                problems.append('on_final of %s runs before on_final of its descendant %s' % (oa, o2))
                break
        else:
            continue
        break
    # … and a descendant's callbacks have COMPLETED before an ancestor's start (coroutine callbacks)
    items = sg.items
    for a, ia in enumerate(items):
        if ia[0] != 'final':
            continue
        for ib in items[a + 1:]:
            if ib[0] == 'final_end' and ib[1] != ia[1] and node_of(ia[1]) is not None and \
                    node_of(ia[1]) in anc.get(node_of(ib[1]), ()):
                problems.append('on_final of %s starts before on_final of its descendant %s has completed' % (ia[1], ib[1]))
                break
        else:
            continue
        break
    # position: after the on_enter callbacks, before the transition's after callbacks
    kinds = ['enter' if it[0] == 'enter_end' else ('final' if it[0] == 'final_end' else it[0]) for it in sg.items]
    if 'final' in kinds:
        first_final = kinds.index('final')
        last_final = len(kinds) - 1 - kinds[::-1].index('final')
        if 'enter' in kinds[first_final:]:
            problems.append('an on_enter callback runs after an on_final callback')
        if 'exit' in kinds[first_final:]:
            problems.append('an on_exit callback runs after an on_final callback')
        if 'after' in kinds[:last_final] or 'before' in kinds[first_final:]:
            problems.append('on_final not between on_enter and the after callbacks')
    return problems, {'roots': roots, 'E': E, 'want': want, 'got': got}
