"""Table translator (DESIGN.md 3.3): imports the LIVE classes of the library under test and writes
`lean/Generated/Tables.lean` — deterministically (sorted, no ids / addresses), and only when the content
changed, so that `lake build` stays a no-op on an unchanged tree.

    /venv/bin/python -m harness.extract_tables          (from the verif checkout; honours VERIF_REPO)

What is extracted (vocabulary: lean/Generated/Schema.lean):
  * `factory`    for each of the 16 feature tuples what `MachineFactory.get_predefined(graph, nested, locked,
                 asyncio)` returns: the class name, or ValueError, or any other exception by type name;
  * `classes`    one row per class the factory returned plus every machine class exported by
                 `transitions.extensions` (and `transitions.Machine`): feature flags computed with `issubclass`
                 against GraphMachine / HierarchicalMachine / LockedMachine / AsyncMachine (+ MarkupMachine), the
                 resolved `state_cls` / `event_cls` / `transition_cls` with their own family flags, the MRO names and
                 the constructor signature (parameter, repr(default));
  * `overrides`  one row per function that replaces a method of Machine / State / Event / Transition in a predefined class
                 or its resolved state / event / transition class: base parameters and its own (`inspect.signature`);
  * side tables used by other properties' models: `dynamic_methods` of State / NestedState / Transition,
    `MarkupMachine.state_attributes` / `transition_attributes`, the keys of `GraphMachine.style_attributes`.

`live_table()` returns the same data as Python objects (the C09 check evaluates its table predicates on it when the
Lean `decide` obligations no longer build).
"""
import inspect
import itertools
import os

from . import common

TABLES = os.path.join(common.LEAN, 'Generated', 'Tables.lean')
FEATURES = ('graph', 'nested', 'locked', 'asyncio')


def _kind(cls, nested_base, async_bases, extra_base):
    return {'name': cls.__name__, 'nested': issubclass(cls, nested_base), 'async': issubclass(cls, async_bases),
            'extra': bool(extra_base) and issubclass(cls, extra_base)}


def _ctor(cls):
    out = []
    for n, p in list(inspect.signature(cls.__init__).parameters.items())[1:]:
        if p.kind is inspect.Parameter.VAR_POSITIONAL:
            out.append(('*' + n, ''))
        elif p.kind is inspect.Parameter.VAR_KEYWORD:
            out.append(('**' + n, ''))
        else:
            out.append((n, '' if p.default is inspect.Parameter.empty else repr(p.default)))
    return out


def class_row(cls):
    from transitions.extensions.diagrams import GraphMachine, TransitionGraphSupport
    from transitions.extensions.nesting import HierarchicalMachine, NestedState, NestedEvent, NestedTransition
    from transitions.extensions.locking import LockedMachine, LockedEvent
    from transitions.extensions.markup import MarkupMachine
    from transitions.extensions.asyncio import (AsyncMachine, AsyncState, AsyncEvent, NestedAsyncEvent,
                                                AsyncTransition)
    return {
        'name': cls.__name__,
        'feat': (issubclass(cls, GraphMachine), issubclass(cls, HierarchicalMachine), issubclass(cls, LockedMachine),
                 issubclass(cls, AsyncMachine)),
        'markup': issubclass(cls, MarkupMachine),
        'state': _kind(cls.state_cls, NestedState, (AsyncState,), None),
        'event': _kind(cls.event_cls, NestedEvent, (AsyncEvent, NestedAsyncEvent), LockedEvent),
        'trans': _kind(cls.transition_cls, NestedTransition, (AsyncTransition,), TransitionGraphSupport),
        'mro': [c.__name__ for c in cls.__mro__],
        'ctor': _ctor(cls),
    }


def _params(fn):
    """[(name, repr(default) or '', kind)] without `self`; kind 0 named, 1 *args, 2 **kwargs"""
    out = []
    for n, prm in list(inspect.signature(fn).parameters.items())[1:]:
        kind = 1 if prm.kind is inspect.Parameter.VAR_POSITIONAL else 2 if prm.kind is inspect.Parameter.VAR_KEYWORD else 0
        out.append((n, '' if prm.default is inspect.Parameter.empty else repr(prm.default), kind))
    return out


def _plain_function(cls, name):
    f = inspect.getattr_static(cls, name, None)
    return f if inspect.isfunction(f) else None


def override_rows(objects):
    """one row per function that REPLACES a method of a base class (Machine / State / Event / Transition) in a
    predefined machine class or in its resolved state_cls / event_cls / transition_cls: owner (the class of the MRO
    whose body holds the function), method, base, the classes that have it in their MRO, the base method's
    parameters and the override's.  Callers inside the library use the base method's parameter ORDER
    (`add_transitions` → `add_transition(*entry)`, `_create_transition(*args)`, …), so an override whose
    parameters drift from the base changes what a base configuration means."""
    from transitions.core import Machine, State, Event, Transition
    rows = {}
    users = []
    for name, cls in sorted(objects.items()):
        users.append((Machine, cls))
        users.append((State, cls.state_cls))
        users.append((Event, cls.event_cls))
        users.append((Transition, cls.transition_cls))
    for base, cls in users:
        if cls is base or not issubclass(cls, base):
            continue
        for meth in sorted(n for n in dir(base) if (n == '__init__' or not n.startswith('__')) and _plain_function(base, n)):
            if meth == '__init__' and base is Machine:
                continue        # the constructors are in the class table (`ctor`)
            bf = _plain_function(base, meth)
            # every class of the MRO that holds its own version (the outermost one is what callers reach; the
            # inner ones are reached through super() calls)
            for owner in cls.__mro__:
                f = owner.__dict__.get(meth)
                if owner is base or not inspect.isfunction(f) or not issubclass(owner, base):
                    continue
                key = (owner.__name__, meth, base.__name__)
                row = rows.setdefault(key, {'owner': owner.__name__, 'method': meth, 'base': base.__name__,
                                            'used_by': set(), 'base_params': _params(bf), 'params': _params(f)})
                row['used_by'].add(cls.__name__)
    for r in rows.values():
        r['used_by'] = sorted(r['used_by'])
    return [rows[k] for k in sorted(rows)]


def live_table():
    """{'factory': [(tuple, ('cls', name) | ('valueError',) | ('otherError', type name))], 'classes': {name: row},
    'objects': {name: class}, 'side': {...}}"""
    import transitions
    import transitions.extensions as ext
    from transitions.extensions import MachineFactory
    from transitions.core import Machine, State, Transition
    from transitions.extensions.nesting import NestedState
    from transitions.extensions.markup import MarkupMachine
    from transitions.extensions.diagrams import GraphMachine
    factory = []
    objects = {}
    for tup in itertools.product((False, True), repeat=4):
        try:
            cls = MachineFactory.get_predefined(graph=tup[0], nested=tup[1], locked=tup[2], asyncio=tup[3])
            factory.append((tup, ('cls', cls.__name__)))
            objects[cls.__name__] = cls
        except ValueError:
            factory.append((tup, ('valueError',)))
        except Exception as e:      # noqa
            factory.append((tup, ('otherError', type(e).__name__)))
    objects.setdefault('Machine', transitions.Machine)
    for n in dir(ext):
        o = getattr(ext, n)
        if inspect.isclass(o) and issubclass(o, Machine):
            objects.setdefault(o.__name__, o)
    side = {
        'stateDynamicMethods': list(State.dynamic_methods),
        'nestedStateDynamicMethods': list(NestedState.dynamic_methods),
        'transitionDynamicMethods': list(Transition.dynamic_methods),
        'markupStateAttributes': list(MarkupMachine.state_attributes),
        'markupTransitionAttributes': list(MarkupMachine.transition_attributes),
        'styleAttributeKeys': sorted('%s.%s' % (k, kk) for k, v in GraphMachine.style_attributes.items() for kk in v),
    }
    return {'factory': factory, 'classes': {n: class_row(c) for n, c in objects.items()}, 'objects': objects,
            'side': side, 'overrides': override_rows(objects)}


# ---------------------------------------------------------------------------------------------
# Lean text
# ---------------------------------------------------------------------------------------------

def _b(x):
    return 'true' if x else 'false'


def _s(x):
    return '"%s"' % x.replace('\\', '\\\\').replace('"', '\\"')


def _strs(xs):
    return '[' + ', '.join(_s(x) for x in xs) + ']'


def _kind_lean(k):
    return '⟨%s, %s, %s, %s⟩' % (_s(k['name']), _b(k['nested']), _b(k['async']), _b(k['extra']))


def render(tab):
    o = ['/-',
         '  Generated/Tables.lean — GENERATED by harness/extract_tables.py from the live classes. DO NOT EDIT.',
         '  Regenerated before every `lake build` that the harness starts; the file only changes when the classes do.',
         '-/',
         'import Generated.Schema',
         '',
         'namespace TM',
         'namespace Gen',
         '',
         '/-- `MachineFactory.get_predefined(graph, nested, locked, asyncio)` for all 16 tuples -/',
         'def factory : List (Feat × Answer) := [']
    rows = []
    for tup, ans in sorted(tab['factory']):
        a = {'cls': lambda: '.cls ' + _s(ans[1]), 'valueError': lambda: '.valueError',
             'otherError': lambda: '.otherError ' + _s(ans[1])}[ans[0]]()
        rows.append('  (⟨%s⟩, %s)' % (', '.join(_b(x) for x in tup), a))
    o.append(',\n'.join(rows) + ']')
    o += ['', '/-- every machine class the factory returns or `transitions.extensions` exports -/',
          'def classes : List ClassRow := [']
    rows = []
    for name in sorted(tab['classes']):
        r = tab['classes'][name]
        rows.append('  { name := %s, feat := ⟨%s⟩, markup := %s,\n    stateCls := %s, eventCls := %s, transCls := %s,\n'
                    '    mro := %s,\n    ctor := [%s] }' % (
                        _s(r['name']), ', '.join(_b(x) for x in r['feat']), _b(r['markup']),
                        _kind_lean(r['state']), _kind_lean(r['event']), _kind_lean(r['trans']), _strs(r['mro']),
                        ', '.join('(%s, %s)' % (_s(a), _s(b)) for a, b in r['ctor'])))
    o.append(',\n'.join(rows) + ']')
    o += ['', '/-- every function that replaces a method of Machine / State / Event / Transition in a predefined class or in',
          '    its resolved state / event / transition class, with the base method\'s parameters and its own -/',
          'def overrides : List Override := [']
    rows = []
    for r in tab['overrides']:
        rows.append('  { owner := %s, method := %s, base := %s, usedBy := %s,\n    baseParams := [%s],\n    params := [%s] }' % (
            _s(r['owner']), _s(r['method']), _s(r['base']), _strs(r['used_by']),
            ', '.join('⟨%s, %s, %d⟩' % (_s(a), _s(b), k) for a, b, k in r['base_params']),
            ', '.join('⟨%s, %s, %d⟩' % (_s(a), _s(b), k) for a, b, k in r['params'])))
    o.append(',\n'.join(rows) + ']')
    for key in sorted(tab['side']):
        o += ['', 'def %s : List String := %s' % (key, _strs(tab['side'][key]))]
    o += ['', 'end Gen', 'end TM', '']
    return '\n'.join(o)


def regenerate():
    """write the file if (and only if) its content changed; returns 'unchanged' | 'written'"""
    text = render(live_table())
    try:
        with open(TABLES) as fh:
            if fh.read() == text:
                return 'unchanged'
    except IOError:
        pass
    os.makedirs(os.path.dirname(TABLES), exist_ok=True)
    tmp = '%s.%d.tmp' % (TABLES, os.getpid())
    with open(tmp, 'w') as fh:
        fh.write(text)
    os.replace(tmp, TABLES)
    return 'written'


if __name__ == '__main__':
    print('%s: %s' % (os.path.relpath(TABLES, common.VERIF), regenerate()))
