"""C13, hierarchical machines (differential only): one abstract state tree + transitions -> several
construction scripts on the real `HierarchicalMachine`:

  * nested dict definitions with the key 'children' or 'states', NestedState objects composed with
    add_substates, plain names for bare leaves;
  * a suffix of a node's children left out of the definition and created afterwards through
    separator-joined names (`add_states('n1_n4', on_enter=…)`), parents without callbacks created on the fly;
  * a compound with local transitions given as a dict with 'transitions' (and its exits as global
    transitions) or as another HierarchicalMachine instance embedded as children with `remap`;
  * transitions through the constructor, add_transition or add_transitions (list / dict form);
  * (stream nested-remove) add-then-remove detours.

All scripts of one description must give the same state tree, the same per-scope event tables and the same
recorder traces."""
import copy
import enum
import random
import types

from . import common, flat, build13
from .common import SLOT
from .build13 import ev_name, cb_ident

SEP = '_'


class HKnobs(object):
    def __init__(self, **kw):
        self.max_top = 4
        self.max_children = 3
        self.max_depth = 3
        self.max_transitions = 6
        self.max_history = 10
        self.p_embed = 0.5
        self.p_raise = 0.02
        self.p_cond_false = 0.35
        self.detours = False
        self.enum = False          # local names repeated across levels + Enum-class realisations of the tree
        self.nvariants = 3
        self.__dict__.update(kw)


def gen_hcase(rng, kn):
    cb_slot = {}
    cond_cbs = set()
    counter = [0]

    def cbs(slot, p_empty=0.6):
        if rng.random() < p_empty:
            return []
        out = []
        for _ in range(rng.randint(1, 2)):
            c = len(cb_slot)
            cb_slot[c] = SLOT[slot]
            out.append(c)
            if slot in ('conditions', 'unless'):
                cond_cbs.add(c)
        return out

    def node(depth):
        k = counter[0]
        counter[0] += 1
        n = {'id': k, 'on_enter': cbs('on_enter'), 'on_exit': cbs('on_exit'), 'children': [], 'initial': None,
             'embed': None}
        if depth < kn.max_depth and rng.random() < (0.55 if depth == 1 else 0.3):
            n['children'] = [node(depth + 1) for _ in range(rng.randint(1, kn.max_children))]
            if rng.random() < 0.7:
                n['initial'] = rng.choice(n['children'])['id']
        return n

    top = [node(1) for _ in range(rng.randint(2, kn.max_top))]
    paths = {}

    def walk(n, prefix):
        p = prefix + [n['id']]
        paths[n['id']] = p
        for c in n['children']:
            walk(c, p)
    for n in top:
        walk(n, [])
    ids = sorted(paths)
    nev = rng.randint(1, 3)

    def tcb():
        return {'conditions': cbs('conditions', 0.65), 'unless': cbs('unless', 0.85), 'before': cbs('before', 0.8),
                'after': cbs('after', 0.85), 'prepare': cbs('prepare', 0.9)}
    # compounds whose children are all leaves may carry local transitions and exits (embedding candidates)
    for n in top:
        if not kn.enum and n['children'] and rng.random() < kn.p_embed:
            kids = [c['id'] for c in n['children']]
            # local transitions between the children; source -1 = the wildcard '*' of that scope
            local = [[2 * rng.randrange(nev), (-1 if rng.random() < 0.25 else rng.choice(kids)), rng.choice(kids), tcb()]
                     for _ in range(rng.randint(1, 4))]
            others = [t['id'] for t in top if t is not n]
            exits = [[2 * rng.randrange(nev), rng.choice(kids), rng.choice(others), tcb()]
                     for _ in range(rng.randint(0, 2))]
            if n['initial'] is None:
                n['initial'] = kids[0]
            n['embed'] = {'local': local, 'exits': exits}
    transitions = [[2 * rng.randrange(nev), rng.choice(ids), rng.choice(ids), tcb()]
                   for _ in range(rng.randint(2, kn.max_transitions))]
    opts = {'prepare_event': cbs('prepare_event', 0.6), 'finalize': cbs('finalize_event', 0.7),
            'before_sc': cbs('before_state_change', 0.8), 'after_sc': cbs('after_state_change', 0.8),
            'mign': rng.choice([None, None, True]), 'send_event': rng.random() < 0.3}
    script = []
    for c in sorted(cb_slot):
        for k in range(4):
            out = ['ret', True]
            if c in cond_cbs and rng.random() < kn.p_cond_false:
                out = ['ret', None if rng.random() < 0.3 else False]
            if rng.random() < kn.p_raise:
                out = ['raise', 3, rng.randrange(3)]
            if out != ['ret', True]:
                script.append([[c, k], [[], out]])
    history = [[0, 0, 2 * rng.randrange(nev + (1 if rng.random() < 0.1 else 0))] for _ in range(rng.randint(2, kn.max_history))]
    labels = []
    if kn.enum:
        # local names from a small pool: unique among siblings, deliberately repeated across levels / branches
        def label(nodes):
            pool = ['a0', 'a1', 'a2', 'a3', 'a4']
            rng.shuffle(pool)
            for n_, l in zip(nodes, pool):
                labels.append([n_['id'], l])
                label(n_['children'])
        label(top)
    # the machine-level shorthand "every state -> the same state" (`add_transition(ev, '*', '=')`): on a hierarchical
    # machine it stands for a reflexive transition on every NESTED state name existing at that time; one script writes the
    # shorthand (with the class's wildcard tokens, which a subclass may rename), another spells it out.  Derived from the
    # description, no random choice consumed.
    star_same = None
    if (len(transitions) + len(history)) % 3 == 0:
        star_same = {'ev': 2 * nev + 4}
        history.insert(1, [0, 0, star_same['ev']])
        history.append([0, 0, star_same['ev']])
    return {'labels': labels, 'enum': bool(kn.enum), 'star_same': star_same,
            'top': top, 'transitions': transitions, 'initial': rng.choice(top)['id'], 'opts': opts, 'nev': nev,
            'cb_slot': sorted(cb_slot.items()), 'script': script, 'history': history,
            'vseeds': [rng.randrange(1 << 30) for _ in range(kn.nvariants)], 'detours': kn.detours}


LABELS = {}     # node id -> local state name of the case being realised in this process (default n<id>)


def nname(k):
    return LABELS.get(k, 'n%d' % k)


def paths_of(case):
    paths = {}

    def walk(n, prefix):
        p = prefix + [n['id']]
        paths[n['id']] = p
        for c in n['children']:
            walk(c, p)
    for n in case['top']:
        walk(n, [])
    return paths


def full(paths, k):
    return SEP.join(nname(i) for i in paths[k])


# ---------------------------------------------------------------------------------------------
# variants: a plan per node + how transitions are supplied
# ---------------------------------------------------------------------------------------------

def derive_h(case, vseed, identity=False):
    rng = random.Random(vseed)
    coin = (lambda p: False) if identity else (lambda p: rng.random() < p)
    plan = {}

    def subtree_plain(n):
        return not n['embed'] and all(subtree_plain(c) for c in n['children'])

    def visit(n, forced_obj=False):
        p = {'key': 'children' if not coin(0.5) else 'states', 'rep': 'dict', 'defer_from': None, 'embed': 'dict'}
        if forced_obj:
            p['rep'] = 'obj'
        elif n['embed']:
            p['embed'] = 'machine' if coin(0.6) else 'dict'
            nloc = len(n['embed']['local'])
            # '*' kept or spelled out; embedded form: which local transitions the child machine brings along and
            # which the dict adds on top ('transitions' key); whether the child machine has auto transitions
            p['lw'] = ['list' if coin(0.5) else 'star' for _ in range(nloc)]
            p['split'] = rng.randint(0, nloc) if (p['embed'] == 'machine' and coin(0.5)) else nloc
            p['child_auto'] = p['embed'] == 'machine' and coin(0.4)
        elif not n['children'] and not n['on_enter'] and not n['on_exit'] and coin(0.6):
            p['rep'] = 'str'
        elif subtree_plain(n) and coin(0.25):
            p['rep'] = 'obj'
        elif n['children'] and coin(0.4):
            p['defer_from'] = rng.randrange(len(n['children']))
        plan[n['id']] = p
        for c in n['children']:
            visit(c, forced_obj or p['rep'] == 'obj')
    for n in case['top']:
        visit(n)
    tplan = []
    for _t in case['transitions']:
        tplan.append({'via': 'add' if identity else rng.choice(['ctor', 'add', 'batch']),
                      'form': 'list' if identity else rng.choice(['list', 'dict', 'call'])})
    if not identity:
        # the constructor takes a prefix only (order of definition is preserved)
        seen_other = False
        for tp in tplan:
            if tp['via'] != 'ctor':
                seen_other = True
            elif seen_other:
                tp['via'] = 'add'
    detours = []
    if case.get('detours') and not identity:
        paths = paths_of(case)
        ids = sorted(paths)
        taken = set((ev, s, t) for ev, s, t, _cb in case['transitions'])
        for n in case['top']:
            if n['embed']:
                taken |= set((ev, s, t) for ev, s, t, _cb in n['embed']['local'] + n['embed']['exits'])
                # a local wildcard stands for every child (a global removal reaches local transitions too)
                taken |= set((ev, c['id'], t) for ev, s, t, _cb in n['embed']['local'] if s == -1
                             for c in n['children'])
        for _ in range(rng.randint(1, 2)):
            dt = {'ev': 2 * rng.randrange(case['nev'] + 1), 'src': rng.choice(ids), 'dst': rng.choice(ids),
                  'at': rng.randint(0, len(case['transitions']))}
            dt['wild'] = dt['ev'] == 2 * case['nev'] and rng.random() < 0.5
            # one detour per (trigger, source): a removal by source alone takes every transition of that source,
            # and removing from a trigger that is already gone raises (as on flat machines)
            if (dt['ev'], dt['src'], dt['dst']) not in taken and not any(
                    (d['ev'], d['src']) == (dt['ev'], dt['src']) for d in detours):
                taken.add((dt['ev'], dt['src'], dt['dst']))
                detours.append(dt)
    deferring = any(p['defer_from'] is not None for p in plan.values())
    cbrep = {}
    for c, sl in case['cb_slot']:
        if identity:
            cbrep[c] = 'name'
        elif sl in (SLOT['conditions'], SLOT['unless']):
            cbrep[c] = rng.choice(['name', 'name', 'ref', 'dotted', 'prop'])
        else:
            cbrep[c] = rng.choice(['name', 'name', 'ref', 'dotted'])
    out = {'plan': sorted(plan.items()), 'tplan': tplan, 'detours': detours, 'seed': vseed,
           'model_in_ctor': coin(0.5) and not deferring, 'cbrep': sorted(cbrep.items())}
    if case.get('enum'):
        # the whole tree as (nested) Enum classes; transition end points as Enum members or joined names
        out['enum_tree'] = coin(0.75)
        out['tnames'] = [[rng.choice(['enum', 'str']) if out['enum_tree'] else 'str' for _ in range(2)]
                         for _t in case['transitions']]
        out['initial_rep'] = rng.choice(['enum', 'str']) if out['enum_tree'] else 'str'
        if out['enum_tree']:
            out['model_in_ctor'] = coin(0.5)
    # how the "every state -> same state" family is written: spelled out, with the shorthand, or with the shorthand on a
    # subclass that renames the wildcard tokens (drawn last: the other choices of a variant seed stay what they were)
    out['ss'] = 'explicit' if identity else rng.choice(['short', 'explicit', 'custom'])
    return out


# ---------------------------------------------------------------------------------------------
# realisation
# ---------------------------------------------------------------------------------------------

class RunH(build13.Run13):
    def __init__(self, case, variant):
        self.case, self.v = case, variant
        self.d = types.SimpleNamespace(
            send_event=case['opts']['send_event'], models=[0], cb_slot=dict(case['cb_slot']),
            script={tuple(k): ([tuple(c) for c in v[0]], tuple(v[1])) for k, v in case['script']},
            history=[tuple(c) for c in case['history']])
        self.items, self.counts, self.next_tag, self.bad, self.tag_event = [], {}, 0, [], {}
        self.model_objs = {0: build13.Model13(0, self)}
        self.cbrep = dict(variant.get('cbrep', []))
        self.machine = None
        self.error = None
        self.paths = paths_of(case)
        self.plan = dict(variant['plan'])
        self.member = {}
        self.activate()
        self.name_id = {full(self.paths, k): k for k in self.paths}
        try:
            self.construct()
        except common.MachineryError:
            raise
        except Exception as e:
            self.error = [type(e).__name__, str(e)[:200]]

    def activate(self):
        build13.Run13.activate(self)
        LABELS.clear()
        LABELS.update({k: l for k, l in self.case.get('labels', [])})

    def state_id(self, model):
        v = getattr(model, 'state', None)
        if isinstance(v, enum.Enum) and v in self.enum_id:
            return self.enum_id[v]
        if isinstance(v, str) and v in self.name_id:
            return self.name_id[v]
        self.bad.append(('odd-state', repr(v)))
        return 999999

    def build_enums(self):
        """the state tree as nested Enum classes: a compound's value is its children's Enum class or a dict
        (callbacks, initial, 'children' | 'states': Enum class); a leaf's value is a dict (callbacks) or a number"""
        self.enum_id = {}

        def mk(nodes, cname):
            vals = {}
            for n in nodes:
                kids = mk(n['children'], 'E%d' % n['id']) if n['children'] else None
                d = {}
                if n['on_enter']:
                    d['on_enter'] = self.names(n['on_enter'])
                if n['on_exit']:
                    d['on_exit'] = self.names(n['on_exit'])
                if n['initial'] is not None:
                    d['initial'] = nname(n['initial'])
                if kids is not None:
                    if d or self.plan[n['id']]['key'] == 'states':
                        d[self.plan[n['id']]['key']] = kids
                        val = d
                    else:
                        val = kids
                else:
                    val = d if d else 100 + n['id']
                vals[nname(n['id'])] = val
            cls = enum.Enum(cname, vals)
            for n in nodes:
                mem = cls[nname(n['id'])]
                if mem.name != nname(n['id']):
                    raise common.MachineryError('Enum alias in generated tree')
                self.member[n['id']] = mem
                self.enum_id[mem] = n['id']
            return cls
        return mk(self.case['top'], 'Top')

    def ep(self, k, rep):
        """a transition end point: Enum member or separator-joined name"""
        return self.member[k] if rep == 'enum' else full(self.paths, k)

    def names(self, cs):
        return [self.cb(c) for c in cs]

    def tkw(self, cb):
        return {k: self.names(v) for k, v in cb.items() if v}

    def tdef(self, trigger, source, dest, cb, form):
        if form == 'list':
            l = [trigger, source, dest] + [(self.names(cb[k]) or None) for k in build13.SLOT_KEYS]
            while len(l) > 3 and l[-1] is None:
                l.pop()
            return l
        d = {'trigger': trigger, 'source': source, 'dest': dest}
        d.update(self.tkw(cb))
        return d

    def node_def(self, n, deferred):
        """definition of node n for a states list; nodes left out are appended to `deferred` (preorder)"""
        from transitions.extensions.nesting import NestedState, HierarchicalMachine
        p = self.plan[n['id']]
        name = nname(n['id'])
        if p['rep'] == 'str':
            return name
        kw = {}
        if n['on_enter']:
            kw['on_enter'] = self.names(n['on_enter'])
        if n['on_exit']:
            kw['on_exit'] = self.names(n['on_exit'])
        if n['initial'] is not None:
            kw['initial'] = nname(n['initial'])
        if p['rep'] == 'obj':
            st = NestedState(name, **kw)
            if n['children']:
                st.add_substates([self.node_def(c, deferred) for c in n['children']])
            return st
        d = dict(name=name, **kw)
        if n['embed'] and p['embed'] == 'machine':
            sts = [self.node_def(c, deferred) for c in n['children']]
            locs = self.local_defs(n, p)
            split = p.get('split', len(locs))
            ts = locs[:split]
            # exits: one extra child state per exit target, remapped to the target in the parent
            remap = {}
            for i, (ev, s, target, cb) in enumerate(n['embed']['exits']):
                x = 'x%dt%d' % (n['id'], target)      # must not contain the separator
                if x not in remap:
                    remap[x] = nname(target)
                    sts.append(x)
                ts.append(self.tdef(ev_name(ev), nname(s), x, cb, 'dict'))
            child = HierarchicalMachine(model=None, states=sts, transitions=ts, initial=kw.pop('initial'),
                                        auto_transitions=bool(p.get('child_auto')), send_event=self.d.send_event)
            d = dict(name=name, **kw)
            d[p['key']] = child
            d['remap'] = remap
            if locs[split:]:
                # on top of what the embedded machine brings along (added by the PARENT class: its wildcard token)
                d['transitions'] = self.local_defs(n, p, self.wild_all)[split:]
            return d
        kids = n['children']
        cut = len(kids) if p['defer_from'] is None else p['defer_from']
        if kids[:cut]:
            d[p['key']] = [self.node_def(c, deferred) for c in kids[:cut]]
        for c in kids[cut:]:
            deferred.append(c)
        if n['embed']:
            d['transitions'] = self.local_defs(n, p, self.wild_all)
        return d

    def local_defs(self, n, p, wild='*'):
        """the local transitions of a compound in list / dict form; the wildcard source as '*' (`wild`: the token of
        the machine class the definition is handed to) or spelled out"""
        out = []
        lw = p.get('lw') or ['star'] * len(n['embed']['local'])
        for (ev, s, t, cb), w in zip(n['embed']['local'], lw):
            if s == -1:
                src = wild if w == 'star' else [nname(c['id']) for c in n['children']]
            else:
                src = nname(s)
            out.append(self.tdef(ev_name(ev), src, nname(t), cb, 'list' if (ev + t) % 2 else 'dict'))
        return out

    def add_deferred(self, m, n):
        """create node n (whose parent exists) through its separator-joined name, then its subtree"""
        chain = n
        # a chain of bare single-child nodes is created on the fly by naming only its end
        while (len(chain['children']) == 1 and not chain['on_enter'] and not chain['on_exit'] and chain['initial'] is None
               and not chain['children'][0]['on_enter'] and not chain['children'][0]['on_exit']
               and chain['children'][0]['embed'] is None and self.plan[chain['id']]['rep'] != 'obj'):
            chain = chain['children'][0]
        kw = {}
        if chain['on_enter']:
            kw['on_enter'] = self.names(chain['on_enter'])
        if chain['on_exit']:
            kw['on_exit'] = self.names(chain['on_exit'])
        if chain['initial'] is not None:
            kw['initial'] = nname(chain['initial'])
        m.add_states(full(self.paths, chain['id']), **kw)
        for c in chain['children']:
            self.add_deferred(m, c)

    def construct(self):
        from transitions.extensions.nesting import HierarchicalMachine
        case, o = self.case, self.case['opts']
        mo = self.model_objs[0]
        deferred = []
        self.enum_id = {}
        cls = HierarchicalMachine
        if case.get('star_same') and self.v.get('ss') == 'custom':
            cls = type('RenamedWildcards', (HierarchicalMachine,), {'wildcard_all': 'ANY', 'wildcard_same': 'SAME'})
        self.wild_all = cls.wildcard_all
        enum_tree = self.v.get('enum_tree', False)
        if enum_tree:
            states = self.build_enums()
            init = self.member[case['initial']] if self.v['initial_rep'] == 'enum' else nname(case['initial'])
        else:
            states = [self.node_def(n, deferred) for n in case['top']]
            init = nname(case['initial'])
        kw = dict(model=mo if self.v['model_in_ctor'] else None, states=states, initial=init,
                  auto_transitions=False, send_event=o['send_event'], ignore_invalid_triggers=o['mign'])
        for key, arg in (('prepare_event', 'prepare_event'), ('finalize', 'finalize_event'),
                         ('before_sc', 'before_state_change'), ('after_sc', 'after_state_change')):
            if o[key]:
                kw[arg] = self.names(o[key])
        # exits of compounds given in dict form are global transitions; an embedded machine adds them itself
        # right after the compound (before any other global transition), so the explicit form does the same
        exits_first = any(n['embed'] and n['embed']['exits'] and self.plan[n['id']]['embed'] != 'machine'
                          for n in case['top'])
        tn = self.v.get('tnames') or [['str', 'str']] * len(case['transitions'])
        tdefs = [(ev_name(ev), self.ep(s, r[0]), self.ep(t, r[1]), cb)
                 for (ev, s, t, cb), r in zip(case['transitions'], tn)]
        tplan = self.v['tplan']
        ctor_ts = []
        if not exits_first:
            ctor_ts = [self.tdef(*td, form=('dict' if tp['form'] == 'dict' else 'list'))
                       for td, tp in zip(tdefs, tplan) if tp['via'] == 'ctor']
            if ctor_ts:
                kw['transitions'] = ctor_ts
        self.machine = m = cls(**kw)
        for n in case['top']:
            if n['embed'] and self.plan[n['id']]['embed'] != 'machine':
                for ev, s, target, cb in n['embed']['exits']:
                    m.add_transition(ev_name(ev), full(self.paths, s), nname(target), **self.tkw(cb))
        for n in deferred:
            self.add_deferred(m, n)
        detours = self.v['detours']
        pending = []
        batch = []

        def flush():
            if batch:
                m.add_transitions(list(batch))
                del batch[:]
        for i, (td, tp) in enumerate(zip(tdefs, tplan)):
            for dt in detours:
                if dt['at'] == i:
                    flush()
                    m.add_transition(ev_name(dt['ev']), full(self.paths, dt['src']), full(self.paths, dt['dst']),
                                     before=self.names(o['before_sc'][:1]))
                    pending.append(dt)
            if ctor_ts and tp['via'] == 'ctor':
                continue
            if tp['via'] == 'batch' or (tp['via'] == 'ctor' and tp['form'] != 'call'):
                batch.append(self.tdef(*td, form=('dict' if tp['form'] == 'dict' else 'list')))
                continue
            flush()
            if tp['form'] == 'call':
                m.add_transition(td[0], td[1], td[2], **self.tkw(td[3]))
            else:
                m.add_transitions([self.tdef(*td, form=tp['form'])])
        flush()
        for dt in detours:
            if dt not in pending:
                m.add_transition(ev_name(dt['ev']), full(self.paths, dt['src']), full(self.paths, dt['dst']))
            if dt['wild']:
                m.remove_transition(ev_name(dt['ev']), source=full(self.paths, dt['src']))
            else:
                m.remove_transition(ev_name(dt['ev']), source=full(self.paths, dt['src']), dest=full(self.paths, dt['dst']))
        ss = case.get('star_same')
        if ss:
            if self.v.get('ss', 'explicit') == 'explicit':
                for nm in m.get_nested_state_names():
                    m.add_transition(ev_name(ss['ev']), nm, nm)
            else:
                m.add_transition(ev_name(ss['ev']), m.wildcard_all, m.wildcard_same)
        if not self.v['model_in_ctor']:
            m.add_model(mo)

    # -- structural introspection -------------------------------------------------------------------
    def introspect(self):
        m = self.machine

        def ids(l):
            return [cb_ident(f) for f in l]

        def tr(t):
            return (t.source, t.dest, ids(t.prepare), [(cb_ident(c.func), bool(c.target)) for c in t.conditions],
                    ids(t.before), ids(t.after))

        def events(evs):
            return {name: {src: [tr(t) for t in l] for src, l in ev.transitions.items()} for name, ev in evs.items()}

        def node(st):
            init = st.initial
            if hasattr(init, 'name'):
                init = init.name
            return {'name': st.name, 'on_enter': ids(st.on_enter), 'on_exit': ids(st.on_exit), 'initial': init,
                    'ignore': st.ignore_invalid_triggers if st.ignore_invalid_triggers is not None
                    else bool(m.ignore_invalid_triggers),
                    'events': events(st.events), 'children': [node(c) for c in st.states.values()]}
        return {'states': [node(s) for s in m.states.values()], 'events': events(m.events), 'initial': m._initial}


def strip_local_auto(intro):
    """the same structure without local events named to_<…> (auto transitions an embedded machine brought along)"""
    def node(n):
        n = dict(n)
        n['events'] = {k: v for k, v in n['events'].items() if not k.startswith('to_')}
        n['children'] = [node(c) for c in n['children']]
        return n
    return {'states': [node(s) for s in intro['states']], 'events': intro['events'], 'initial': intro['initial']}


def embeds_auto_machine_with_nested_states(case, variant):
    plan = dict(variant['plan'])
    return any(n['embed'] and plan[n['id']].get('child_auto') and any(c['children'] for c in n['children'])
               for n in case['top'])


def drop_empty(intro):
    """the same structure without source entries / events that hold no transition"""
    def ev(e):
        out = {}
        for name, per in e.items():
            per = {s: l for s, l in per.items() if l}
            if per:
                out[name] = per
        return out

    def node(n):
        n = dict(n)
        n['events'] = ev(n['events'])
        n['children'] = [node(c) for c in n['children']]
        return n
    return {'states': [node(s) for s in intro['states']], 'events': ev(intro['events']), 'initial': intro['initial']}
