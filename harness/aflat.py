"""Async flat machines for C07: the same abstract descriptions as `flat.py`, plus per-callback kinds
(plain function / coroutine function / coroutine function that suspends once), the queue mode
(False / True / 'model') and constant scripts for deterministic conditions; a runner that realises a
description on a synchronous class or on an async class (driven one awaited trigger at a time through
`asyncio.run`), the observation map of C07 and the barrier monitor."""
import asyncio
import functools
import inspect

from . import common, flat
from .common import SLOT
from .flat import TRIGGER, MAY, canon_exc, make_exc, ename, flavour as flat_flavour

QMODES = (False, True, 'model')

# callback kinds.  0-2 are (coroutine) FUNCTIONS; 3-5 are PLAIN callables that hand back an awaitable
# which is not a coroutine: the library has to recognise them by `inspect.isawaitable`.
K_PLAIN, K_CORO, K_SUSPEND, K_TASK, K_FUTURE, K_CUSTOM = range(6)
KIND_NAMES = ['plain', 'coroutine', 'suspending', 'plain->Task', 'plain->Future', 'plain->__await__']
CARRIER_KINDS = (K_CORO, K_SUSPEND, K_TASK, K_CUSTOM)      # kinds that can await triggers themselves


class Later(object):
    """a minimal awaitable that is neither a coroutine nor a Future"""

    def __init__(self, coro):
        self.coro = coro

    def __await__(self):
        return self.coro.__await__()
COND_SLOTS = (SLOT['conditions'], SLOT['unless'])


# ---------------------------------------------------------------------------------------------
# description: FlatDesc + kinds / qmode / const
# ---------------------------------------------------------------------------------------------

def stage_lists(d):
    """every callback list that is one `gather` stage: [(kind, [cb…])]; conditions+unless of one
    transition are ONE stage"""
    out = []
    for s in d.states:
        out.append(('on_enter', s['on_enter']))
        out.append(('on_exit', s['on_exit']))
    for _ev, ts in d.events:
        for t in ts:
            out.append(('prepare', t['prepare']))
            out.append(('conds', [c for c, _tg in t['conds']]))
            out.append(('before', t['before']))
            out.append(('after', t['after']))
    for k in ('prepare_event', 'before_sc', 'after_sc', 'finalize', 'on_exception', 'on_final'):
        out.append((k, getattr(d, k)))
    return out


def decorate(d, rng, qmode=None, raise_in_stage=False, p_kind=(0.25, 0.18, 0.18, 0.13, 0.13, 0.13), per_model_multi=False,
             keep_kinds=(TRIGGER,)):
    """Turn a generated FlatDesc into a C07 case (in place).

    * kinds: every callback and condition is a plain function (0), a coroutine function (1), a coroutine
      function that suspends once (2), or a PLAIN callable handing back an awaitable that is not a
      coroutine: an already scheduled `asyncio.Task` (3), a bare `Future` resolved by a later loop
      callback (4), an object with `__await__` whose body suspends once (5).  A callback whose script
      awaits triggers cannot be kind 0 or 4.
    * Solo: a callback that awaits triggers (has scripted commands) sits alone in its stage list; unless
      `raise_in_stage`, so does every callback that raises (the gather finding is judged separately).
    * conditions sharing a stage (>= 2 conditions/unless on one transition) are deterministic:
      one constant outcome per callback, no commands, no raise.
    * queued='model' is compared with the synchronous queued=True on one model only; with
      `per_model_multi` half of the queued='model' cases keep several models (model tie only).
    """
    d.qmode = rng.randrange(3) if qmode is None else qmode
    d.queued = bool(d.qmode)
    d.const = {}
    multi = set()
    for kind, l in stage_lists(d):
        if len(l) >= 2:
            multi.update(l)
            if kind == 'conds':
                for c in l:
                    d.const[c] = ('ret', rng.random() >= 0.35)
    for (c, k) in list(d.script):
        cmds, out = d.script[(c, k)]
        if c in d.const:
            del d.script[(c, k)]
            continue
        if c in multi:
            cmds = []
            if out[0] == 'raise' and not raise_in_stage:
                out = ('ret', True)
        cmds = [x for x in cmds if x[0] in keep_kinds]
        if cmds or out != ('ret', True):
            d.script[(c, k)] = (cmds, out)
        else:
            del d.script[(c, k)]
    if d.qmode == 2 and not (per_model_multi and rng.random() < 0.5):
        d.models = d.models[:1]
        m0 = d.models[0]
        for key, (cmds, out) in list(d.script.items()):
            d.script[key] = ([(x[0], m0, x[2]) for x in cmds], out)
        d.history = [(x[0], m0, x[2]) for x in d.history]
    d.history = [x for x in d.history if x[0] in keep_kinds] or [(TRIGGER, d.models[0], 0)]
    carriers = set(c for (c, _k), (cmds, _o) in d.script.items() if cmds)
    d.kinds = {}
    for c in sorted(d.cb_slot):
        r = rng.random()
        k, acc = len(p_kind) - 1, 0.0
        for i, p in enumerate(p_kind):
            acc += p
            if r < acc:
                k = i
                break
        if c in carriers and k not in CARRIER_KINDS:
            k = rng.choice(CARRIER_KINDS)
        d.kinds[c] = k
    return d


def is_solo(d):
    """the domain on which the two-phase model of gather is exact"""
    multi = set()
    for _k, l in stage_lists(d):
        if len(l) >= 2:
            multi.update(l)
        if len(set(l)) != len(l):
            return False
    return not any(cmds and c in multi for (c, _k), (cmds, _o) in d.script.items())


def raises_in_multi(d):
    multi = set()
    for _k, l in stage_lists(d):
        if len(l) >= 2:
            multi.update(l)
    return any(out[0] == 'raise' and c in multi for (c, _k), (_cmds, out) in d.script.items())


def enc_aflat(d):
    o = [d.qmode, len(d.kinds)]
    for c, k in sorted(d.kinds.items()):
        o += [c, k]
    o += [len(d.const)]
    for c, out in sorted(d.const.items()):
        o += [c] + flat.enc_out(out)
    return o + d.enc_case()


def to_json(d):
    j = flat.FlatDesc.to_json(d)
    j['kinds'] = [[c, k] for c, k in sorted(d.kinds.items())]
    j['const'] = [[c, list(o)] for c, o in sorted(d.const.items())]
    return j


def from_json(j):
    j = dict(j)
    kinds = {c: k for c, k in j.pop('kinds')}
    const = {c: tuple(o) for c, o in j.pop('const')}
    d = flat.FlatDesc.from_json(j)
    d.kinds, d.const = kinds, const
    d.models = list(d.models)
    return d


# ---------------------------------------------------------------------------------------------
# runner
# ---------------------------------------------------------------------------------------------

class RecModel7(object):
    """callbacks synthesised on attribute access: `cb_<slot>_<id>`; plain or coroutine function per kind"""

    def __init__(self, mid, run):
        self._mid = mid
        self._run = run

    def __getattr__(self, name):
        if name.startswith('cb_'):
            _, slot, cid = name.split('_')
            run = self._run
            kind = run.d.kinds.get(int(cid), 0) if run.is_async else 0
            if kind in (K_CORO, K_SUSPEND):
                return functools.partial(run.ainvoke, self, int(slot), int(cid))
            if kind >= K_TASK:
                return functools.partial(run.pinvoke, self, int(slot), int(cid))
            return functools.partial(run.invoke, self, int(slot), int(cid))
        raise AttributeError(name)


class Run7(flat.FlatRun):
    """Realise a C07 description on `machine_cls`; `is_async` selects coroutine recorders and the
    awaiting driver.  The synchronous side runs every callback as a plain function."""

    def __init__(self, desc, machine_cls, is_async):
        self.is_async = is_async
        self.leftover = 0
        self.loop_errors = []
        self.d = desc
        self.items = []
        self.counts = {}
        self.next_tag = 0
        self.bad = []
        self.tag_event = {}
        self.cls = machine_cls
        self.model_objs = {m: RecModel7(m, self) for m in range(0, max(list(desc.models) + [3]) + 1)}
        self.machine = self.build({'queued': QMODES[desc.qmode] if is_async else bool(desc.qmode)})

    # -- recording ---------------------------------------------------------------------------
    def act(self, cid, k):
        if cid in self.d.const:
            return (), self.d.const[cid]
        return self.d.script.get((cid, k), ((), ('ret', True)))

    def begin(self, model, slot, cid, args, kwargs):
        ok = True
        tag = -1
        if self.d.send_event:
            if len(args) == 1 and not kwargs and hasattr(args[0], 'args'):
                ed = args[0]
                if len(ed.args) == 1 and isinstance(ed.args[0], int):
                    tag = ed.args[0]
                ok = (ed.model is model and ed.kwargs == {'m': model._mid} and len(ed.args) == 1
                      and ed.machine is self.machine)
            else:
                ok = False
        else:
            if len(args) == 1 and isinstance(args[0], int):
                tag = args[0]
            ok = len(args) == 1 and kwargs == {'m': model._mid}
        if not ok or tag < 0:
            self.bad.append(('bad-args', slot, cid, repr(args)[:80], repr(kwargs)[:80]))
            tag = max(tag, 0)
        k = self.counts.get(cid, 0)
        self.counts[cid] = k + 1
        self.items.append(('call', slot, cid, model._mid, tag, self.state_id(model)))
        return self.act(cid, k)

    def finish(self, cid, out):
        if out[0] == 'ret':
            self.items.append(('done', cid, 0, int(bool(out[1])), 0))
            return flat_flavour(self.d, cid, out[1], len(self.items))
        exc = make_exc(out[1], out[2])
        self.__dict__.setdefault('scripted', []).append(exc)
        self.items.append(('done', cid, 1) + canon_exc(exc))
        raise exc

    def invoke(self, model, slot, cid, *args, **kwargs):
        cmds, out = self.begin(model, slot, cid, args, kwargs)
        if cmds and self.is_async:
            raise common.MachineryError('plain callback %d carries commands' % cid)
        try:
            for c in cmds:
                self.do_cmd(c)
        except BaseException as e:
            self.items.append(('done', cid, 1) + canon_exc(e))
            raise
        return self.finish(cid, out)

    async def rest(self, cid, cmds, out, suspend):
        """what a callback does after its start was logged: await its triggers, maybe suspend once, finish"""
        try:
            for c in cmds:
                await self.ado_cmd(c)
        except BaseException as e:
            self.items.append(('done', cid, 1) + canon_exc(e))
            raise
        if suspend:
            # once by default; `d.suspend_n` lets a callback stay inside its await for several loop iterations
            for _ in range(getattr(self.d, 'suspend_n', {}).get(cid, 1)):
                await asyncio.sleep(0)
        return self.finish(cid, out)

    async def ainvoke(self, model, slot, cid, *args, **kwargs):
        cmds, out = self.begin(model, slot, cid, args, kwargs)
        return await self.rest(cid, cmds, out, self.d.kinds.get(cid, 0) == K_SUSPEND)

    def pinvoke(self, model, slot, cid, *args, **kwargs):
        """a PLAIN callable: logs its start when called and hands back an awaitable that is not a coroutine"""
        cmds, out = self.begin(model, slot, cid, args, kwargs)
        kind = self.d.kinds.get(cid, 0)
        if kind == K_TASK:          # already scheduled; its body runs when the loop gets to it
            return asyncio.ensure_future(self.rest(cid, cmds, out, False))
        if kind == K_CUSTOM:        # body starts when awaited, suspends once
            return Later(self.rest(cid, cmds, out, True))
        if cmds:
            raise common.MachineryError('future-kind callback %d carries commands' % cid)
        loop = asyncio.get_running_loop()
        fut = loop.create_future()

        def resolve():
            try:
                v = self.finish(cid, out)
            except BaseException as e:
                fut.set_exception(e)
            else:
                fut.set_result(v)
        loop.call_soon(resolve)
        return fut

    # -- API calls ---------------------------------------------------------------------------
    async def ado_cmd(self, c):
        kind, a, b = c
        if kind not in (TRIGGER, MAY):
            raise common.MachineryError('C07 histories contain triggers and may_ polls only: %r' % (c,))
        mo = self.model_objs[a]
        name = ename(b) if kind == TRIGGER else 'may_' + ename(b)
        tag = self.next_tag
        self.next_tag += 1
        self.items.append(('api', kind, tag, a, b))
        self.tag_event[tag] = ename(b)
        try:
            # `model.trigger(name)` answers unknown names synchronously (False / AttributeError);
            # a careful caller awaits only what is awaitable
            if hasattr(mo, name) and (tag % 2 == 0):
                r = getattr(mo, name)(tag, m=a)
            elif kind == TRIGGER:
                r = mo.trigger(ename(b), tag, m=a)
            else:
                r = mo.may_trigger(ename(b), tag, m=a)
            if inspect.isawaitable(r):
                r = await r
        except BaseException as e:
            if isinstance(e, common.MachineryError):
                raise
            self.items.append(('raised', tag) + canon_exc(e))
            self.__dict__.setdefault('raised_objs', {})[tag] = e
            raise
        self.items.append(('ret', tag, int(bool(r))))
        return r

    def run(self):
        if not self.is_async:
            return super(Run7, self).run()

        async def main():
            loop = asyncio.get_running_loop()
            loop.set_exception_handler(lambda _l, ctx: self.loop_errors.append(str(ctx.get('message'))))
            for c in self.d.history:
                try:
                    await self.ado_cmd(c)
                except BaseException as e:     # the awaiting caller catches whatever escapes
                    if isinstance(e, (common.MachineryError, KeyboardInterrupt)):
                        raise
            # an optional tail of triggers issued CONCURRENTLY from this (the caller's) task: what an earlier event left
            # behind in the caller's context (task registry, context variables) shows only here
            for group in getattr(self.d, 'concurrent_tail', ()):
                await asyncio.gather(*[self.ado_cmd(c) for c in group], return_exceptions=True)
            # callbacks that outlived their trigger would still be scheduled here
            self.leftover = len([t for t in asyncio.all_tasks() if t is not asyncio.current_task() and not t.done()])
        asyncio.run(main())
        return self


# ---------------------------------------------------------------------------------------------
# observation map and monitors
# ---------------------------------------------------------------------------------------------

def dead_conditions(d):
    """conditions after the first failing one of their candidate (static: conditions that share a stage
    are deterministic) — the licensed difference"""
    dead = set()
    for _ev, ts in d.events:
        for t in ts:
            failed = False
            for c, tg in t['conds']:
                if failed:
                    dead.add(c)
                elif len(t['conds']) >= 2 and c in d.const and d.const[c][0] == 'ret' and bool(d.const[c][1]) != bool(tg):
                    failed = True
    return dead


def obs(d, items, dead=None):
    """obsC07: callback starts in order (slot, cb, model, tag, state at start), api / ret / raised; drops
    `done` items and the calls of dead conditions (mirror of `TM.obsC07`)"""
    dead = dead_conditions(d) if dead is None else dead
    return [i for i in items if i[0] != 'done' and not (i[0] == 'call' and i[1] in COND_SLOTS and i[2] in dead)]


def barrier(items):
    """Every coroutine callback is awaited to completion before the next stage starts: scanning the
    trace with a stack of frames (one per awaited trigger, pushed at `api`, popped at `ret`/`raised`),
    a `call` may start only while every still-open callback of its frame belongs to the same stage
    (same slot and tag) and no callback of an enclosing frame other than the one awaiting the trigger
    is open; a trigger returns only when its frame has no open callback.
    Returns None or a description of the first violation."""
    frames = [[]]          # each: list of open (cb, slot, tag)

    def skey(slot):        # conditions and unless of one candidate are ONE gather
        return COND_SLOTS[0] if slot in COND_SLOTS else slot
    for n, it in enumerate(items):
        k = it[0]
        if k == 'api':
            frames.append([])
        elif k in ('ret', 'raised'):
            if len(frames) < 2:
                return 'ret without api at %d' % n
            if frames[-1]:
                return 'trigger t%d returns at %d while callbacks %r are unfinished' % (it[1], n, [o[0] for o in frames[-1]])
            frames.pop()
        elif k == 'call':
            for o in frames[-1]:
                if (skey(o[1]), o[2]) != (skey(it[1]), it[4]):
                    return 'stage %s/t%d starts at %d while cb%d of stage %s/t%d is unfinished' % (
                        common.SLOTS[it[1]], it[4], n, o[0], common.SLOTS[o[1]], o[2])
            frames[-1].append((it[2], it[1], it[4]))
        elif k == 'done':
            for fr in reversed(frames):
                hit = [o for o in fr if o[0] == it[1]]
                if hit:
                    fr.remove(hit[-1])
                    break
            else:
                return 'done without call at %d' % n
    if len(frames) != 1 or frames[0]:
        return 'unfinished callbacks at the end: %r' % (frames,)
    return None
