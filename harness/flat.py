"""Flat machines: abstract descriptions, generator, protocol encoder, and the runner that realises a
description on the real classes in /repo with recording callbacks."""
import functools
import random

from . import common
from .common import SLOT

# command kinds (mirror of Codec.cmd)
TRIGGER, MAY, DISPATCH, REMOVE, ADD = 0, 1, 2, 3, 4


class UserExc(Exception):
    def __init__(self, n):
        super(UserExc, self).__init__(n)
        self.n = n


# the exception a scripted callback raises is the user's whatever builtin family it ALSO belongs to: the library catches
# KeyError / ValueError / AttributeError around some of its own look-ups (queues of removed models, get_state, attribute
# resolution) and such a handler must never swallow or re-classify what a callback raised (number n -> family n % 4)
class UserKeyExc(UserExc, KeyError):
    pass


class UserValueExc(UserExc, ValueError):
    pass


class UserAttrExc(UserExc, AttributeError):
    pass


USER_EXC = (UserExc, UserKeyExc, UserValueExc, UserAttrExc)


class BaseExc(BaseException):
    def __init__(self, n):
        super(BaseExc, self).__init__(n)
        self.n = n


def canon_exc(e):
    from transitions.core import MachineError
    import asyncio
    if isinstance(e, UserExc):
        return (3, e.n)
    if isinstance(e, BaseExc):
        return (4, e.n)
    if isinstance(e, MachineError):
        return (0, 0)
    if isinstance(e, AttributeError):
        return (1, 0)
    if isinstance(e, ValueError):
        return (2, 0)
    if isinstance(e, asyncio.CancelledError):
        return (5, 0)
    return (6, 0)


_PASS_COND = (True, 1, True, 1.0, True, True)
_BLOCK_COND = (False, 0, None, 2, 'yes', [])
_PASS_UNLESS = (False, 0, False, 0.0, False, False)
_BLOCK_UNLESS = (True, 1, 2, None, '', 'yes')


def flavour(d, cid, value, salt=0):
    """what a scripted condition callback really returns: the library compares the result with the target by `==`
    (`conditions`: result == True, `unless`: result == False), so a Boolean outcome of the script stands for a whole
    class of Python values — 1 / 1.0 pass like True, None / 2 / 'yes' / [] block a `conditions` entry like False (and
    None / 2 / '' / 'yes' block an `unless` entry like True).  The model's Boolean is unchanged; every class and both
    the sync and the async copy of `Condition.check` must treat the representatives alike."""
    if value is not True and value is not False:
        return value
    slot = getattr(d, 'cb_slot', {}).get(cid)
    h = (cid * 7 + salt) % 6
    if slot == SLOT['conditions']:
        return _PASS_COND[h] if value else _BLOCK_COND[h]
    if slot == SLOT['unless']:
        return _BLOCK_UNLESS[h] if value else _PASS_UNLESS[h]
    return value


def make_exc(kind, n):
    if kind == 3:
        return USER_EXC[n % 4](n)
    if kind == 4:
        return BaseExc(n)
    from transitions.core import MachineError
    # kinds >= 6 are builtin exception types the library has no business treating specially; they are all
    # canonicalised to `Other` (the model's Exc.other)
    return {0: MachineError('scripted'), 1: AttributeError('scripted'), 2: ValueError('scripted'),
            7: KeyError('scripted'), 8: IndexError('scripted'), 9: OSError('scripted'),
            10: LookupError('scripted'), 11: StopIteration('scripted'),
            12: StopAsyncIteration('scripted'), 13: TypeError('scripted')}.get(kind, RuntimeError('scripted'))


def foreign_other(run, e):
    """an exception of a type the library has no business creating (canonical kind `Other`) that reaches the caller
    must be the very object a scripted callback raised — not a replacement made on the way (e.g. a StopIteration turned
    into RuntimeError by a generator frame)"""
    return canon_exc(e)[0] == 6 and not any(e is x for x in getattr(run, 'scripted', ()))


# ---------------------------------------------------------------------------------------------
# abstract description
# ---------------------------------------------------------------------------------------------

class FlatDesc(object):
    """Plain data. All names are small ints."""

    def __init__(self):
        self.states = []        # dicts: name,on_enter,on_exit,ignore(None/False/True),final
        self.events = []        # (ev, [dict(source,dest,prepare,conds[(cb,target)],before,after)])
        self.prepare_event = []
        self.before_sc = []
        self.after_sc = []
        self.finalize = []
        self.on_exception = []
        self.on_final = []
        self.ignore = None      # machine-level, tri-state
        self.queued = False
        self.initial = 0
        self.send_event = False
        self.models = [0]
        self.script = {}        # (cb, k) -> (cmds, out)   out = ('ret', b) | ('raise', kind, n)
        self.history = []       # cmds (kind, a, b)
        self.cb_slot = {}       # cb id -> slot code of its registration (for naming)
        self.model_attr = 'state'   # name of the model's state attribute (`model_attribute=`)
        self.ignore_flip = None  # machine.ignore_invalid_triggers assigned AFTER construction (None: left alone)

    # -- protocol ---------------------------------------------------------------------------
    def enc_cfg(self):
        o = [len(self.states)]
        for s in self.states:
            o += [s['name']] + _l(s['on_enter']) + _l(s['on_exit'])
            o += [0 if s['ignore'] is None else (2 if s['ignore'] else 1), int(s['final'])]
        o += [len(self.events)]
        for ev, ts in self.events:
            o += [ev, len(ts)]
            for t in ts:
                o += [t['source']]
                o += [0] if t['dest'] is None else [1, t['dest']]
                o += _l(t['prepare'])
                o += [len(t['conds'])]
                for cb, tg in t['conds']:
                    o += [cb, int(tg)]
                o += _l(t['before']) + _l(t['after'])
        for l in (self.prepare_event, self.before_sc, self.after_sc, self.finalize, self.on_exception, self.on_final):
            o += _l(l)
        eff_ignore = self.ignore if getattr(self, 'ignore_flip', None) is None else self.ignore_flip
        o += [int(bool(eff_ignore)), int(self.queued), self.initial]
        return o

    def enc_script(self):
        o = [len(self.script)]
        for (cb, k), (cmds, out) in sorted(self.script.items()):
            o += [cb, k, len(cmds)]
            for c in cmds:
                o += list(c)
            o += enc_out(out)
        return o

    def enc_case(self):
        o = self.enc_cfg() + _l(self.models) + self.enc_script()
        o += [len(self.history)]
        for c in self.history:
            o += list(c)
        return o

    def to_json(self):
        d = dict(self.__dict__)
        d['script'] = [[list(k), [list(map(list, v[0])), list(v[1])]] for k, v in sorted(self.script.items())]
        d['cb_slot'] = sorted(self.cb_slot.items())
        return d

    @staticmethod
    def from_json(d):
        x = FlatDesc()
        x.__dict__.update(d)
        x.script = {tuple(k): ([tuple(c) for c in v[0]], tuple(v[1])) for k, v in d['script']}
        x.cb_slot = {k: v for k, v in d['cb_slot']}
        x.events = [(ev, ts) for ev, ts in d['events']]
        for _ev, ts in x.events:
            for t in ts:
                t['conds'] = [tuple(c) for c in t['conds']]
        x.history = [tuple(c) for c in d['history']]
        return x


def _l(xs):
    return [len(xs)] + list(xs)


def enc_out(out):
    if out[0] == 'ret':
        return [0, int(bool(out[1])), 0]
    return [1, out[1], out[2]]


# ---------------------------------------------------------------------------------------------
# generator
# ---------------------------------------------------------------------------------------------

class Knobs(object):
    def __init__(self, **kw):
        self.max_states = 5
        self.max_events = 3
        self.max_cands = 3
        self.max_conds = 3
        self.max_cbs = 2
        self.max_models = 1
        self.max_history = 8
        self.p_raise = 0.0          # per scripted invocation
        self.p_base_exc = 0.3       # share of raises that are BaseException
        self.p_cmds = 0.0           # per scripted invocation: carries re-entrant commands
        self.max_cmds = 2
        self.p_on_exception = 0.0
        self.p_queued = 0.0
        self.p_send_event = 0.3
        self.p_unknown_event = 0.1
        self.p_bad_dest = 0.0
        self.cmd_kinds = (TRIGGER,)
        self.hist_kinds = (TRIGGER,)
        self.p_cond_false = 0.4
        self.script_depth = 4       # invocations k < script_depth get scripted acts
        self.p_share_cb = 0.05      # reuse an existing callback id in another list
        self.foreign_models = False  # commands may name models that are not (yet) registered
        self.deterministic = False   # every invocation of a callback behaves like its first (C12)
        self.p_custom_attr = 0.0     # model_attribute other than 'state' (opt-in per stream)
        self.p_ignore_flip = 0.0     # the machine-level ignore flag is changed after construction (opt-in)
        self.p_tuple_cbs = 0.0       # callback collections handed over as tuples / lists alternately (opt-in)
        self.__dict__.update(kw)


def gen_flat(rng, kn):
    d = FlatDesc()
    nstates = rng.randint(1, kn.max_states)
    nev = rng.randint(1, kn.max_events)
    nxt = [0]
    cond_cbs = []

    def cbs(slot, maxn=None, p_empty=0.45):
        maxn = kn.max_cbs if maxn is None else maxn
        if maxn == 0 or rng.random() < p_empty:
            return []
        out = []
        for _ in range(rng.randint(1, maxn)):
            same = [c for c, s in d.cb_slot.items() if s == slot]
            if same and rng.random() < kn.p_share_cb:
                out.append(rng.choice(same))
            else:
                c = nxt[0]
                nxt[0] += 1
                d.cb_slot[c] = slot
                out.append(c)
        return out

    for i in range(nstates):
        d.states.append({'name': i, 'on_enter': cbs(SLOT['on_enter']), 'on_exit': cbs(SLOT['on_exit']),
                         'ignore': rng.choice([None, None, False, True]), 'final': rng.random() < 0.25})
    d.ignore = rng.choice([None, False, True])
    d.initial = rng.randrange(nstates)
    d.queued = rng.random() < kn.p_queued
    d.send_event = rng.random() < kn.p_send_event
    if rng.random() < kn.p_custom_attr:
        d.model_attr = 'mode'
    if rng.random() < kn.p_ignore_flip:
        d.ignore_flip = rng.choice([False, True])
    if kn.p_tuple_cbs and rng.random() < kn.p_tuple_cbs:
        d.tuple_cbs = rng.randrange(1, 4)
    d.prepare_event = cbs(SLOT['prepare_event'])
    d.before_sc = cbs(SLOT['before_state_change'])
    d.after_sc = cbs(SLOT['after_state_change'])
    d.finalize = cbs(SLOT['finalize_event'])
    d.on_final = cbs(SLOT['on_final'])
    if rng.random() < kn.p_on_exception:
        d.on_exception = cbs(SLOT['on_exception'], p_empty=0.0)
    for e in range(nev):
        ts = []
        # sources covered by this event
        srcs = [s for s in range(nstates) if rng.random() < 0.7] or [rng.randrange(nstates)]
        for s in srcs:
            for _ in range(rng.randint(1, kn.max_cands)):
                r = rng.random()
                if r < 0.12:
                    dest = None
                elif r < 0.27:
                    dest = s
                elif r < 0.27 + kn.p_bad_dest:
                    dest = nstates + 1      # not a registered state
                else:
                    dest = rng.randrange(nstates)
                nc = rng.randint(0, kn.max_conds)
                ncond = rng.randint(0, nc)
                conds = [(c, True) for c in cbs(SLOT['conditions'], ncond, 0.0)] if ncond else []
                conds += [(c, False) for c in cbs(SLOT['unless'], nc - ncond, 0.0)] if nc - ncond else []
                cond_cbs.extend(c for c, _ in conds)
                ts.append({'source': s, 'dest': dest, 'prepare': cbs(SLOT['prepare']), 'conds': conds,
                           'before': cbs(SLOT['before']), 'after': cbs(SLOT['after'])})
        rng.shuffle(ts)   # definition order interleaves sources
        d.events.append((e, ts))
    d.models = list(range(rng.randint(1, kn.max_models)))
    all_models = list(range(max(kn.max_models, 1))) if kn.foreign_models else list(d.models)
    evs = list(range(nev))

    def gen_cmd(kinds):
        k = rng.choice(kinds)
        m = rng.choice(all_models)
        ev = rng.choice(evs) if rng.random() >= kn.p_unknown_event else nev + 1
        if k in (REMOVE, ADD):
            return (k, m, 0)
        if k == DISPATCH:
            return (k, 0, rng.choice(evs))
        return (k, m, ev)

    cond_set = set(cond_cbs)
    budget = [6]    # total number of scripted re-entrant commands (keeps runs finite and small)
    for c in range(nxt[0]):
        for k in range(kn.script_depth):
            is_cond = c in cond_set
            out = ('ret', True)
            if is_cond and rng.random() < kn.p_cond_false:
                out = ('ret', False)
            elif not is_cond:
                out = ('ret', rng.random() < 0.5)
            cmds = []
            if rng.random() < kn.p_raise:
                out = ('raise', 4 if rng.random() < kn.p_base_exc else 3, rng.randrange(3))
            if budget[0] > 0 and rng.random() < kn.p_cmds:
                n = rng.randint(1, min(kn.max_cmds, budget[0]))
                cmds = [gen_cmd(kn.cmd_kinds) for _ in range(n)]
                budget[0] -= n
            if cmds or out != ('ret', True):
                d.script[(c, k)] = (cmds, out)
    if kn.deterministic:
        first = {c: d.script.get((c, 0)) for c in range(nxt[0])}
        d.script = {}
        for c, act in first.items():
            if act is not None:
                for k in range(DET_DEPTH):
                    d.script[(c, k)] = act
    d.history = [gen_cmd(kn.hist_kinds) for _ in range(rng.randint(1, kn.max_history))]
    return d


DET_DEPTH = 48


# ---------------------------------------------------------------------------------------------
# realisation on the real classes
# ---------------------------------------------------------------------------------------------

def sname(i):
    return 's%d' % i


def ename(i):
    return 'e%d' % i


def cbname(d, c):
    return 'cb_%d_%d' % (d.cb_slot[c], c)


class RecModel(object):
    """A model whose callbacks are synthesised on attribute access: `cb_<slot>_<id>`."""

    def __init__(self, mid, run):
        self._mid = mid
        self._run = run

    def __getattr__(self, name):
        if name.startswith('cb_'):
            _, slot, cid = name.split('_')
            return functools.partial(self._run.invoke, self, int(slot), int(cid))
        raise AttributeError(name)


class FlatRun(object):
    """Realise a FlatDesc on a machine class and run its history, recording the observable trace."""

    def __init__(self, desc, machine_cls=None, extra_kwargs=None):
        from transitions import Machine
        self.d = desc
        self.items = []
        self.counts = {}
        self.next_tag = 0
        self.bad = []
        self.tag_event = {}
        self.model_objs = {}
        self.cls = machine_cls or Machine
        for m in range(0, max(desc.models + [c[1] for c in desc.history if c[0] in (REMOVE, ADD)] + [3]) + 1):
            self.model_objs[m] = RecModel(m, self)
        self.machine = self.build(extra_kwargs or {})

    # -- construction ------------------------------------------------------------------------
    def names(self, cbs):
        out = [cbname(self.d, c) for c in cbs]
        mode = getattr(self.d, 'tuple_cbs', 0)
        if mode:
            # `listify` keeps tuples: callback collections may legitimately arrive as tuples — all of them (1), or
            # alternately with lists (2, 3), so that machine-level and transition-level collections differ in type
            k = self.__dict__['_names_calls'] = self.__dict__.get('_names_calls', 0) + 1
            if mode == 1 or (k + mode) % 2 == 0:
                return tuple(out)
        return out

    def state_defs(self):
        return [{'name': sname(s['name']), 'on_enter': self.names(s['on_enter']), 'on_exit': self.names(s['on_exit']),
                 'ignore_invalid_triggers': s['ignore'], 'final': s['final']} for s in self.d.states]

    def transition_defs(self):
        out = []
        for ev, ts in self.d.events:
            for t in ts:
                out.append({'trigger': ename(ev), 'source': sname(t['source']),
                            'dest': None if t['dest'] is None else sname(t['dest']),
                            'prepare': self.names(t['prepare']),
                            'conditions': self.names([c for c, tg in t['conds'] if tg]),
                            'unless': self.names([c for c, tg in t['conds'] if not tg]),
                            'before': self.names(t['before']), 'after': self.names(t['after'])})
        return out

    def build(self, extra):
        d = self.d
        kw = dict(model=[self.model_objs[m] for m in d.models], states=self.state_defs(),
                  transitions=self.transition_defs(), initial=sname(d.initial), send_event=d.send_event,
                  auto_transitions=False, ignore_invalid_triggers=d.ignore,
                  before_state_change=self.names(d.before_sc), after_state_change=self.names(d.after_sc),
                  prepare_event=self.names(d.prepare_event), finalize_event=self.names(d.finalize),
                  on_exception=self.names(d.on_exception), on_final=self.names(d.on_final), queued=d.queued)
        attr = getattr(d, 'model_attr', 'state')
        if attr != 'state':
            kw['model_attribute'] = attr
        kw.update(extra)
        mach = self.cls(**kw)
        if getattr(d, 'ignore_flip', None) is not None:
            # states that do not set the flag themselves follow the machine's CURRENT value
            mach.ignore_invalid_triggers = d.ignore_flip
        return mach

    # -- recording ---------------------------------------------------------------------------
    def state_id(self, model):
        v = getattr(model, getattr(self.d, 'model_attr', 'state'), None)
        if isinstance(v, str) and v.startswith('s') and v[1:].isdigit():
            return int(v[1:])
        self.bad.append(('odd-state', repr(v)))
        return 999999

    def invoke(self, model, slot, cid, *args, **kwargs):
        ok = True
        tag = -1
        if self.d.send_event:
            if len(args) == 1 and not kwargs and hasattr(args[0], 'args'):
                ed = args[0]
                if len(ed.args) == 1 and isinstance(ed.args[0], int):
                    tag = ed.args[0]
                ok = (ed.model is model and ed.kwargs in ({'m': model._mid}, {'m': -1}) and len(ed.args) == 1
                      and ed.machine is self.machine
                      and getattr(ed.event, 'name', None) == self.tag_event.get(tag))
            else:
                ok = False
        else:
            if len(args) == 1 and isinstance(args[0], int):
                tag = args[0]
            ok = len(args) == 1 and kwargs in ({'m': model._mid}, {'m': -1})
        if not ok or tag < 0:
            self.bad.append(('bad-args', slot, cid, repr(args)[:80], repr(kwargs)[:80]))
            tag = max(tag, 0)
        k = self.counts.get(cid, 0)
        self.counts[cid] = k + 1
        self.items.append(('call', slot, cid, model._mid, tag, self.state_id(model)))
        cmds, out = self.d.script.get((cid, k), ((), ('ret', True)))
        try:
            for c in cmds:
                self.do_cmd(c)
        except BaseException as e:
            self.items.append(('done', cid, 1) + canon_exc(e))
            raise
        if out[0] == 'ret':
            self.items.append(('done', cid, 0, int(bool(out[1])), 0))
            return flavour(self.d, cid, out[1], len(self.items))
        exc = make_exc(out[1], out[2])
        self.__dict__.setdefault('scripted', []).append(exc)
        self.items.append(('done', cid, 1) + canon_exc(exc))
        raise exc

    # -- API calls ---------------------------------------------------------------------------
    def _api(self, kind, a, b, fn):
        """allocate the tag, log `api`, call, log `ret` / `raised`"""
        tag = self.next_tag
        self.next_tag += 1
        self.items.append(('api', kind, tag, a, b))
        self.tag_event[tag] = ename(b)
        try:
            r = fn(tag)
        except BaseException as e:
            if isinstance(e, common.MachineryError):
                raise
            self.items.append(('raised', tag) + canon_exc(e))
            self.__dict__.setdefault('raised_objs', {})[tag] = e
            raise
        self.items.append(('ret', tag, int(bool(r))))
        return r

    def do_cmd(self, c):
        kind, a, b = c
        mach = self.machine
        if kind == TRIGGER:
            mo = self.model_objs[a]

            def fn(tag):
                if hasattr(mo, ename(b)) and (tag % 2 == 0):
                    return getattr(mo, ename(b))(tag, m=a)
                return mo.trigger(ename(b), tag, m=a)
        elif kind == MAY:
            mo = self.model_objs[a]

            def fn(tag):
                if hasattr(mo, 'may_' + ename(b)) and (tag % 2 == 0):
                    return getattr(mo, 'may_' + ename(b))(tag, m=a)
                return mo.may_trigger(ename(b), tag, m=a)
        elif kind == DISPATCH:
            a = 0

            def fn(tag):
                # every model receives the same arguments: the dispatch call's tag, m=-1
                return mach.dispatch(ename(b), tag, m=-1)
        elif kind == REMOVE:
            b = 0

            def fn(tag):
                try:
                    mach.remove_model(self.model_objs[a])
                except KeyError as e:
                    # not registered: list.remove raises ValueError, the locked classes' context map raises KeyError
                    # first — the same refusal (no property distinguishes them); normalised at the call site
                    raise ValueError(str(e))
                return True
        elif kind == ADD:
            b = 0

            def fn(tag):
                mach.add_model(self.model_objs[a])
                return True
        else:
            raise common.MachineryError('bad cmd %r' % (c,))
        return self._api(kind, a, b, fn)

    def run(self):
        for c in self.d.history:
            try:
                self.do_cmd(c)
            except BaseException as e:      # the caller of the API catches whatever escapes
                if isinstance(e, (common.MachineryError, KeyboardInterrupt)):
                    raise
        return self

    def final(self):
        models = [mo._mid for mo in self.machine.models]
        st = {}
        for m, mo in self.model_objs.items():
            if getattr(self.d, 'model_attr', 'state') in mo.__dict__:
                st[m] = self.state_id(mo)
        return models, st


class ExpandedDispatchRun(FlatRun):
    """Twin for the dispatch clause of C10: a `dispatch` is replaced by what it is documented to be — the
    event triggered once on every registered model, in registration order, with the dispatch call's
    arguments, the result being the conjunction (an escaping exception ends the walk)."""

    def do_cmd(self, c):
        kind, a, b = c
        if kind != DISPATCH:
            return FlatRun.do_cmd(self, c)

        def fn(tag):
            res = [mo.trigger(ename(b), tag, m=-1) for mo in list(self.machine.models)]
            return all(res)
        return self._api(kind, 0, b, fn)


def parse_model_answer(ans):
    """`T <items> S <nmodels> <models…> <m st …>` → (items, models, {m: st}) | None for oof"""
    if ans == 'oof':
        return None
    if not ans.startswith('T '):
        raise common.MachineryError('driver answered %r' % ans[:200])
    t, s = ans[2:].split(' S ')
    nums = [int(x) for x in t.split()]
    items, pos = common.dec_items(nums)
    if pos != len(nums):
        raise common.MachineryError('trailing numbers in driver trace')
    sn = [int(x) for x in s.split()]
    nm = sn[0]
    models = sn[1:1 + nm]
    rest = sn[1 + nm:]
    st = {rest[i]: rest[i + 1] for i in range(0, len(rest), 2)}
    return items, models, st
