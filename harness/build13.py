"""C13, flat machines: one abstract construction (canonical op list with shorthands) -> several concrete
construction scripts (variants) that must all yield the same machine -> realisation on the real
`transitions.Machine`, structural introspection, recorder traces, and the protocol encoding of each
variant for the Lean `Build.build`.

Numbering shared with lean/Model/Build.lean: states are naturals `s<k>`; user events `e<k>` have id 2k,
the auto transition event `to_s<k>` has id 2k+1 (`Build.autoEv`)."""
import copy
import enum
import random
import types

from . import common, flat
from .common import SLOT

DETOUR_STATE = 9          # destination of detour transitions; never registered, never entered
SLOT_KEYS = ('conditions', 'unless', 'before', 'after', 'prepare')


def ev_name(e):
    return 'e%d' % (e // 2) if e % 2 == 0 else 'to_s%d' % (e // 2)


def ev_id(name):
    if name.startswith('to_s'):
        return 2 * int(name[4:]) + 1
    return 2 * int(name[1:])


def sid(name):
    if isinstance(name, enum.Enum):
        name = name.name
    try:
        return int(name[1:])
    except (TypeError, ValueError):
        return 'unexpected:%r' % (name,)


# ---------------------------------------------------------------------------------------------
# generator of the abstract construction
# ---------------------------------------------------------------------------------------------

class Knobs(object):
    def __init__(self, **kw):
        self.max_states = 5
        self.max_events = 3
        self.max_items = 7
        self.max_cbs = 2
        self.max_history = 10
        self.p_auto = 0.4
        self.p_ordered = 0.2
        self.p_raise = 0.03
        self.p_cond_false = 0.4
        self.p_on_exception = 0.2
        self.p_late_initial = 0.1
        self.nvariants = 3
        self.remove_reps = ('str', 'str', 'enum', 'obj')   # representations of the selectors of remove_transition
        self.script_depth = 4
        self.__dict__.update(kw)


def gen_case(rng, kn):
    n = rng.randint(2, kn.max_states)
    nev = rng.randint(1, kn.max_events)
    cb_slot = {}
    cond_cbs = set()

    def cbs(slot, p_empty=0.55, maxn=None):
        if rng.random() < p_empty:
            return []
        out = []
        for _ in range(rng.randint(1, maxn or kn.max_cbs)):
            c = len(cb_slot)
            cb_slot[c] = SLOT[slot]
            out.append(c)
            if slot in ('conditions', 'unless'):
                cond_cbs.add(c)
        return out

    opts = {'auto': rng.random() < kn.p_auto, 'mign': rng.choice([None, None, False, True]),
            'prepare_event': cbs('prepare_event', 0.7), 'before_sc': cbs('before_state_change', 0.7),
            'after_sc': cbs('after_state_change', 0.7), 'finalize': cbs('finalize_event', 0.7),
            'on_exception': cbs('on_exception', 0.0) if rng.random() < kn.p_on_exception else [],
            'on_final': cbs('on_final', 0.6), 'queued': False, 'send_event': rng.random() < 0.3}
    order = list(range(n))
    rng.shuffle(order)
    specs = {s: {'name': s, 'on_enter': cbs('on_enter'), 'on_exit': cbs('on_exit'),
                 'ign': rng.choice([None, None, None, False, True]), 'final': rng.random() < 0.2} for s in order}
    # phases: the states arrive in 1-3 groups, transitions in between
    cuts = sorted(rng.sample(range(1, n), min(n - 1, rng.choice([0, 0, 1, 1, 2])))) if n > 1 else []
    phases = [order[a:b] for a, b in zip([0] + cuts, cuts + [n])]
    ops = []
    cur = []

    def cb_spec():
        return {'conditions': cbs('conditions', 0.6), 'unless': cbs('unless', 0.75), 'before': cbs('before', 0.7),
                'after': cbs('after', 0.7), 'prepare': cbs('prepare', 0.75)}

    def gen_item():
        ev = 2 * rng.randrange(nev)
        if rng.random() < kn.p_ordered:
            sts = None
            if len(cur) < 2 or rng.random() < 0.5:
                sts = rng.sample(range(n), rng.randint(2, n))
            m = len(sts if sts is not None else cur)
            loop = rng.random() < 0.7
            lt = m if loop else m - 1
            args = {}
            for k in SLOT_KEYS:
                r = rng.random()
                if r < 0.55:
                    args[k] = None
                elif r < 0.8:
                    args[k] = [cbs(k, 0.1)]
                else:
                    args[k] = [cbs(k, 0.4) for _ in range(lt)]
            return {'op': 'ordered', 'ev': ev, 'states': sts, 'loop': loop, 'incl': rng.random() < 0.7, 'args': args}
        r = rng.random()
        if r < 0.5:
            src = ['one', rng.randrange(n)]
        elif r < 0.75:
            src = ['many', [rng.randrange(n) for _ in range(rng.randint(1, 3))]]
        else:
            src = ['all']
        r = rng.random()
        if r < 0.65:
            dst = ['to', rng.randrange(n)]
        elif r < 0.85:
            dst = ['same']
        else:
            dst = ['internal']
        return {'op': 'trans', 'ev': ev, 'src': src, 'dst': dst, 'cb': cb_spec()}

    for pi, ph in enumerate(phases):
        ops.append({'op': 'states', 'states': [specs[s] for s in ph]})
        cur += ph
        if pi == 0:
            init = rng.choice(order) if rng.random() < kn.p_late_initial else rng.choice(ph)
            ops.append({'op': 'initial', 's': init})
            if init not in cur:
                cur.append(init)
        for _ in range(rng.randint(0 if pi + 1 < len(phases) else 1, max(1, kn.max_items // len(phases)))):
            ops.append(gen_item())
    # script: outcomes of the k-th invocation of each callback; no re-entrant commands
    script = []
    for c in sorted(cb_slot):
        for k in range(kn.script_depth):
            out = ['ret', True]
            if c in cond_cbs and rng.random() < kn.p_cond_false:
                # a falsy condition value: False, or None (e.g. an attribute that is not set yet)
                out = ['ret', None if rng.random() < 0.3 else False]
            if rng.random() < kn.p_raise:
                out = ['raise', 4 if rng.random() < 0.3 else 3, rng.randrange(3)]
            if out != ['ret', True]:
                script.append([[c, k], [[], out]])
    evs = [2 * e for e in range(nev)] + ([2 * s + 1 for s in order] if opts['auto'] else [])
    history = []
    for _ in range(rng.randint(2, kn.max_history)):
        r = rng.random()
        if r < 0.06:
            history.append([0, 0, 2 * (nev + 1)])          # an event nobody defined
        elif r < 0.75 or not opts['auto']:
            history.append([0, 0, 2 * rng.randrange(nev)])
        else:
            history.append([0, 0, rng.choice(evs)])
    return {'opts': opts, 'ops': ops, 'nstates': n, 'nev': nev, 'cb_slot': sorted(cb_slot.items()),
            'script': script, 'history': history,
            'vseeds': [rng.randrange(1 << 30) for _ in range(kn.nvariants)],
            'remove_reps': list(kn.remove_reps)}


# ---------------------------------------------------------------------------------------------
# the expansions the variants use (Python mirror of Build.orderedEdges / prepArg)
# ---------------------------------------------------------------------------------------------

def ordered_edges(init, sts, loop, incl):
    sts = list(sts)
    if init is not None and init in sts:
        i = sts.index(init)
        sts = sts[i:] + sts[:i]
        first = sts[0 if incl else 1]
    else:
        first = sts[0]
    edges = [(sts[i], sts[i + 1]) for i in range(len(sts) - 1)]
    if loop:
        edges.append((sts[-1], first))
    return edges


def prep_arg(n, arg):
    if arg is None:
        return [[] for _ in range(n)]
    if len(arg) == 1:
        return [list(arg[0]) for _ in range(n)]
    return [list(a) for a in arg]


class Sim(object):
    """the part of the machine the shorthands depend on: registered state names (OrderedDict order) and _initial"""

    def __init__(self):
        self.states = []
        self.init = None

    def apply(self, op):
        if op['op'] == 'states':
            for s in op['states']:
                if s['name'] not in self.states:
                    self.states.append(s['name'])
        elif op['op'] == 'initial':
            if op['s'] not in self.states:
                self.states.append(op['s'])
            self.init = op['s']


# ---------------------------------------------------------------------------------------------
# variants
# ---------------------------------------------------------------------------------------------

def has_attrs(s):
    return bool(s['on_enter'] or s['on_exit'] or s['final'] or s['ign'] is not None)


def derive(case, vseed, identity=False):
    """One concrete construction script realising case['ops'].  identity=True: the canonical script itself
    (names as strings, everything through add_* calls, no expansion, no detours)."""
    rng = random.Random(vseed)
    coin = (lambda p: False) if identity else (lambda p: rng.random() < p)
    sim = Sim()
    steps = []
    all_cbs = [c for c, _s in case['cb_slot']]
    cond_slots = (SLOT['conditions'], SLOT['unless'])
    cbrep = {}
    for c, s in case['cb_slot']:
        if identity:
            cbrep[c] = 'name'
        elif s in cond_slots:
            cbrep[c] = rng.choice(['name', 'name', 'ref', 'dotted', 'prop'])
        else:
            cbrep[c] = rng.choice(['name', 'name', 'ref', 'dotted'])

    def name_rep():
        return 'str' if identity else rng.choice(['str', 'str', 'enum', 'obj'])

    def tspec(ev, src, dst, cb):
        nsrc = len(src[1]) if src[0] == 'many' else 1
        return {'ev': ev, 'src': src, 'dst': dst, 'cb': cb,
                'form': 'call' if identity else rng.choice(['call', 'list', 'dict']),
                'srcrep': [name_rep() for _ in range(nsrc)], 'dstrep': name_rep(),
                'style': 0 if identity else rng.randrange(6)}

    def emit_trans(ev, src, dst, cb):
        steps.append({'k': 'trans', 't': tspec(ev, src, dst, cb)})

    def expand_trans(op):
        ev, src, dst, cb = op['ev'], op['src'], op['dst'], op['cb']
        sources = None
        if src[0] == 'all' and coin(0.5):
            src = ['many', list(sim.states)]
        if src[0] == 'many' and coin(0.5):
            sources = list(src[1])
        if src[0] == 'one' and dst[0] == 'same' and coin(0.5):
            dst = ['to', src[1]]
        if sources is None and dst[0] == 'same' and src[0] == 'many' and coin(0.4):
            sources = list(src[1])
        if sources is None:
            emit_trans(ev, src, dst, cb)
            return
        # split a source list into consecutive groups; `=` may be spelled out on singletons
        i = 0
        while i < len(sources):
            j = i + (1 if coin(0.6) else rng.randint(1, len(sources) - i))
            grp = sources[i:j]
            d = dst
            if len(grp) == 1:
                if dst[0] == 'same' and coin(0.6):
                    d = ['to', grp[0]]
                emit_trans(ev, ['one', grp[0]] if coin(0.7) else ['many', grp], d, cb)
            else:
                emit_trans(ev, ['many', grp], d, cb)
            i = j

    def expand_ordered(op):
        sts = op['states'] if op['states'] is not None else list(sim.states)
        valid = len(sts) >= 2
        lt = len(sts) if op['loop'] else len(sts) - 1
        for k in SLOT_KEYS:
            a = op['args'][k]
            if a is not None and len(a) != 1 and len(a) != lt:
                valid = False
        if not valid or not coin(0.5):
            steps.append({'k': 'ordered', 'ev': op['ev'], 'states': op['states'], 'loop': op['loop'],
                          'incl': op['incl'], 'args': op['args'], 'style': 0 if identity else rng.randrange(6)})
            return
        per = {k: prep_arg(lt, op['args'][k]) for k in SLOT_KEYS}
        for i, (a, b) in enumerate(ordered_edges(sim.init, sts, op['loop'], op['incl'])):
            emit_trans(op['ev'], ['one', a], ['to', b], {k: per[k][i] for k in SLOT_KEYS})

    def state_spec(s):
        sp = dict(s)
        sp['ignkey'] = False
        if identity:
            sp['rep'] = 'dict' if has_attrs(s) else 'str'
            sp['ignkey'] = s['ign'] is not None
            return sp
        if has_attrs(s):
            reps = ['dict', 'dictenum', 'obj', 'objenum', 'str', 'enum']
        else:
            reps = ['str', 'str', 'enum', 'dict', 'obj', 'dictenum']
        sp['rep'] = rng.choice(reps)
        if sp['rep'].startswith('dict'):
            sp['ignkey'] = s['ign'] is not None or rng.random() < 0.3
        return sp

    def expand_states(op):
        chunk = []

        def flush():
            if chunk:
                steps.append({'k': 'states', 'states': list(chunk), 'call': None, 'bare': len(chunk) == 1 and coin(0.5)})
                del chunk[:]
        for s in op['states']:
            sp = state_spec(s)
            if sp['rep'] in ('str', 'enum') and has_attrs(s):
                flush()
                steps.append({'k': 'states', 'states': [sp], 'bare': coin(0.5),
                              'call': {'on_enter': s['on_enter'], 'on_exit': s['on_exit'], 'ign': s['ign'],
                                       'final': s['final']}})
            else:
                chunk.append(sp)
                if coin(0.3):
                    flush()
        flush()

    detours = []          # pending (ev, src) of detour transitions not yet removed
    n = case['nstates']

    def maybe_detour(last=False):
        if identity:
            return
        if detours and (last or coin(0.4)):
            ev, src = detours.pop(rng.randrange(len(detours)))
            others = [d for d in detours if d[0] == ev]
            sel_src = [src] if (others or coin(0.6)) else None
            reps = case.get('remove_reps', ['str'])
            srcrep = rng.choice(reps)
            if srcrep == 'obj' and src not in sim.states:
                srcrep = 'enum'             # a State object can only be named once it is registered
            dstrep = rng.choice([r for r in reps if r != 'obj'] or ['str'])
            steps.append({'k': 'remove', 'ev': ev, 'src': sel_src, 'dst': [DETOUR_STATE], 'srcrep': srcrep,
                          'dstrep': dstrep})
            if last:
                maybe_detour(True)
        elif not last and coin(0.25):
            ev = rng.choice([2 * rng.randrange(case['nev']), 2 * (case['nev'] + 2 + rng.randrange(2))])
            src = rng.randrange(n)
            if (ev, src) in detours:
                return
            cb = {k: [] for k in SLOT_KEYS}
            if all_cbs and coin(0.5):
                cs = [c for c, s in case['cb_slot'] if s == SLOT['before']]
                if cs:
                    cb['before'] = [rng.choice(cs)]
            emit_trans(ev, ['one', src], ['to', DETOUR_STATE], cb)
            detours.append((ev, src))

    for op in case['ops']:
        if op['op'] == 'states':
            expand_states(op)
        elif op['op'] == 'initial':
            steps.append({'k': 'initial', 's': op['s'], 'rep': 'str' if identity else rng.choice(['str', 'enum'])})
        elif op['op'] == 'trans':
            expand_trans(op)
        elif op['op'] == 'ordered':
            expand_ordered(op)
        sim.apply(op)
        if steps and steps[0]['k'] == 'states':
            maybe_detour()
    maybe_detour(True)

    # constructor absorption: Machine(states=…, initial=…, transitions=[…]) for a prefix of the script
    ctor = {'k': 'ctor', 'states': None, 'initial': None, 'initial_rep': 'str', 'transitions': None, 'model': False}
    if not identity:
        i = 0
        if i < len(steps) and steps[i]['k'] == 'states' and steps[i]['call'] is None and coin(0.75):
            ctor['states'] = steps[i]['states']
            ctor['states_bare'] = steps[i]['bare']
            i += 1
        if i < len(steps) and steps[i]['k'] == 'initial' and coin(0.75):
            ctor['initial'] = steps[i]['s']
            ctor['initial_rep'] = steps[i]['rep']
            i += 1
            ts = []
            while i < len(steps) and steps[i]['k'] == 'trans' and coin(0.7):
                t = steps[i]['t']
                if t['form'] == 'call':
                    t['form'] = rng.choice(['list', 'dict'])
                ts.append(t)
                i += 1
            if ts:
                ctor['transitions'] = ts
            ctor['model'] = coin(0.5)
        steps = steps[i:]
        # batch consecutive add_transition calls into add_transitions([...])
        out = []
        for st in steps:
            if st['k'] == 'trans' and out and out[-1]['k'] in ('trans', 'transs') and coin(0.35):
                prev = out.pop()
                ts = prev['ts'] if prev['k'] == 'transs' else [prev['t']]
                out.append({'k': 'transs', 'ts': ts + [st['t']]})
            else:
                out.append(st)
        steps = out
        for st in steps:
            if st['k'] == 'transs':
                for t in st['ts']:
                    if t['form'] == 'call':
                        t['form'] = rng.choice(['list', 'dict'])
    return {'steps': [ctor] + steps, 'cbrep': sorted(cbrep.items()), 'seed': vseed}


# ---------------------------------------------------------------------------------------------
# protocol encoding of a variant for `c13build`
# ---------------------------------------------------------------------------------------------

def _l(xs):
    return [len(xs)] + list(xs)


def _opt3(v):
    return 0 if v is None else (2 if v else 1)


def enc_sspec(sp, call=None):
    if call is not None or sp['rep'] in ('str', 'enum'):
        c = call or {'on_enter': [], 'on_exit': [], 'final': False}
        return [sp['name']] + _l(c['on_enter']) + _l(c['on_exit']) + [0, 1, int(c['final'])]
    fill = sp['rep'].startswith('dict') and not sp['ignkey']
    return ([sp['name']] + _l(sp['on_enter']) + _l(sp['on_exit']) +
            [0 if fill else _opt3(sp['ign']), int(fill), int(sp['final'])])


def enc_trans(t):
    src, dst = t['src'], t['dst']
    o = [1, t['ev']]
    o += [0, src[1]] if src[0] == 'one' else ([1] + _l(src[1]) if src[0] == 'many' else [2])
    o += [0, dst[1]] if dst[0] == 'to' else ([1] if dst[0] == 'same' else [2])
    for k in SLOT_KEYS:
        o += _l(t['cb'][k])
    return o


def enc_oarg(a):
    if a is None:
        return [0]
    o = [1, len(a)]
    for x in a:
        o += _l(x)
    return o


def enc_variant(case, variant):
    o = case['opts']
    out = [int(o['auto']), _opt3(o['mign'])]
    for k in ('prepare_event', 'before_sc', 'after_sc', 'finalize', 'on_exception', 'on_final'):
        out += _l(o[k])
    out += [int(o['queued'])]
    ops = []
    for st in variant['steps']:
        k = st['k']
        if k == 'ctor':
            if st['states'] is not None:
                ops.append([0, 0, len(st['states'])] + sum((enc_sspec(s) for s in st['states']), []))
            if st['initial'] is not None:
                ops.append([4, st['initial']])
            for t in st['transitions'] or []:
                ops.append(enc_trans(t))
        elif k == 'states':
            call = st['call']
            ops.append([0, _opt3(call['ign']) if call else 0, len(st['states'])] +
                       sum((enc_sspec(s, call) for s in st['states']), []))
        elif k == 'initial':
            ops.append([4, st['s']])
        elif k == 'trans':
            ops.append(enc_trans(st['t']))
        elif k == 'transs':
            for t in st['ts']:
                ops.append(enc_trans(t))
        elif k == 'ordered':
            o2 = [2, st['ev']] + ([0] if st['states'] is None else [1] + _l(st['states']))
            o2 += [int(st['loop']), int(st['incl'])]
            for kk in SLOT_KEYS:
                o2 += enc_oarg(st['args'][kk])
            ops.append(o2)
        elif k == 'remove':
            # selectors are names for the model whatever their Python type (str / Enum member / State object)
            ops.append([3, st['ev']] + ([0] if st['src'] is None else [1] + _l(st['src'])) +
                       ([0] if st['dst'] is None else [1] + _l(st['dst'])))
        elif k == 'model':
            pass
        else:
            raise common.MachineryError('bad step %r' % (st,))
    return out + [len(ops)] + sum(ops, [])


def group_by_source(ts):
    """flat definition-order list -> [(source, [transitions])] in first-appearance order (= dict order of
    `Event.transitions`)"""
    order, d = [], {}
    for t in ts:
        if t[0] not in d:
            d[t[0]] = []
            order.append(t[0])
        d[t[0]].append(t)
    return [(s, d[s]) for s in order]


def parse_build_answer(ans):
    """`C <cfg> I <init>` -> structure comparable with `introspect` | None when the script raises"""
    if ans == 'raise':
        return None
    if not ans.startswith('C '):
        raise common.MachineryError('driver answered %r' % ans[:200])
    c, i = ans[2:].split(' I ')
    nums = [int(x) for x in c.split()]
    pos = [0]

    def nat():
        pos[0] += 1
        return nums[pos[0] - 1]

    def lst():
        return [nat() for _ in range(nat())]
    states = []
    for _ in range(nat()):
        name = nat()
        on_enter, on_exit = lst(), lst()
        ig = nat()
        states.append((name, on_enter, on_exit, [None, False, True][ig], bool(nat())))
    events = []
    for _ in range(nat()):
        ev = nat()
        ts = []
        for _ in range(nat()):
            src = nat()
            dest = nat() if nat() else None
            prepare = lst()
            conds = [(nat(), bool(nat())) for _ in range(nat())]
            ts.append((src, dest, prepare, conds, lst(), lst()))
        events.append((ev, group_by_source(ts)))
    if pos[0] != len(nums):
        raise common.MachineryError('trailing numbers in c13build answer')
    iv = [int(x) for x in i.split()]
    return {'states': states, 'events': events, 'init': iv[1] if iv[0] else None}


# ---------------------------------------------------------------------------------------------
# realisation on the real classes
# ---------------------------------------------------------------------------------------------

class Ref(object):
    """a callback passed by reference"""

    def __init__(self, run, model, slot, cid):
        self.run, self.model, self.slot, self.cid = run, model, slot, cid

    def __call__(self, *args, **kwargs):
        return self.run.invoke(self.model, self.slot, self.cid, *args, **kwargs)


class Model13(object):
    """callbacks by name are synthesised on attribute access: `cb_<slot>_<id>` is a method,
    `pr_<slot>_<id>` behaves like a property (the attribute access itself is the invocation and yields
    the plain truth value)"""

    def __init__(self, mid, run):
        self._mid = mid
        self._run = run

    def __getattr__(self, name):
        if name.startswith('cb_'):
            _, slot, cid = name.split('_')
            return Ref(self._run, self, int(slot), int(cid))
        if name.startswith('pr_'):
            _, slot, cid = name.split('_')
            return self._run.invoke_noargs(self, int(slot), int(cid))
        raise AttributeError(name)


def cb_ident(f):
    if isinstance(f, Ref):
        return f.cid
    if isinstance(f, str):
        return int(f.rsplit('_', 1)[1])
    return 'unexpected:%r' % (f,)       # shows up as a structural difference, never equal to an id


class Run13(flat.FlatRun):
    def __init__(self, case, variant):
        self.case, self.v = case, variant
        self.d = types.SimpleNamespace(
            send_event=case['opts']['send_event'], models=[0], cb_slot=dict(case['cb_slot']),
            script={tuple(k): ([tuple(c) for c in v[0]], tuple(v[1])) for k, v in case['script']},
            history=[tuple(c) for c in case['history']])
        self.items, self.counts, self.next_tag, self.bad, self.tag_event = [], {}, 0, [], {}
        self.model_objs = {0: Model13(0, self)}
        self.enum = enum.Enum('E', ['s%d' % i for i in range(DETOUR_STATE + 1)])
        self.cbrep = dict(variant['cbrep'])
        self.machine = None
        self.error = None
        self.activate()
        try:
            self.construct()
        except common.MachineryError:
            raise
        except Exception as e:      # a construction script that raises
            self.error = [type(e).__name__, str(e)[:200]]

    def activate(self):
        from . import c13hooks
        c13hooks.CURRENT = (self, self.model_objs[0])

    # -- names and callbacks in the chosen representation -----------------------------------------
    def st(self, s, rep):
        name = 's%d' % s
        if rep == 'enum':
            return self.enum[name]
        if rep == 'obj' and self.machine is not None and name in self.machine.states:
            return self.machine.states[name]
        return name

    def cb(self, c):
        rep = self.cbrep.get(c, 'name')
        slot = self.d.cb_slot[c]
        if rep == 'ref':
            return Ref(self, self.model_objs[0], slot, c)
        if rep == 'dotted':
            return 'harness.c13hooks.cb_%d_%d' % (slot, c)
        if rep == 'prop':
            return 'pr_%d_%d' % (slot, c)
        return 'cb_%d_%d' % (slot, c)

    def cbl(self, cs, style=0):
        """a callback argument: list / tuple / the bare element for singletons"""
        l = [self.cb(c) for c in cs]
        if len(l) == 1 and style % 3 == 1:
            return l[0]
        if style % 3 == 2:
            return tuple(l)
        return l

    def mk_state(self, sp):
        from transitions import State
        rep = sp['rep']
        nm = self.st(sp['name'], 'enum' if rep.endswith('enum') else 'str')
        if rep in ('str', 'enum'):
            return nm
        kw = {}
        if sp['on_enter']:
            kw['on_enter'] = self.cbl(sp['on_enter'], sp['name'])
        if sp['on_exit']:
            kw['on_exit'] = self.cbl(sp['on_exit'], sp['name'] + 1)
        if sp['final']:
            kw['final'] = True
        if rep.startswith('dict'):
            d = dict(name=nm, **kw)
            if sp['ignkey']:
                d['ignore_invalid_triggers'] = sp['ign']
            return d
        return State(nm, ignore_invalid_triggers=sp['ign'], **kw)

    def t_parts(self, t):
        src, dst, style = t['src'], t['dst'], t['style']
        if src[0] == 'all':
            source = '*'
        elif src[0] == 'one':
            source = self.st(src[1], t['srcrep'][0])
        else:
            source = [self.st(s, r) for s, r in zip(src[1], t['srcrep'])]
            if style % 2:
                source = tuple(source)
        dest = '=' if dst[0] == 'same' else (None if dst[0] == 'internal' else self.st(dst[1], t['dstrep']))
        cbs = {k: (self.cbl(t['cb'][k], style + i) if t['cb'][k] else None) for i, k in enumerate(SLOT_KEYS)}
        return ev_name(t['ev']), source, dest, cbs

    def t_form(self, t):
        trigger, source, dest, cbs = self.t_parts(t)
        if t['form'] == 'list':
            l = [trigger, source, dest] + [cbs[k] for k in SLOT_KEYS]
            while len(l) > 3 and l[-1] is None:
                l.pop()
            return l
        d = {'trigger': trigger, 'source': source, 'dest': dest}
        d.update({k: v for k, v in cbs.items() if v is not None})
        return d

    def oarg(self, a, style):
        if a is None:
            return None
        elems = [(self.cbl(x, style + i) if x else (None if (style + i) % 2 else [])) for i, x in enumerate(a)]
        if len(a) == 1:
            x = a[0]
            if len(x) == 1 and style % 3 == 0:
                return self.cb(x[0])            # 'cb': one callback for every edge
            if len(x) == 1 and style % 3 == 1:
                return [self.cb(x[0])]
            return [[self.cb(c) for c in x]]
        return elems

    def construct(self):
        from transitions import Machine
        o = self.case['opts']
        steps = self.v['steps']
        ctor = steps[0]
        mo = self.model_objs[0]
        kw = dict(model=None, initial=None, send_event=o['send_event'], auto_transitions=o['auto'],
                  ignore_invalid_triggers=o['mign'], queued=o['queued'])
        for key, arg in (('prepare_event', 'prepare_event'), ('before_sc', 'before_state_change'),
                         ('after_sc', 'after_state_change'), ('finalize', 'finalize_event'),
                         ('on_exception', 'on_exception'), ('on_final', 'on_final')):
            if o[key]:
                kw[arg] = self.cbl(o[key], len(o[key]))
        if ctor['states'] is not None:
            sts = [self.mk_state(s) for s in ctor['states']]
            kw['states'] = sts[0] if ctor.get('states_bare') and len(sts) == 1 else sts
        if ctor['initial'] is not None:
            kw['initial'] = self.st(ctor['initial'], ctor['initial_rep'])
        if ctor['transitions'] is not None:
            kw['transitions'] = [self.t_form(t) for t in ctor['transitions']]
        attached = False
        if ctor['model'] and ctor['initial'] is not None:
            kw['model'] = mo
            attached = True
        self.machine = m = Machine(**kw)
        for st in steps[1:]:
            k = st['k']
            if k == 'states':
                sts = [self.mk_state(s) for s in st['states']]
                arg = sts[0] if st['bare'] and len(sts) == 1 else sts
                if st['call']:
                    c = st['call']
                    ckw = {}
                    if c['on_enter']:
                        ckw['on_enter'] = self.cbl(c['on_enter'], st['states'][0]['name'])
                    if c['on_exit']:
                        ckw['on_exit'] = self.cbl(c['on_exit'], st['states'][0]['name'] + 1)
                    if c['ign'] is not None:
                        ckw['ignore_invalid_triggers'] = c['ign']
                    if c['final']:
                        ckw['final'] = True
                    (m.add_state if st['bare'] else m.add_states)(arg, **ckw)
                else:
                    m.add_states(arg)
            elif k == 'initial':
                m.initial = self.st(st['s'], st['rep'])
            elif k == 'trans':
                t = st['t']
                if t['form'] == 'call':
                    trigger, source, dest, cbs = self.t_parts(t)
                    m.add_transition(trigger, source, dest, **{kk: v for kk, v in cbs.items() if v is not None})
                else:
                    m.add_transitions([self.t_form(t)] if t['style'] % 2 else self.t_form(t)
                                      if t['form'] == 'dict' else [self.t_form(t)])
            elif k == 'transs':
                m.add_transitions([self.t_form(t) for t in st['ts']])
            elif k == 'ordered':
                okw = {kk: self.oarg(st['args'][kk], st['style'] + i) for i, kk in enumerate(SLOT_KEYS)}
                okw = {kk: v for kk, v in okw.items() if v is not None}
                sts = None if st['states'] is None else [self.st(s, 'str') for s in st['states']]
                m.add_ordered_transitions(states=sts, trigger=ev_name(st['ev']), loop=st['loop'],
                                          loop_includes_initial=st['incl'], **okw)
            elif k == 'remove':
                def sel(x, rep):
                    if x is None:
                        return '*'
                    l = [self.st(s, rep) for s in x]
                    if rep == 'obj' and any(isinstance(e, str) for e in l):
                        raise common.MachineryError('State selector for an unregistered state')
                    return l[0] if len(l) == 1 else l
                m.remove_transition(ev_name(st['ev']), source=sel(st['src'], st['srcrep']),
                                    dest=sel(st['dst'], st['dstrep']))
            else:
                raise common.MachineryError('bad step %r' % (st,))
        if not attached:
            m.add_model(mo)

    # -- recording --------------------------------------------------------------------------------
    def state_id(self, model):
        v = getattr(model, 'state', None)
        if isinstance(v, enum.Enum):
            v = v.name
        if isinstance(v, str) and v.startswith('s') and v[1:].isdigit():
            return int(v[1:])
        self.bad.append(('odd-state', repr(v)))
        return 999999

    def invoke_noargs(self, model, slot, cid):
        """a condition given as a property: the library passes no arguments; the recorder takes the tag of
        the API call in progress (C13 scripts issue no re-entrant calls and machines are unqueued)"""
        tag = self.next_tag - 1
        if self.d.send_event:
            fake = types.SimpleNamespace(args=(tag,), kwargs={'m': model._mid}, model=model, machine=self.machine,
                                         event=types.SimpleNamespace(name=self.tag_event.get(tag)))
            return self.invoke(model, slot, cid, fake)
        return self.invoke(model, slot, cid, tag, m=model._mid)

    def _api(self, kind, a, b, fn):
        tag = self.next_tag
        self.next_tag += 1
        self.items.append(('api', kind, tag, a, b))
        self.tag_event[tag] = ev_name(b)
        try:
            r = fn(tag)
        except BaseException as e:
            if isinstance(e, (common.MachineryError, KeyboardInterrupt)):
                raise
            self.items.append(('raised', tag) + flat.canon_exc(e))
            raise
        self.items.append(('ret', tag, int(bool(r))))
        return r

    def do_cmd(self, c):
        kind, a, b = c
        mo = self.model_objs[a]
        name = ev_name(b)

        def fn(tag):
            if tag % 2 == 0 and hasattr(mo, name):
                return getattr(mo, name)(tag, m=a)
            return mo.trigger(name, tag, m=a)
        return self._api(kind, a, b, fn)

    def run(self):
        if self.error is None:
            self.activate()
            flat.FlatRun.run(self)
        return self

    # -- structural introspection ---------------------------------------------------------------------
    def introspect(self):
        m = self.machine

        def ids(l):
            return [cb_ident(f) for f in l]

        def tr(t):
            return (sid(t.source), None if t.dest is None else sid(t.dest), ids(t.prepare),
                    [(cb_ident(c.func), bool(c.target)) for c in t.conditions], ids(t.before), ids(t.after))
        states = [(sid(s.name), ids(s.on_enter), ids(s.on_exit), s.ignore_invalid_triggers, bool(s.final))
                  for s in m.states.values()]
        if [sid(k) for k in m.states] != [s[0] for s in states]:
            raise common.MachineryError('states dict keys differ from state names')
        events = [(ev_id(name), [(sid(src), [tr(t) for t in l]) for src, l in ev.transitions.items()])
                  for name, ev in m.events.items()]
        return {'states': states, 'events': events, 'init': None if m._initial is None else sid(m._initial),
                'mlists': [ids(m.prepare_event), ids(m.before_state_change), ids(m.after_state_change),
                           ids(m.finalize_event), ids(m.on_exception), ids(m.on_final)],
                'mign': m.ignore_invalid_triggers}


def normal_form(intro):
    """what C13 says two equivalent constructions must agree on (mirror of `Build.Equiv`)"""
    g = bool(intro['mign'])
    return {'states': [(n, a, b, (g if ig is None else bool(ig)), f) for n, a, b, ig, f in intro['states']],
            'events': {ev: {src: ts for src, ts in per if ts} for ev, per in intro['events']},
            'init': intro['init'], 'mlists': intro['mlists'], 'ignore': g}


def enc_intro_cfg(case, intro):
    """an introspected machine as a `Cfg` of the protocol (for the verified `equivCheck`)"""
    o = [len(intro['states'])]
    for n, a, b, ig, f in intro['states']:
        o += [n] + _l(a) + _l(b) + [_opt3(ig), int(f)]
    o += [len(intro['events'])]
    for ev, per in intro['events']:
        ts = [t for _s, l in per for t in l]
        o += [ev, len(ts)]
        for src, dest, prepare, conds, before, after in ts:
            o += [src] + ([0] if dest is None else [1, dest]) + _l(prepare) + [len(conds)]
            for c, tg in conds:
                o += [c, int(tg)]
            o += _l(before) + _l(after)
    for l in intro['mlists']:
        o += _l(l)
    o += [int(bool(intro['mign'])), int(case['opts']['queued']), intro['init'] if intro['init'] is not None else 0]
    return o
