"""Deterministic thread controller around the real Locked* machines (engine `thread-controller`).

Every worker thread blocks on its own semaphore; the controller thread releases exactly one worker
at a time and waits until that worker reaches its next *yield point* (or finishes).  A yield point is
placed BEFORE every action of interest:

    call begin / call end (harness wrapper around the API call)
    `__enter__` / `__exit__` of every instrumented context manager
        - SLock: scheduler-aware non re-entrant mutex; it stands in for `threading.Lock` inside the
          library's `PicklableLock` (module global `transitions.extensions.locking.Lock` is replaced
          harness-side) and is also handed in through the public `machine_context=` / `model_context=`
          arguments.  A thread that finds it taken is *known* to be blocked: its step is a no-op.
        - UCtx: opaque user context (public arguments)
        - SIdent: subclass of the library's IdentManager (module global replaced harness-side) whose
          `__enter__/__exit__` are yield points and whose `current` attribute is a property: a read by
          a thread that is not the owner is a (silent) yield point
    start and end of every recorder callback

So one scheduling decision = one event appended to the log, or a blocked no-op, or a silent read.
Deadlock (every unfinished thread blocked) and hangs (watchdog) are detected and reported.
"""
import threading

from . import common  # noqa: F401  (puts the repo on sys.path)

from transitions.extensions import locking as _locking

_ORIG_IDENT = _locking.IdentManager
_ORIG_LOCK = _locking.Lock

CTL = None          # the controller of the case being run in this process (one at a time)
IN_SNAPSHOT = 0     # > 0 while a callback pickles / deep-copies the machine: contexts created then belong to the COPY
                    # and are inert (no yield points, no events) - only the live machine's contexts are observed


class Abort(BaseException):
    """raised inside worker threads when the controller gives a case up"""


def _me():
    c = CTL
    if c is None:
        return None
    return c.tids.get(threading.get_ident())


class Controller(object):
    def __init__(self, n, policy, watchdog=10.0, max_steps=5000):
        self.n = n
        self.policy = policy
        self.watchdog = watchdog
        self.max_steps = max_steps
        self.go = [threading.Semaphore(0) for _ in range(n)]
        self.back = threading.Semaphore(0)
        self.tids = {}
        self.log = []               # events (tuples of naturals, protocol encoding of Locked.Ev)
        self.finished = [False] * n
        self.blocked_on = [None] * n
        self.abort = False
        self.muted = set()          # threads executing an unjudged call: no events, no voluntary yields
        self.steps = []             # (thread, kind) kind: 'e' event | 'b' blocked | 's' silent | 'f' finished
        self.runnable_hist = []     # runnable set at each decision (for enumeration)
        self.status = 'ok'          # ok | deadlock | hang | too-long
        self.errors = []

    # ---- worker side -------------------------------------------------------------------------
    def point(self):
        """yield: hand control to the controller, wait to be scheduled"""
        t = self.tids.get(threading.get_ident())
        if t is None:
            return None
        if self.abort:
            raise Abort()
        if t in self.muted:
            return t
        return self.wait(t)

    def wait(self, t):
        """unconditional yield (also used by a muted thread that must wait for a lock)"""
        if self.abort:
            raise Abort()
        self.back.release()
        self.go[t].acquire()
        if self.abort:
            raise Abort()
        return t

    def emit(self, ev):
        if not self.abort and self.tids.get(threading.get_ident()) not in self.muted:
            self.log.append(tuple(ev))

    # ---- controller side ---------------------------------------------------------------------
    def runnable(self):
        out = []
        for t in range(self.n):
            if self.finished[t]:
                continue
            b = self.blocked_on[t]
            if b is not None and b.owner is not None:
                continue
            out.append(t)
        return out

    def run(self, bodies):
        """bodies[t]: callable run by worker t"""
        global CTL
        CTL = self
        threads = []

        def mk(t):
            def w():
                self.tids[threading.get_ident()] = t
                self.go[t].acquire()
                try:
                    if not self.abort:
                        bodies[t]()
                except Abort:
                    pass
                except BaseException as e:     # a harness bug, not the library (API calls are wrapped)
                    self.errors.append('worker %d: %r' % (t, e))
                finally:
                    self.finished[t] = True
                    self.back.release()
            return w
        for t in range(self.n):
            th = threading.Thread(target=mk(t), daemon=True)
            threads.append(th)
            th.start()
        last = None
        try:
            while True:
                run = self.runnable()
                if not run:
                    if not all(self.finished):
                        self.status = 'deadlock'
                    break
                if len(self.steps) >= self.max_steps:
                    self.status = 'too-long'
                    break
                t = self.policy.choose(len(self.steps), run, last)
                self.runnable_hist.append(run)
                n0 = len(self.log)
                self.blocked_on[t] = None
                self.go[t].release()
                if not self.back.acquire(timeout=self.watchdog):
                    self.status = 'hang'
                    self.steps.append((t, 'h'))
                    break
                d = len(self.log) - n0
                if d > 1:
                    self.errors.append('more than one event in a step')
                if t in self.muted and d == 0:
                    kind = 'm'
                elif self.finished[t] and d == 0:
                    kind = 'f'
                elif d >= 1:
                    kind = 'e'
                elif self.blocked_on[t] is not None:
                    kind = 'b'
                else:
                    kind = 's'
                self.steps.append((t, kind))
                last = t
        finally:
            self.abort = True
            for t in range(self.n):
                self.go[t].release()
            for th in threads:
                th.join(timeout=2.0 if self.status != 'hang' else 0.2)
            CTL = None
        return self


# ---------------------------------------------------------------------------------------------
# instrumented contexts
# ---------------------------------------------------------------------------------------------

class SLock(object):
    """scheduler-aware non re-entrant mutex (stands in for threading.Lock)"""

    def __init__(self, cid=0):
        self.cid = cid
        self.owner = None       # worker index, or 'main'
        self.inert = IN_SNAPSHOT > 0
        # allocating a lock is a yield point when a worker thread does it (stands in for threading.Lock(): code that
        # creates its lock lazily, on first use, can be interleaved between the test and the assignment)
        c = CTL
        if c is not None and not self.inert and c.tids.get(threading.get_ident()) is not None:
            c.point()

    def __getstate__(self):
        return {'cid': self.cid}

    def __setstate__(self, st):
        self.cid = st['cid']
        self.owner = None
        self.inert = IN_SNAPSHOT > 0        # a copy made by a callback mid-event is never part of the run;
                                            # a machine restored BEFORE the threads start is the live one

    def acquire(self, blocking=True, timeout=-1):
        self.__enter__()
        return True

    def release(self):
        self.__exit__(None, None, None)

    def locked(self):
        return self.owner is not None

    def __enter__(self):
        c = CTL
        t = _me()
        if self.inert:
            self.owner = 'copy'
            return self
        if c is None or t is None:
            if self.owner is not None:
                raise common.MachineryError('SLock %d taken outside a controlled run' % self.cid)
            self.owner = 'main'
            return self
        while True:
            if t in c.muted:
                if self.owner is None:
                    self.owner = t
                    return self
                c.blocked_on[t] = self      # an unjudged call waits for the lock like everybody else
                c.wait(t)
                continue
            if c.point() is None:
                raise Abort()
            if self.owner is None:
                self.owner = t
                c.emit((1, t, 0, self.cid))
                return self
            c.blocked_on[t] = self

    def __exit__(self, *exc):
        c = CTL
        t = _me()
        if c is None or t is None or self.inert:
            self.owner = None
            return False
        c.point()
        self.owner = None
        c.emit((3, t, 0, self.cid))
        return False


class UCtx(object):
    """opaque user supplied context manager"""

    def __init__(self, cid):
        self.cid = cid
        self.inert = False

    def __getstate__(self):
        return {'cid': self.cid}

    def __setstate__(self, st):
        self.cid = st['cid']
        self.inert = IN_SNAPSHOT > 0

    def __enter__(self):
        c = CTL
        t = _me()
        if c is not None and t is not None and not self.inert:
            c.point()
            c.emit((1, t, 2, self.cid))
        return self

    def __exit__(self, *exc):
        c = CTL
        t = _me()
        if c is not None and t is not None and not self.inert:
            c.point()
            c.emit((3, t, 2, self.cid))
        return False


class SIdent(_ORIG_IDENT):
    """the library's IdentManager with yield points; `current` becomes a property"""

    # the value lives in the instance __dict__ under the library's own key 'current' (so that code which works on
    # `self.__dict__`, e.g. a __getstate__, sees and touches the real thing); the class-level property only adds the
    # yield point on a foreign read
    def __setstate__(self, st):
        self.__dict__.update(st)
        self.__dict__['inert'] = IN_SNAPSHOT > 0

    def _get(self):
        c = CTL
        if c is not None and self.__dict__.get('current', 0) != threading.get_ident() and _me() is not None \
                and not self.__dict__.get('inert'):
            c.point()          # silent yield: a foreign thread reads the owner
        return self.__dict__.get('current', 0)

    def _set(self, v):
        self.__dict__['current'] = v

    current = property(_get, _set)

    def __enter__(self):
        c = CTL
        t = _me()
        live = c is not None and t is not None and not self.__dict__.get('inert')
        if live:
            c.point()
        r = _ORIG_IDENT.__enter__(self)
        if live:
            c.emit((1, t, 1, 0))
        return r

    def __exit__(self, exc_type, exc_val, exc_tb):
        c = CTL
        t = _me()
        live = c is not None and t is not None and not self.__dict__.get('inert')
        if live:
            c.point()
        r = _ORIG_IDENT.__exit__(self, exc_type, exc_val, exc_tb)
        if live:
            c.emit((3, t, 1, 0))
        return r


def install():
    """replace the module globals the library looks up at run time (harness-side, no source hook)"""
    _locking.Lock = SLock
    _locking.IdentManager = SIdent


def uninstall():
    _locking.Lock = _ORIG_LOCK
    _locking.IdentManager = _ORIG_IDENT


# ---------------------------------------------------------------------------------------------
# scheduling policies
# ---------------------------------------------------------------------------------------------

class ListPolicy(object):
    """follow `choices` (thread ids) while they are runnable; afterwards (or when a choice is not
    runnable) continue the last thread if it can run, else the lowest runnable one"""

    def __init__(self, choices):
        self.choices = list(choices)

    def choose(self, i, run, last):
        if i < len(self.choices) and self.choices[i] in run:
            return self.choices[i]
        if last in run:
            return last
        return run[0]


class RandomPolicy(object):
    """uniform choice among runnable threads with probability p_switch, else keep running the last"""

    def __init__(self, rng, p_switch=0.5):
        self.rng = rng
        self.p = p_switch

    def choose(self, i, run, last):
        if last in run and self.rng.random() >= self.p:
            return last
        return self.rng.choice(run)


class SerialPolicy(object):
    """run outermost calls one after the other: `order` = thread ids, one per outermost call; a
    thread keeps running until `depth_of(t)` is 0 again"""

    def __init__(self, order, in_call):
        self.order = list(order)
        self.in_call = in_call      # callable t -> bool: thread t is inside an outermost call
        self.cur = None
        self.started = False

    def choose(self, i, run, last):
        if self.cur is not None and self.cur in run and (not self.started or self.in_call(self.cur)):
            if self.in_call(self.cur):
                self.started = True
            return self.cur
        while self.order:
            self.cur = self.order.pop(0)
            self.started = False
            if self.cur in run:
                return self.cur
        return run[0]
