"""C16 machinery: generated GraphMachine / HierarchicalGraphMachine configurations (Mermaid backend),
a Mermaid-subset parser back into the abstract diagram of lean/Model/Diagram.lean, the protocol
encoding for the `c16` driver request, and the Python oracle that states the clauses of C16 directly.

Vocabulary (tokens of the protocol):
    state name  's<n>'                 -> n          global name 's0_s2' -> path [0, 2]
    trigger     'e<n>' -> [0, n]   transition label 'L<n>' -> [1, n]   auto trigger 'to_<path>' -> [2] + path
    state label default (the name) -> [3, n]     custom 'SL<n>' -> [4, n]     '' -> []
    conditions  'c<n>' -> n            state callbacks 'cb<n>' -> n
"""
import copy
import enum
import re

from . import common  # noqa: F401  (puts the repo under test on sys.path)

SEP = '_'
POOL = ['s0', 's1', 's2', 's3', 's4']
TRIGGERS = ['e0', 'e1', 'e2', 'e3']
CONDS = ['c0', 'c1', 'c2']
CBS = ['cb0', 'cb1', 'cb2']
ATTR = 'status'                      # the custom model_attribute used by generated cases
MODCB = 'cb9'                        # a state callback that changes the machine (add_transition) in mid-transition
RETRIG = ['cb5', 'cb6', 'cb7']      # state / transition callbacks that fire an event on the same model


class ParseError(Exception):
    pass


# ---------------------------------------------------------------------------------------------
# tokens
# ---------------------------------------------------------------------------------------------

def path_of(name):
    out = []
    for seg in name.split(SEP):
        m = re.match(r'^s(\d+)$', seg)
        if not m:
            raise ParseError('not a state name: %r' % name)
        out.append(int(m.group(1)))
    return tuple(out)


def name_of(path):
    return SEP.join('s%d' % n for n in path)


def text_tokens(s):
    if s == '':
        return ()
    m = re.match(r'^e(\d+)$', s)
    if m:
        return (0, int(m.group(1)))
    m = re.match(r'^L(\d+)$', s)
    if m:
        return (1, int(m.group(1)))
    if s.startswith('to_' + ATTR + '_'):       # auto trigger of a machine with a custom model_attribute
        return (2,) + path_of(s[len(ATTR) + 4:])
    if s.startswith('to_'):
        return (2,) + path_of(s[3:])
    m = re.match(r'^s(\d+)$', s)
    if m:
        return (3, int(m.group(1)))
    m = re.match(r'^SL(\d+)$', s)
    if m:
        return (4, int(m.group(1)))
    raise ParseError('unknown text %r' % s)


def num(prefix, s):
    m = re.match(r'^%s(\d+)$' % prefix, s)
    if not m:
        raise ParseError('expected %s<n>: %r' % (prefix, s))
    return int(m.group(1))


# ---------------------------------------------------------------------------------------------
# Mermaid-subset parser (trusted): text -> abstract diagram
# ---------------------------------------------------------------------------------------------

class Node(object):
    def __init__(self, name, label):
        self.name = name          # path
        self.label = label        # (text tokens, enter tuple, exit tuple)
        self.final = False
        self.cls = None           # None | 0 default | 1 active | 2 previous | ('other', str)
        self.block = False
        self.init = None
        self.regions = []         # list of lists of Node

    def canon(self):
        regs = sorted((tuple(sorted((n.canon() for n in r), key=repr)) for r in self.regions if r), key=repr)
        return (self.name, self.label, self.final, self.cls, self.block, self.init, tuple(regs))


class Parsed(object):
    def __init__(self):
        self.nodes = []           # top-level
        self.edges = []           # (src, dst, [label...]) label = (text, internal, conds, unless)
        self.root_init = None
        self.all = []             # every declared node with its parent (None at top) in order
        self.top_regions = 1

    def canon(self):
        return (tuple(sorted((n.canon() for n in self.nodes), key=repr)),
                tuple(sorted(((s, d, tuple(sorted(ls, key=repr))) for s, d, ls in self.edges), key=repr)), self.root_init)


STYLES = {'default': 0, 'active': 1, 'previous': 2}
_ID = r'[A-Za-z0-9_]+'


def parse_state_label(s):
    parts = re.split(r'(\\n- enter:|\\n- exit:)', s)
    text = text_tokens(parts[0])
    enter, exit_ = (), ()
    i = 1
    while i < len(parts):
        items = parts[i + 1]
        if not items.startswith('\\n  + '):
            raise ParseError('bad state attribute list %r' % s)
        vals = tuple(num('cb', x) for x in items[len('\\n  + '):].split('\\n  + '))
        if parts[i] == '\\n- enter:':
            enter = vals
        else:
            exit_ = vals
        i += 2
    return (text, enter, exit_)


def parse_edge_label(s):
    m = re.match(r'^(?P<text>[A-Za-z0-9_]*)(?P<int> \[internal\])?(?: \[(?P<conds>[^\]]*)\])?$', s)
    if not m:
        raise ParseError('bad edge label %r' % s)
    conds, unless = [], []
    if m.group('conds') is not None:
        for item in m.group('conds').split(' & '):
            if item.startswith('!'):
                unless.append(num('c', item[1:]))
            else:
                conds.append(num('c', item))
    return (text_tokens(m.group('text')), bool(m.group('int')), tuple(conds), tuple(unless))


def parse_mermaid(text):
    lines = text.split('\n')
    if len(lines) < 4 or lines[0] != '---' or lines[2] != '---' or lines[3].strip() != 'stateDiagram-v2':
        raise ParseError('bad header')
    out = Parsed()
    by_name = {}
    stack = []                    # open blocks (Node)

    def container():
        return stack[-1].regions[-1] if stack else out.nodes

    for raw in lines[4:]:
        line = raw.lstrip(' ')
        if line == '' or line.startswith('direction ') or line.startswith('classDef '):
            continue
        m = re.match(r'^state "(.*)" as (%s)$' % _ID, line)
        if m:
            node = Node(path_of(m.group(2)), parse_state_label(m.group(1)))
            container().append(node)
            out.all.append((node, stack[-1] if stack else None))
            by_name.setdefault(node.name, []).append(node)
            continue
        m = re.match(r'^Class (%s) s_(\w+)$' % _ID, line)
        if m:
            nodes = by_name.get(path_of(m.group(1)))
            if not nodes:
                raise ParseError('Class for undeclared state: %r' % line)
            if nodes[-1].cls is not None:
                raise ParseError('two Class lines for %r' % m.group(1))
            nodes[-1].cls = STYLES.get(m.group(2), ('other', m.group(2)))
            continue
        m = re.match(r'^(%s) --> \[\*\]$' % _ID, line)
        if m:
            nodes = by_name.get(path_of(m.group(1)))
            if not nodes:
                raise ParseError('final marker for undeclared state: %r' % line)
            nodes[-1].final = True
            continue
        m = re.match(r'^\[\*\] --> (%s)$' % _ID, line)
        if m:
            if stack:
                if stack[-1].init is not None:
                    raise ParseError('two initial markers in %r' % (stack[-1].name,))
                stack[-1].init = path_of(m.group(1))
            else:
                if out.root_init is not None:
                    raise ParseError('two root initial markers')
                out.root_init = path_of(m.group(1))
            continue
        m = re.match(r'^state (%s) \{$' % _ID, line)
        if m:
            p = path_of(m.group(1))
            cands = [n for n in container() if n.name == p]
            if not cands or cands[-1].block:
                raise ParseError('block for a state not declared in the enclosing block: %r' % line)
            cands[-1].block = True
            cands[-1].regions = [[]]
            stack.append(cands[-1])
            continue
        if line == '--':
            if not stack:
                raise ParseError('region separator outside a block')
            stack[-1].regions.append([])
            continue
        if line == '}':
            if not stack:
                raise ParseError('unbalanced }')
            stack.pop()
            continue
        m = re.match(r'^(%s) --> (%s): (.*)$' % (_ID, _ID), line)
        if m:
            if stack:
                raise ParseError('edge inside a block: %r' % line)
            out.edges.append((path_of(m.group(1)), path_of(m.group(2)),
                              [parse_edge_label(x) for x in m.group(3).split(' | ')]))
            continue
        raise ParseError('unrecognised line %r' % raw)
    if stack:
        raise ParseError('unclosed block')
    return out


# ---------------------------------------------------------------------------------------------
# case generation
# ---------------------------------------------------------------------------------------------

def _gen_state(rng, name, depth, nested):
    st = {'name': name, 'label': None, 'final': rng.random() < 0.2, 'enter': [], 'exit': [],
          'initial': None, 'parallel': False, 'children': [], 'transitions': []}
    if rng.random() < 0.2:
        st['label'] = 'SL%d' % rng.randrange(3)
    if rng.random() < 0.2:
        st['enter'] = rng.sample(CBS, rng.randint(1, 2))
    if rng.random() < 0.15:
        st['exit'] = rng.sample(CBS, rng.randint(1, 2))
    if nested and depth < 2 and rng.random() < (0.5 if depth == 0 else 0.3):
        names = rng.sample(POOL, rng.randint(1, 3))
        st['children'] = [_gen_state(rng, n, depth + 1, nested) for n in names]
        if len(names) >= 2 and rng.random() < 0.3:
            st['parallel'] = True
        elif rng.random() < 0.8:
            st['initial'] = rng.choice(names)
        rel = [p for c in st['children'] for p in rel_paths(c)]
        for _ in range(rng.choice([0, 0, 1, 1, 2])):
            st['transitions'].append(_gen_trans(rng, rel, allow_wild=False))
    return st


def rel_paths(st, pre=''):
    me = pre + st['name']
    out = [me]
    for c in st['children']:
        out += rel_paths(c, me + SEP)
    return out


def all_paths(states):
    return [p for s in states for p in rel_paths(s)]


def _gen_trans(rng, names, allow_wild=True, tops=None):
    r = rng.random()
    if allow_wild and r < 0.12:
        source = '*'
    elif allow_wild and r < 0.2 and tops and len(tops) >= 2:
        source = rng.sample(tops, 2)
    else:
        source = rng.choice(names)
    r = rng.random()
    dest = None if r < 0.15 else ('=' if r < 0.25 else rng.choice(names))
    t = {'trigger': rng.choice(TRIGGERS), 'source': source, 'dest': dest, 'label': None,
         'conditions': [], 'unless': []}
    if rng.random() < 0.2:
        t['label'] = 'L%d' % rng.randrange(3)
    if rng.random() < 0.35:
        t['conditions'] = rng.sample(CONDS, rng.randint(1, 2))
    if rng.random() < 0.2:
        t['unless'] = rng.sample(CONDS, 1)
    return t


def gen_case(rng, nested):
    n_top = rng.randint(1, 4) if not nested else rng.randint(2, 4)
    tops = rng.sample(POOL, n_top)
    states = [_gen_state(rng, n, 0, nested) for n in tops]
    if nested and not any(s['children'] for s in states):
        s = states[rng.randrange(len(states))]
        names = rng.sample(POOL, rng.randint(1, 3))
        s['children'] = [_gen_state(rng, n, 1, nested) for n in names]
        s['initial'] = rng.choice(names)
    names = all_paths(states)
    case = {
        'nested': nested,
        'enum': (not nested) and rng.random() < 0.15,
        'opts': {'show_conditions': rng.random() < 0.5, 'show_auto': rng.random() < 0.3,
                 'show_attrs': rng.random() < 0.4, 'auto_transitions': rng.random() < 0.7},
        'states': states,
        'transitions': [_gen_trans(rng, names, tops=tops) for _ in range(rng.randint(1, 6))],
        'initial': rng.choice(tops),
        'conds': {c: rng.random() < 0.8 for c in CONDS},
        'n_models': rng.choice([1, 1, 2]),
        'queued': rng.random() < 0.25,
        'locked': rng.random() < 0.15,
        'async': False,
        'model_attr': 'custom' if rng.random() < 0.35 else 'default',
        'own_state': rng.random() < 0.5,       # with a custom attribute: the model carries an unrelated `state`
        'retrig': {},
        'ops': [],
    }
    if rng.random() < 0.14:
        # AsyncGraphMachine / HierarchicalAsyncGraphMachine; callbacks stay plain functions, events are awaited one at a
        # time, no callbacks that fire events or change the machine (C07/C08 cover async re-entrancy)
        case['async'] = True
        case['locked'] = False
    if not case['enum'] and not case['async'] and rng.random() < 0.4:
        # callbacks that fire a further event on the same model: on_enter of states, `after` of transitions
        # (on_exit is left out: an event fired while the source is being left makes the engine itself move the
        # model twice, see Props/C16.lean `Settled`)
        index = []

        def collect(sts):
            for st in sts:
                index.append(st)
                collect(st['children'])
        collect(states)
        for cb in rng.sample(RETRIG, rng.randint(1, 2)):
            case['retrig'][cb] = rng.choice(TRIGGERS)
            if rng.random() < 0.7:
                rng.choice(index)['enter'].append(cb)
            else:
                rng.choice(case['transitions'])['after'] = [cb]
    case['modcb'] = None
    if not case['enum'] and not case['async'] and rng.random() < 0.1:
        # a state callback that adds a transition to the machine while a state change is in progress
        pool = []

        def collect2(sts):
            for st in sts:
                pool.append(st)
                collect2(st['children'])
        collect2(states)
        case['modcb'] = _gen_trans(rng, names, tops=tops)
        rng.choice(pool)['exit' if rng.random() < 0.6 else 'enter'].append(MODCB)
    if case['enum']:
        for s in states:
            s['label'] = None
            s['final'] = False
            s['enter'] = []
            s['exit'] = []
    fresh = 5
    n_ops = rng.randint(2, 9)
    cur_names = list(names)
    cur_tops = list(tops)
    known = list(case['transitions'])
    n_models = case['n_models']
    active = list(range(n_models))
    removed = []
    for _ in range(n_ops):
        r = rng.random()
        # models come and go on a machine that outlives them: remove_model, the same object re-attached (after
        # deleting its get_graph attribute, which graph machines require), fresh models allocated after removed ones
        # were dropped and collected (CPython readily reuses the address, hence the id() model_graphs is keyed by)
        if not case['enum'] and removed and (not active or rng.random() < 0.5):
            if rng.random() < 0.65:
                j = removed.pop(rng.randrange(len(removed)))
                case['ops'].append(['readd_model', j, rng.choice([None] + cur_tops)])
                active.append(j)
            else:
                removed.pop(0)          # the slot whose object is dropped
                case['ops'].append(['add_model', rng.choice([None] + cur_tops), 'recycle'])
                active.append(n_models)
                n_models += 1
            continue
        if not case['enum'] and active and rng.random() < 0.07:
            j = active.pop(rng.randrange(len(active)))
            case['ops'].append(['remove_model', j])
            removed.append(j)
            continue
        if not active:
            continue
        mi = rng.choice(active)
        if not case['enum'] and not case['async'] and rng.random() < 0.03:
            # a second machine built from this machine's markup, extended, and exported
            case['ops'].append(['clone_markup', rng.choice(cur_tops)])
            continue
        if rng.random() < 0.12:
            name = rng.choice(['show_auto', 'show_auto', 'show_conditions', 'show_attrs', 'title'])
            case['ops'].append(['set_option', name, rng.choice(['T1', 'T2']) if name == 'title' else rng.random() < 0.6])
            continue
        if not case['enum'] and rng.random() < 0.06:
            case['ops'].append(['add_callback', rng.choice(['on_enter', 'on_enter', 'on_exit']), rng.choice(cur_names),
                                rng.choice(CBS)])
            continue
        if not case['enum'] and n_models < 3 and rng.random() < 0.06:
            case['ops'].append(['add_model', rng.choice([None] + cur_tops)])
            active.append(n_models)
            n_models += 1
            continue
        if r < 0.72 or case['enum'] and r < 0.9:
            if case['opts']['auto_transitions'] and rng.random() < 0.3:
                ev = 'to_' + rng.choice(cur_names)
            else:
                ev = rng.choice(TRIGGERS)
            case['ops'].append(['trigger', mi, ev])
        elif r < 0.82:
            # add_states with a LIST: a compound definition or a joined 'parent_child' name first, plain states after
            items = []
            for k in range(rng.choice([1, 2, 2, 3])):
                if nested and rng.random() < (0.25 if k == 0 else 0.1):
                    items.append({'join': rng.choice(cur_tops), 'leaf': 's%d' % fresh})
                    cur_names.append(items[-1]['join'] + SEP + items[-1]['leaf'])
                else:
                    st = _gen_state(rng, 's%d' % fresh, 0 if (k == 0 and rng.random() < 0.6) else 2, nested)
                    items.append(st)
                    cur_names += rel_paths(st)
                    cur_tops.append(st['name'])
                fresh += 1
            case['ops'].append(['add_states', items])
        elif r < 0.92:
            t = _gen_trans(rng, cur_names, tops=cur_tops)
            case['ops'].append(['add_transition', t])
            known.append(t)
        else:
            t = rng.choice(known)
            src = t['source']
            if isinstance(src, list):
                src = rng.choice(src)
            if rng.random() < 0.4:
                case['ops'].append(['remove_transition', t['trigger'], '*', '*'])
            else:
                dest = t['dest']
                if dest == '=':
                    dest = src
                case['ops'].append(['remove_transition', t['trigger'], src, '*' if dest is None else dest])
    if case['async']:
        # AsyncTransition does not accept the `label` keyword of TransitionGraphSupport: no edge labels there
        def strip(ts):
            for t in ts:
                t['label'] = None

        def walk(sts):
            for st in sts:
                strip(st['transitions'])
                walk(st['children'])
        strip(case['transitions'])
        walk(case['states'])
        for op in case['ops']:
            if op[0] == 'add_transition':
                op[1]['label'] = None
            elif op[0] == 'add_states':
                walk([it for it in op[1] if 'join' not in it])
    return case


# ---------------------------------------------------------------------------------------------
# building and driving the real classes
# ---------------------------------------------------------------------------------------------

def flatten_state(state):
    if isinstance(state, (list, tuple, set)):
        out = []
        for s in state:
            out += flatten_state(s)
        return out
    return [path_of(state.name if hasattr(state, 'name') else state)]


_CLS_CACHE = {}


def machine_class(nested, locked=False, is_async=False):
    if (nested, locked, is_async) in _CLS_CACHE:
        return _CLS_CACHE[(nested, locked, is_async)]
    from transitions.extensions import (GraphMachine, HierarchicalGraphMachine, LockedGraphMachine,
                                        LockedHierarchicalGraphMachine, AsyncGraphMachine,
                                        HierarchicalAsyncGraphMachine)
    if is_async:
        base = HierarchicalAsyncGraphMachine if nested else AsyncGraphMachine
    else:
        base = ((LockedHierarchicalGraphMachine if locked else HierarchicalGraphMachine) if nested
                else (LockedGraphMachine if locked else GraphMachine))

    class LabelState(base.state_cls):
        def __init__(self, *args, **kwargs):
            self.label = kwargs.pop('label', None)
            super(LabelState, self).__init__(*args, **kwargs)

    class LabelMachine(base):
        state_cls = LabelState

    _CLS_CACHE[(nested, locked, is_async)] = LabelMachine
    return LabelMachine


def state_arg(st):
    d = {'name': st['name']}
    if st['label']:
        d['label'] = st['label']
    if st['final']:
        d['final'] = True
    if st['enter']:
        d['on_enter'] = list(st['enter'])
    if st['exit']:
        d['on_exit'] = list(st['exit'])
    if st['children']:
        if st['parallel']:
            d['parallel'] = [state_arg(c) for c in st['children']]
        else:
            d['children'] = [state_arg(c) for c in st['children']]
            if st['initial']:
                d['initial'] = st['initial']
        if st['transitions']:
            d['transitions'] = [trans_arg(t) for t in st['transitions']]
    return d


def trans_arg(t):
    d = {'trigger': t['trigger'], 'source': t['source'], 'dest': t['dest']}
    if t['label']:
        d['label'] = t['label']
    if t['conditions']:
        d['conditions'] = list(t['conditions'])
    if t['unless']:
        d['unless'] = list(t['unless'])
    if t.get('after'):
        d['after'] = list(t['after'])
    return d


class Run(object):
    """One case on the real classes: machine, models, per-model graph history."""

    def __init__(self, case):
        self.case = case
        self.nested = case['nested']
        self.states = copy.deepcopy(case['states'])       # current description of the state tree
        conds = case['conds']

        run = self
        self.attr = ATTR if case.get('model_attr') == 'custom' else 'state'
        attr = self.attr

        def _get(obj):
            return obj.__dict__['_machine_state']

        def _set(obj, value):
            # every assignment of the state attribute is recorded: the transition in progress (innermost) at that
            # moment is the last executed transition — independent of what the graph code was told
            obj.__dict__['_machine_state'] = value
            run._assigned(obj)
        body = {attr: property(_get, _set)}
        if attr != 'state' and case.get('own_state'):
            body['state'] = 'Texas'          # the model uses `state` for its own data
        for c in CONDS:
            body[c] = (lambda v: (lambda self, *a, **k: v))(conds[c])
        for c in CBS + RETRIG + [MODCB]:
            body[c] = lambda self, *a, **k: None
        for c, ev in case.get('retrig', {}).items():
            body[c] = (lambda e: (lambda self, *a, **k: run._retrigger(self, e)))(ev)
        if case.get('modcb'):
            body[MODCB] = lambda self, *a, **k: run._modify()
        self.model_cls = type('Model', (object,), body)
        globals()['Model'] = self.model_cls      # importable by name: MarkupMachine re-creates models from the markup
        self.models = []
        self.stack = {}
        self.budget = 0
        self.models = [self.model_cls() for _ in range(case['n_models'])]
        self.stack = {i: [] for i in range(len(self.models))}
        self.steps = {i: [] for i in range(len(self.models))}
        self.last_src = {i: None for i in range(len(self.models))}     # (scope prefix path, stored source path)
        self.wiped = {i: False for i in range(len(self.models))}       # graph regenerated since the last state change
        self.regen_mid = {i: False for i in range(len(self.models))}   # ... while a state change was in progress
        self.mod_used = False
        self.cloned = False       # a machine was built from this machine's markup and extended (open finding)
        self.removed = set()      # indices of models detached from the machine (slot None once the object is dropped)
        self.recycled = 0
        self.is_async = bool(case.get('async'))
        self.loop = None
        cls = machine_class(self.nested, bool(case.get('locked')) and not self.is_async, self.is_async)
        self.opts = dict(case['opts'])          # current display options (may be set later through the machine)
        o = case['opts']
        kw = dict(model=self.models, transitions=[trans_arg(t) for t in case['transitions']],
                  graph_engine='mermaid', show_conditions=o['show_conditions'],
                  show_auto_transitions=o['show_auto'], show_state_attributes=o['show_attrs'],
                  auto_transitions=o['auto_transitions'], ignore_invalid_triggers=True, send_event=True,
                  queued=bool(case.get('queued')), model_attribute=self.attr,
                  before_state_change=self._before, after_state_change=self._after)
        if case['enum']:
            en = enum.Enum('States', [s['name'] for s in case['states']])
            kw['states'] = en
            kw['initial'] = en[case['initial']]
        else:
            kw['states'] = [state_arg(s) for s in case['states']]
            kw['initial'] = case['initial']
        self.machine = cls(**kw)
        self.cur0 = {i: self.snapshot(m) for i, m in enumerate(self.models)}

    def state_of(self, model):
        return getattr(model, self.attr)

    def cur(self, mi):
        return flatten_state(self.state_of(self.models[mi]))

    def snapshot(self, model):
        """the attributes of the model object that hold or look like a state: [(attribute code, names)];
        0 = 'state', 1 = the custom attribute; an unrelated own `state` value is the unknown name [99]"""
        snap = []
        if self.attr == 'state':
            snap.append((0, flatten_state(model.state)))
        else:
            if hasattr(model, 'state'):
                snap.append((0, [(99,)]))
            snap.append((1, flatten_state(self.state_of(model))))
        return snap

    def _idx(self, model):
        return next(i for i, m in enumerate(self.models) if m is model)

    def _before(self, event_data):
        # machine-level before_state_change runs right before Transition._change_state (only the transition's own
        # `before` callbacks, which never fire events here, come in between): the graph's `begin`
        tr = event_data.transition
        pre = tuple(path_of(x)[0] for x in getattr(event_data.machine, 'prefix_path', []))
        i = self._idx(event_data.model)
        if not self.stack[i] and tr.dest is not None:
            self.regen_mid[i] = False       # a new top-level state change resets the styles of this model's graph
        self.stack[i].append((pre, tr.source, tr.dest))
        if tr.dest is not None:
            self.steps[i].append(('begin', pre, path_of(tr.source), path_of(tr.dest)))

    def _after(self, event_data):
        # recorded after the transition's `after` callbacks; events those fire are complete transitions that reset
        # the styles themselves, and `cur` is read now, so the resulting styles are those of the true order
        i = self._idx(event_data.model)
        pre, src, dst = self.stack[i].pop()
        if dst is not None:
            self.steps[i].append(('finish', self.snapshot(event_data.model)))

    def _assigned(self, model):
        if model not in self.models:
            return
        i = self._idx(model)
        if self.stack.get(i):
            pre, src, dst = self.stack[i][-1]
            if dst is not None:
                self.last_src[i] = (pre, path_of(src))
                self.wiped[i] = False

    def _modify(self):
        """a state callback that adds a transition to the machine (once per case), from the root scope"""
        if self.mod_used:
            return
        self.mod_used = True
        if self.nested:
            with self.machine():
                self.machine.add_transition(**trans_arg(self.case['modcb']))
        else:
            self.machine.add_transition(**trans_arg(self.case['modcb']))
        self.regen_all()

    def _retrigger(self, model, ev):
        if self.budget > 0:
            self.budget -= 1
            model.trigger(ev)

    def shares_markup(self):
        """the open finding's structural condition: a machine built from this machine's markup holds the very same
        dict (and has rewritten it with its own content)"""
        return bool(self.cloned and getattr(self.clone, '_markup', None) is self.machine._markup)

    def close(self):
        if self.loop is not None:
            self.loop.close()
            self.loop = None

    def regen_all(self):
        for i, m in enumerate(self.models):
            if i in self.removed:        # the machine regenerates the graphs of its registered models only
                continue
            self.steps[i].append(('regen', self.snapshot(m)))
            # a regeneration wipes the `previous` style: the last source MAY no longer carry it (never another state)
            self.wiped[i] = True
            self.regen_mid[i] = bool(self.stack.get(i))

    def apply(self, op):
        """returns None, or a string when the engine itself failed (the history stops there)"""
        kind = op[0]
        try:
            if kind in ('remove_model', 'readd_model', 'trigger') and \
                    (op[1] >= len(self.models) or (op[1] in self.removed) != (kind == 'readd_model')):
                return 'invalid operation (artefact of shrinking)'
            if kind == 'trigger':
                # ignore_invalid_triggers=True: unknown / invalid triggers return False; anything raised here
                # comes from the engine in mid-transition (other properties) and ends the history
                self.budget = 3
                for st in self.stack.values():
                    del st[:]
                ev = op[2]
                if ev.startswith('to_') and self.attr != 'state':
                    ev = 'to_%s_%s' % (self.attr, ev[3:])
                if self.is_async:
                    # asynchronous graph classes: events are awaited one at a time
                    import asyncio
                    if self.loop is None:
                        self.loop = asyncio.new_event_loop()
                    res = self.models[op[1]].trigger(ev)      # an unknown event name is refused synchronously
                    if hasattr(res, '__await__'):
                        self.loop.run_until_complete(res)
                else:
                    self.models[op[1]].trigger(ev)
            elif kind == 'clone_markup':
                clone = type(self.machine)(markup=self.machine.markup, graph_engine='mermaid')
                clone.add_states('s98')
                clone.add_transition('e9', op[1], 's98')
                _ = clone.markup                  # e.g. to export the extended machine
                self.cloned = True
                self.clone = clone
            elif kind == 'set_option':
                # display options are plain / documented attributes of the machine; nothing regenerates the graphs
                name, value = op[1], op[2]
                if name == 'show_auto':
                    self.machine.auto_transitions_markup = value
                elif name == 'show_conditions':
                    self.machine.show_conditions = value
                elif name == 'show_attrs':
                    self.machine.show_state_attributes = value
                elif name == 'title':
                    self.machine.title = value
                if name in self.opts:
                    self.opts[name] = value
            elif kind == 'add_callback':
                # machine.on_enter_<state>(callback) registered later; shown when state attributes are
                getattr(self.machine, '%s_%s' % (op[1], op[2]))(op[3])
                st = desc_index(self.states)[path_of(op[2])][0]
                st['enter' if op[1] == 'on_enter' else 'exit'].append(op[3])
            elif kind == 'remove_model':
                self.machine.remove_model(self.models[op[1]])
                self.removed.add(op[1])
            elif kind == 'readd_model':
                m = self.models[op[1]]
                del m.get_graph                     # the machine refuses to bind get_graph twice
                self.machine.add_model(m, initial=op[2])
                self.removed.discard(op[1])
                del self.stack[op[1]][:]
                # add_model creates the model's graph anew: a regeneration for the state it was given
                self.steps[op[1]].append(('regen', self.snapshot(m)))
                self.last_src[op[1]] = None
                self.wiped[op[1]] = self.regen_mid[op[1]] = False
            elif kind == 'add_model':
                m = None
                if len(op) > 2 and op[2] == 'recycle' and self.removed:
                    # drop a removed model, collect it, and allocate models until one lands on its address (bounded)
                    import gc
                    j = min(k for k in self.removed if self.models[k] is not None) \
                        if any(self.models[k] is not None for k in self.removed) else None
                    if j is not None:
                        old_id = id(self.models[j])
                        self.models[j] = None
                        gc.collect()
                        keep = []
                        for _ in range(3000):
                            cand = self.model_cls()
                            if id(cand) == old_id:
                                m = cand
                                self.recycled += 1
                                break
                            keep.append(cand)
                        del keep
                if m is None:
                    m = self.model_cls()
                i = len(self.models)
                self.stack[i] = []
                self.steps[i] = []
                self.last_src[i] = None
                self.wiped[i] = self.regen_mid[i] = False
                self.models.append(m)
                self.machine.add_model(m, initial=op[1])
                self.cur0[i] = self.snapshot(m)
            elif kind == 'add_states':
                args = []
                for it in op[1]:
                    if 'join' in it:
                        args.append(it['join'] + SEP + it['leaf'])
                    else:
                        a = state_arg(it)
                        args.append(a['name'] if list(a) == ['name'] else a)
                self.machine.add_states(args)
                for it in op[1]:
                    if 'join' in it:
                        parent = next(s for s in self.states if s['name'] == it['join'])
                        parent['children'].append({'name': it['leaf'], 'label': None, 'final': False, 'enter': [],
                                                   'exit': [], 'initial': None, 'parallel': False, 'children': [],
                                                   'transitions': []})
                    else:
                        self.states.append(copy.deepcopy(it))
                self.regen_all()
            elif kind == 'add_state':
                self.machine.add_states(state_arg(op[1]))
                self.states.append(copy.deepcopy(op[1]))
                self.regen_all()
            elif kind == 'add_transition':
                self.machine.add_transition(**trans_arg(op[1]))
                self.regen_all()
            elif kind == 'remove_transition':
                try:
                    self.machine.remove_transition(op[1], op[2], op[3])
                except (KeyError, ValueError, AttributeError):
                    return 'remove_transition refused'
                self.regen_all()
        except Exception as e:      # engine trouble is other properties' business; stop the history here
            return '%s: %s' % (type(e).__name__, e)
        return None

    # -- the machine's transition table, read from the live event objects ----------------------
    def live_transitions(self):
        """[(scope prefix path, trigger, Transition)] over all scopes"""
        out = []
        mach = self.machine

        def walk(pre):
            for ev in list(mach.events.values()):
                for _src, ts in ev.transitions.items():
                    for t in ts:
                        out.append((pre, ev.name, t))
            if self.nested:
                for name, st in list(mach.states.items()):
                    if getattr(st, 'states', None):
                        with mach(name):
                            walk(pre + path_of(name))
        walk(())
        return out

    def table(self):
        """shown transitions as dicts with global names; auto transitions only when shown"""
        rows = []
        for pre, trig, t in self.live_transitions():
            auto = trig.startswith('to_')
            if auto and not self.opts['show_auto']:
                continue
            rows.append({
                'pre': pre, 'trigger': trig, 'label': getattr(t, 'label', None) or None,
                'src': path_of(t.source), 'dst': None if t.dest is None else path_of(t.dest),
                'conds': tuple(num('c', c.func) for c in t.conditions if c.target),
                'unless': tuple(num('c', c.func) for c in t.conditions if not c.target),
                'auto': auto})
        return rows


# ---------------------------------------------------------------------------------------------
# protocol encoding (mirror of Handlers/HC16.lean)
# ---------------------------------------------------------------------------------------------

def enc_list(xs, f):
    out = [len(xs)]
    for x in xs:
        out += f(x)
    return out


def enc_nats(xs):
    return [len(xs)] + list(xs)


def enc_opt(x, f):
    return [0] if x is None else [1] + f(x)


def enc_row(r):
    return (enc_nats(text_tokens(r['trigger'])) + enc_opt(r['label'], lambda l: enc_nats(text_tokens(l)))
            + enc_nats(r['src']) + enc_opt(r['dst'], enc_nats) + enc_nats(r['conds']) + enc_nats(r['unless']))


def enc_state(st, pre, rows):
    me = pre + path_of(st['name'])
    init = [2] if (st['children'] and st['parallel']) else ([1, num('s', st['initial'])] if st['initial'] else [0])
    return ([me[-1]] + enc_opt(st['label'], lambda l: enc_nats(text_tokens(l))) + [int(st['final'])]
            + enc_nats([num('cb', c) for c in st['enter']]) + enc_nats([num('cb', c) for c in st['exit']])
            + init + [int(bool(st['children']))]
            + enc_list(st['children'], lambda c: enc_state(c, me, rows))
            + enc_list([r for r in rows if r['pre'] == me], enc_row))


def enc_obj(snap):
    return enc_list(snap, lambda av: [av[0]] + enc_list(av[1], enc_nats))


def enc_step(s):
    if s[0] == 'begin':
        return [0] + enc_nats(s[1]) + enc_nats(s[2]) + enc_nats(s[3])
    if s[0] == 'finish':
        return [1] + enc_obj(s[1])
    return [2] + enc_obj(s[1])


def enc_request(run, mi, roi):
    o = run.opts
    rows = run.table()
    req = [int(run.nested), int(o['show_conditions']), int(o['show_attrs']), 0 if run.attr == 'state' else 1]
    req += enc_list(run.states, lambda s: enc_state(s, (), rows))
    req += enc_list([r for r in rows if r['pre'] == ()], enc_row)
    req += enc_opt(path_of(run.case['initial']), enc_nats)
    req += enc_obj(run.cur0[mi])
    req += enc_list(run.steps[mi], enc_step)
    req += enc_opt(run.snapshot(run.models[mi]) if roi else None, enc_obj)
    return req


class _Reader(object):
    def __init__(self, nums):
        self.n = nums
        self.i = 0

    def nat(self):
        v = self.n[self.i]
        self.i += 1
        return v

    def nats(self):
        k = self.nat()
        v = tuple(self.n[self.i:self.i + k])
        self.i += k
        return v

    def opt(self, f):
        return f() if self.nat() else None

    def lst(self, f):
        return [f() for _ in range(self.nat())]


def decode_diagram(ans):
    """driver answer `D …` -> canonical form (same shape as Parsed.canon())"""
    r = _Reader([int(x) for x in ans.split()[1:]])

    def node():
        name = r.nats()
        label = (r.nats(), r.nats(), r.nats())
        final = bool(r.nat())
        cls = r.opt(r.nat)
        block = bool(r.nat())
        init = r.opt(r.nats)
        par = bool(r.nat())
        kids = r.lst(node)
        regs = [(k,) for k in kids] if par else ([tuple(sorted(kids, key=repr))] if kids else [])
        return (name, label, final, cls, block, init, tuple(sorted(regs, key=repr)))

    def label():
        return (r.nats(), bool(r.nat()), r.nats(), r.nats())

    def edge():
        return (r.nats(), r.nats(), tuple(sorted(r.lst(label), key=repr)))

    nodes = tuple(sorted(r.lst(node), key=repr))
    edges = tuple(sorted(r.lst(edge), key=repr))
    root = r.opt(r.nats)
    if r.i != len(r.n):
        raise common.MachineryError('trailing tokens in driver answer')
    return (nodes, edges, root)


# ---------------------------------------------------------------------------------------------
# the oracle: the clauses of C16 stated directly on the parsed diagram and the live machine
# ---------------------------------------------------------------------------------------------

def desc_index(states, pre=()):
    """{path: (state description, parent path or None)}"""
    out = {}
    for s in states:
        me = pre + path_of(s['name'])
        out[me] = (s, pre if pre else None)
        out.update(desc_index(s['children'], me))
    return out


def closure(cur):
    out = set()
    for p in cur:
        for k in range(1, len(p) + 1):
            out.add(tuple(p[:k]))
    return out


def expected_labels(rows, show_conditions):
    """{(src, dst): sorted list of label items} for the shown transitions"""
    out = {}
    for r in rows:
        gsrc = r['pre'] + r['src']
        gdst = gsrc if r['dst'] is None else r['pre'] + r['dst']
        item = (text_tokens(r['label'] or r['trigger']), r['dst'] is None,
                r['conds'] if show_conditions else (), r['unless'] if show_conditions else ())
        out.setdefault((gsrc, gdst), []).append(item)
    return {k: sorted(v) for k, v in out.items()}


SIG_CLONE = 'C16.markup.shared-with-machine-built-from-it'


def oracle_full(run, mi, d):
    """clauses on the full diagram `d` (Parsed) of model `mi`; returns [(what, details, signature)]"""
    fails = []
    idx = desc_index(run.states)
    if run.shares_markup() and any(n.name == (98,) for n, _ in d.all) and (98,) not in idx:
        # open finding: MarkupMachine(markup=other.markup) keeps the other machine's dict; the state added to the
        # second machine shows up here. Nothing else can be judged on this diagram.
        return [('foreign-state', {'state': 's98'}, SIG_CLONE)]
    # -- every state declared exactly once, children inside their parents, regions separated
    declared = [n.name for n, _ in d.all]
    if sorted(declared) != sorted(idx):
        fails.append(('states-once', {'declared': sorted(map(name_of, declared)),
                                      'expected': sorted(map(name_of, idx))}, 'C16.states-once'))
    for n, parent in d.all:
        want = idx.get(n.name, (None, None))[1]
        if (parent.name if parent is not None else None) != want and n.name in idx:
            fails.append(('nesting', {'state': name_of(n.name), 'declared_in': parent and name_of(parent.name)},
                          'C16.nesting'))
    for n, _ in d.all:
        st = idx.get(n.name, (None, None))[0]
        if st is None:
            continue
        kids = len(st['children'])
        regs = [r for r in n.regions if r]
        if kids and not n.block:
            fails.append(('nesting', {'state': name_of(n.name), 'why': 'compound state without block'}, 'C16.nesting'))
        if kids and st['parallel'] and (len(regs) != kids or any(len(r) != 1 for r in regs)):
            fails.append(('regions', {'state': name_of(n.name), 'regions': [[name_of(x.name) for x in r] for r in regs]},
                          'C16.regions'))
        if kids and not st['parallel'] and len(regs) > 1:
            fails.append(('regions', {'state': name_of(n.name), 'why': 'separator in a non-parallel state'}, 'C16.regions'))
        # -- final states and initial substates are marked
        if bool(st['final']) != n.final:
            fails.append(('final-marker', {'state': name_of(n.name), 'final': st['final'], 'marked': n.final},
                          'C16.final'))
        want_init = (n.name + path_of(st['initial'])) if (kids and st['initial'] and not st['parallel']) else None
        if n.init != want_init:
            fails.append(('initial-marker', {'state': name_of(n.name), 'marked': n.init and name_of(n.init),
                                             'expected': want_init and name_of(want_init)}, 'C16.initial'))
    if d.root_init != path_of(run.case['initial']):
        fails.append(('initial-marker', {'root': d.root_init and name_of(d.root_init)}, 'C16.initial'))
    # -- edges <-> transitions of the live machine
    fails += oracle_edges(run, d, expected_labels(run.table(), run.opts['show_conditions']), exact=True)
    # -- activity
    fails += oracle_activity(run, mi, d)
    return fails


def oracle_edges(run, d, exp, exact):
    fails = []
    seen = {}
    for s, t, ls in d.edges:
        if (s, t) in seen:
            fails.append(('edge-duplicate', {'edge': [name_of(s), name_of(t)]}, 'C16.edges.duplicate'))
        seen.setdefault((s, t), []).extend(l for l in ls if l != ((), False, (), ()))
    for k, items in exp.items():
        got = sorted(seen.get(k, []))
        if got != items:
            fails.append(('edge-label', {'edge': [name_of(k[0]), name_of(k[1])], 'labels': got, 'expected': items},
                          'C16.edges.label'))
    if exact:
        for k, got in seen.items():
            if k not in exp and got:
                fails.append(('edge-unexpected', {'edge': [name_of(k[0]), name_of(k[1])], 'labels': sorted(got)},
                              'C16.edges.unexpected'))
    return fails


SIG_REGEN_MID = 'C16.activity.graph-regenerated-during-state-change'


def oracle_activity(run, mi, d):
    fails = []
    cur = set(run.cur(mi))
    allowed_active = closure(cur)
    last = run.last_src[mi]
    last_global = (last[0] + last[1]) if last else None
    # open finding: a callback regenerated the graph while this model's state change was in progress; the new graph
    # was styled for the state of that moment (the source) and keeps it next to the destination, `previous` is lost
    mid = run.regen_mid[mi]
    for n, parent in d.all:
        if n.cls == 1 and n.name not in allowed_active:
            fails.append(('active-style', {'state': name_of(n.name), 'current': sorted(map(name_of, cur))},
                          SIG_REGEN_MID if (mid and n.name == last_global) else 'C16.active.other'))
        if n.cls == 2 and n.name != last_global:
            fails.append(('previous-style', {'state': name_of(n.name),
                                             'last_source': last_global and name_of(last_global)},
                          'C16.previous.other'))
        if isinstance(n.cls, tuple):
            fails.append(('style-class', {'state': name_of(n.name), 'class': n.cls[1]}, 'C16.style.unknown'))
        if parent is None:      # top-level states are the ones the Mermaid backend is able to style
            if n.name in cur and n.cls != 1:
                fails.append(('active-missing', {'state': name_of(n.name), 'class': n.cls}, 'C16.active.missing'))
            elif n.name == last_global and n.name not in cur and n.cls != 2 and not run.wiped[mi]:
                fails.append(('previous-missing', {'state': name_of(n.name), 'class': n.cls},
                              SIG_REGEN_MID if mid else 'C16.previous.missing'))
    return fails


def oracle_roi(run, mi, d):
    """`d`: Parsed ROI view"""
    fails = []
    idx = desc_index(run.states)
    cur = closure(run.cur(mi))
    declared = set(n.name for n, _ in d.all)
    miss = sorted(name_of(p) for p in cur if p in idx and p not in declared)
    if miss:
        fails.append(('roi-active-missing', {'missing': miss}, 'C16.roi.active'))
    rows = [r for r in run.table() if (r['pre'] + r['src']) in cur]
    exp = expected_labels(rows, run.opts['show_conditions'])
    for w, det, sig in oracle_edges(run, d, exp, exact=False):
        fails.append(('roi-' + w, det, sig.replace('C16.edges', 'C16.roi.edges')))
    for (s, t) in exp:
        if t in idx and t not in declared:
            fails.append(('roi-target-missing', {'edge': [name_of(s), name_of(t)]}, 'C16.roi.target'))
    return fails
