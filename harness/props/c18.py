"""C18 — on_final fires exactly when a state - or a whole compound - becomes final.

Nested part (nesting.py `_final_check`, sync + async): generated and exhaustively enumerated state
trees with arbitrary final flags and on_final recorders on every state and on the machine are driven
on the real `HierarchicalMachine` / `HierarchicalAsyncMachine`; every executed transition is observed
as a segment (entered set E, configuration afterwards, on_enter / on_final / after recorder calls).

  * monitor: the `fires` spec (DESIGN 4/C18) recomputed from the OBSERVED configuration and E — the
    Python statement in harness/nfinal.py, cross-checked against the compiled Lean spec
    `Final.expected` on every segment — judges multiplicity (once), absence (no other on_final call,
    also none outside a transition), order (children before parents, machine last) and position (after
    on_enter, before the after callbacks);
  * correspondence: the Lean transcription of `_final_check` (Model/Final.lean, the code after the
    fixes 919a36b / 576f1fd) on the same observed (configuration, E) must schedule exactly the callbacks
    the implementation ran, in the same order, and never raise.

Flat part (core.py / asyncio.py `_change_state`): flat descriptions of harness/flat.py on `Machine` and
`AsyncMachine`; monitor = `FlatFinalEvent` stated in Python on every event; correspondence = the Lean
flat engine under the C18 observation map (calls in the slots on_enter / on_final / after, api, ret).
"""
import copy
import glob
import hashlib
import json
import os
import random
import signal
import time

from .. import aflat, common, flat, nfinal, runner
from ..common import SLOT
from ..runner import Exploration, Failure

WATCH = (SLOT['on_enter'], SLOT['on_final'], SLOT['after'])


class Hang(Exception):
    pass


def _alarm(_sig, _frm):
    raise Hang()


class watchdog(object):
    """never let a hang stall a check: generous, the sandbox is often heavily loaded"""

    def __init__(self, seconds=180):
        self.seconds = seconds

    def __enter__(self):
        self.old = signal.signal(signal.SIGALRM, _alarm)
        signal.setitimer(signal.ITIMER_REAL, self.seconds)

    def __exit__(self, *a):
        signal.setitimer(signal.ITIMER_REAL, 0)
        signal.signal(signal.SIGALRM, self.old)
        return False


def bump(st, key, val, n=1):
    h = st.setdefault(key, {})
    h[str(val)] = h.get(str(val), 0) + n


# ---------------------------------------------------------------------------------------------
# nested: judging one run
# ---------------------------------------------------------------------------------------------

class Pending(object):
    __slots__ = ('d', 'finals', 'idx', 'sg', 'probs', 'info', 'entry', 'case')


def collect(d, finals, log, case, ex, pend, fails):
    """phase 1: parse the implementation's log into segments and judge them with the Python oracle"""
    for idx, ent in enumerate(log):
        if ent['out'][0] == 'hang':
            fails.append(Failure('monitor', 'hang', case, {'event': idx}, signature='C18.hang'))
            continue
        bump(ex.stats, 'event_outcome', ent['out'][0] + (':' + ent['out'][1] if ent['out'][0] == 'raised' else ':' + str(ent['out'][1])))
        segs, stray = nfinal.segments(ent['items'])
        if any(it[0] == 'final' for it in stray):
            fails.append(Failure('monitor', 'on_final-outside-a-transition', case,
                                 {'event': idx, 'cmd': ent['cmd'], 'stray': [list(map(str, it[:3])) for it in stray]},
                                 signature='C18.monitor.stray'))
        bump(ex.stats, 'transitions_per_event', min(len(segs), 4))
        for sg in segs:
            probs, info = nfinal.judge_segment(d, finals, sg)
            if info is None:
                if probs:
                    fails.append(Failure('monitor', 'on_final-without-configuration', case, {'event': idx}, signature='C18.monitor'))
                continue
            p = Pending()
            p.d, p.finals, p.idx, p.sg, p.probs, p.info, p.entry, p.case = d, finals, idx, sg, probs, info, ent, case
            pend.append(p)


def describe(p, ans=None):
    out = {'event': p.idx, 'cmd': p.entry['cmd'], 'outcome': list(p.entry['out']),
           'configuration': nfinal.thaw(p.sg.config()) if p.sg.config() is not None else None,
           'entered': p.info['E'], 'final_flags': [i for i, f in enumerate(p.finals) if f],
           'spec_owners': p.info['want'], 'observed_on_final': [list(x) for x in p.info['got']],
           'problems': p.probs, 'transition_completed': p.sg.closed}
    if ans is not None:
        out['lean_spec'] = [o - 1 for o in ans['spec'][0]]
        out['lean_code_model'] = 'AttributeError' if ans['code'] is None else [o - 1 for o in ans['code'][0]]
        out['hypotheses'] = {'enteredWF': ans['wf']}
        out['machine_has_attribute_final'] = p.d.machine_final_attr()
    return out


def attr_error(p):
    o = p.entry['out']
    return (not p.sg.closed) and o[0] == 'raised' and o[1] == 'AttributeError' and 'scoped_enter' in o[2]


def other_exception(p):
    return (not p.sg.closed) and not attr_error(p)


def settle(pend, ex, fails, keep=3):
    """phase 2: the Lean spec and code model on every observed (configuration, E)"""
    if not pend:
        return
    ans = [nfinal.parse_answer(a) for a in
           common.batch_driver([nfinal.request(p.d, p.info['roots'], p.info['E'], p.finals) for p in pend])]
    kept = {}
    for p, a in zip(pend, ans):
        ex.traces_validated += 1
        bump(ex.stats, 'entered_states', min(len(p.info['E']), 6))
        bump(ex.stats, 'owners_firing', min(len(p.info['want']), 6))
        if -1 in p.info['want']:
            bump(ex.stats, 'features', 'machine_fires')
        if len(p.info['want']) >= 2:
            bump(ex.stats, 'features', 'propagates_to_ancestor')
        if p.info['want'] and len(p.info['roots']) == 1 and len(p.info['E']) == 1 and len(nfinal.ancestors_in(p.info['roots'])) > 3:
            bump(ex.stats, 'features', 'single_state_entered_in_larger_configuration')
        if len(p.info['E']) >= 2:
            bump(ex.stats, 'features', 'several_states_entered_at_once')
        exits = set(it[1] for it in p.sg.items if it[0] == 'exit')
        if any(p.finals[i] and i in exits for i in p.info['E']):
            bump(ex.stats, 'features', 'final_state_re_entered')
        if one_region_changed(p.info['roots'], set(p.info['E'])):
            bump(ex.stats, 'features', 'only_one_parallel_region_changed')
        if any(it[0] == 'final_end' for it in p.sg.items):
            bump(ex.stats, 'features', 'coroutine_on_final_completed')
        if any(p.finals[i] and nfinal_has_kids(p.info['roots'], i) for i in p.info['E']):
            bump(ex.stats, 'features', 'final_flagged_state_entered_with_active_children')
        if not a['wf']:
            bump(ex.stats, 'features', 'entered_set_not_wf')
        if not a['nodup']:
            bump(ex.stats, 'features', 'configuration_with_duplicate_ids')
        # the two statements of the spec must agree (machinery, not a verdict about the code)
        if [o - 1 for o in a['spec'][0]] != p.info['want']:
            raise common.MachineryError('Python and Lean statements of the fires spec disagree: %r' % describe(p, a))
        if other_exception(p):
            bump(ex.stats, 'features', 'transition_aborted_by_other_exception:' + p.entry['out'][1])
            kinds = [it[0] for it in p.sg.items]
            if p.entry['out'][0] == 'raised' and 'enter' in kinds and 'after' not in kinds and 'exit' not in kinds[kinds.index('enter'):]:
                # every on_enter callback of the transition has run and nothing of a later stage: the exception comes
                # out of the final check / an on_final callback list (recorders never raise)
                sig = 'C18.monitor.final-stage-raises'
                bump(ex.stats, 'monitor_rejections', sig)
                kept[sig] = kept.get(sig, 0) + 1
                if kept[sig] <= keep:
                    p.probs = p.probs + ['an exception is raised in the on_final stage: %s %s' % tuple(p.entry['out'][1:3])]
                    fails.append(Failure('monitor', 'fires-spec', p.case, describe(p, a), signature=sig))
            continue
        # correspondence: the transcription of _final_check vs the implementation
        got_cbs = [c for _o, c in p.info['got']]
        if a['code'] is None:
            same = attr_error(p) and not got_cbs
        else:
            same = p.sg.closed and a['code'][1] == got_cbs
        if not same:
            k = ('correspondence', 'final_check_eq')
            kept[k] = kept.get(k, 0) + 1
            if kept[k] <= keep:
                fails.append(Failure('correspondence', 'final_check_eq', p.case, describe(p, a)))
        # monitor
        if attr_error(p):
            p.probs = p.probs + ['the final check raises AttributeError (machine.scoped_enter) after the state change']
        if p.probs:
            pos_only = all(('runs after' in x or 'not between' in x or 'configuration changes' in x) for x in p.probs)
            sig = 'C18.monitor.position' if pos_only else ('C18.monitor.raises' if attr_error(p) else 'C18.monitor')
            bump(ex.stats, 'monitor_rejections', sig)
            kept[sig] = kept.get(sig, 0) + 1
            if kept[sig] <= keep:
                fails.append(Failure('monitor', 'fires-spec', p.case, describe(p, a), signature=sig))


def nfinal_has_kids(roots, i):
    for t in roots:
        if t[0] == i:
            return bool(t[1])
        if nfinal_has_kids(t[1], i):
            return True
    return False


def one_region_changed(roots, E):
    """some state with >= 2 active children has all entered states below exactly one of them"""
    def ids(t):
        out = {t[0]}
        for k in t[1]:
            out |= ids(k)
        return out

    def walk(t):
        if len(t[1]) >= 2 and E and sum(1 for k in t[1] if E & ids(k)) == 1 and t[0] not in E:
            return True
        return any(walk(k) for k in t[1])
    return any(walk(t) for t in roots)


def nontrivial_key(d, finals, info):
    return hashlib.sha1(repr((finals, info['roots'], sorted(info['E']))).encode()).hexdigest()[:14]


def run_nested(case, ex, pend, fails):
    """phase 1 for one case on a fresh machine"""
    d = nfinal.NDesc.from_json(case['desc'])
    finals = [bool(n['final']) for n in d.nodes]
    try:
        with watchdog():
            run = nfinal.NRun(d).run()
    except Hang:
        fails.append(Failure('monitor', 'hang', case, {}, signature='C18.hang'))
        return d
    registration_failures(run, case, fails)
    collect(d, finals, run.log, case, ex, pend, fails)
    return d


def registration_failures(run, case, fails):
    if run.reg_errors:
        fails.append(Failure('monitor', 'on_final-registration-rejected', case,
                             {'rejected': run.reg_errors[:4], 'machine_class': run.machine_cls().__mro__[1].__name__,
                              'features': run.d.features},
                             signature='C18.monitor.registration'))


def judge_nested_case(case, ex=None):
    """run one nested case (fresh machine) and judge it; returns failures"""
    ex = ex or Exploration()
    fails, pend = [], []
    d = run_nested(case, ex, pend, fails)
    settle(pend, ex, fails)
    for p in pend:
        if p.info['want']:
            ex.nontrivial.add(nontrivial_key(d, p.finals, p.info))
    return fails


def chunk_nested(seed, idx, n, deadline, embedded=False):
    rng = random.Random('C18/nested/%d/%d/%d' % (seed, idx, int(embedded)))
    ex = Exploration()
    kn = nfinal.Knobs()
    fails, pend = [], []
    for k in range(n):
        if k >= 8 and time.time() > deadline:
            bump(ex.stats, 'cases_not_run_after_deadline', 'nested', n - k)
            break
        if embedded:
            d = nfinal.gen_embedded(rng, kind=(k + idx) % 2)
            bump(ex.stats, 'features', 'child_machine_embedded_under_several_states')
        else:
            d = nfinal.gen_desc(rng, kn, kind=(k + idx) % 2)
        case = {'part': 'nested', 'desc': d.to_json()}
        ex.evaluations += 1
        bump(ex.stats, 'class', 'HierarchicalAsyncMachine' if d.kind else 'HierarchicalMachine')
        bump(ex.stats, 'n_states', len(d.nodes))
        bump(ex.stats, 'tree_depth', max(d.depth(i) for i in range(len(d.nodes))) + 1)
        run_nested(case, ex, pend, fails)
        if len(ex.samples) < 1 and k == 3:
            ex.samples.append({'part': 'nested', 'states': len(d.nodes), 'history': [list(h) for h in d.history],
                               'final_flags': [i for i, nd in enumerate(d.nodes) if nd['final']]})
    settle(pend, ex, fails)       # one driver batch per chunk
    for p in pend:
        if p.info['want']:
            ex.nontrivial.add(nontrivial_key(p.d, p.finals, p.info))
    ex.failures += fails
    return ex


# ---------------------------------------------------------------------------------------------
# nested: exhaustive small scope
# ---------------------------------------------------------------------------------------------

def placements(n):
    for bits in range(2 ** n):
        yield [bool(bits >> i & 1) for i in range(n)]


def chunk_small(n, lo, hi, kind, deadline, hard, stride):
    """shapes lo..hi-1 (in enumeration order) with n states: every final-flag placement (every
    `stride`-th once `deadline` has passed; the shape is skipped after `hard`) x the single-transition
    history, on ONE machine per shape (flags are re-placed through the public `State.final` attribute, the
    model is put back to the initial configuration)"""
    ex = Exploration()
    shapes = list(nfinal.small_shapes(n))[lo:hi]
    for nodes, roots in shapes:
        if time.time() > hard:
            bump(ex.stats, 'small_scope_shapes_skipped_after_hard_deadline', n)
            continue
        bump(ex.stats, 'small_scope_shapes_done', n)
        d = nfinal.small_desc(nodes, roots, kind)
        try:
            with watchdog(600):
                run = nfinal.NRun(d)
                start = copy.deepcopy(getattr(run.model, 'state'))
                fails, pend = [], []
                registration_failures(run, {'part': 'nested', 'desc': d.to_json()}, fails)
                late = time.time() > deadline
                for pi, finals in enumerate(placements(n)):
                    if late and pi % stride:
                        bump(ex.stats, 'small_scope_placements_skipped_after_deadline', n)
                        continue
                    run.set_flags(finals)
                    setattr(run.model, 'state', copy.deepcopy(start))
                    run.log = []
                    run.run()
                    dj = d.to_json()
                    for i, f in enumerate(finals):
                        dj['nodes'][i] = dict(dj['nodes'][i], final=f)
                    case = {'part': 'nested', 'desc': dj}
                    collect(d, finals, run.log, case, ex, pend, fails)
                    ex.evaluations += 1
                    bump(ex.stats, 'small_scope_placements_done', n)
                settle(pend, ex, fails)
                for p in pend:
                    if p.info['want']:
                        ex.nontrivial.add(nontrivial_key(d, p.finals, p.info))
                ex.failures += fails
        except Hang:
            ex.failures.append(Failure('monitor', 'hang', {'part': 'nested', 'desc': d.to_json()}, {}, signature='C18.hang'))
    return ex


# ---------------------------------------------------------------------------------------------
# flat machines
# ---------------------------------------------------------------------------------------------

def flat_knobs():
    return flat.Knobs(max_models=2, p_unknown_event=0.0, max_history=8, max_states=4, max_events=3)


def flat_prepare(d, rng):
    # visibility marker: a finalize callback that runs at the end of every event and sees the state afterwards
    if not d.finalize:
        c = max(list(d.cb_slot) + [-1]) + 1
        d.cb_slot[c] = SLOT['finalize_event']
        d.finalize = [c]
    # final states matter here: raise their share
    for s in d.states:
        if rng.random() < 0.35:
            s['final'] = True
    if not d.on_final or rng.random() < 0.5:
        c = max(list(d.cb_slot) + [-1]) + 1
        n = rng.randint(1, 2)
        for k in range(n):
            d.cb_slot[c + k] = SLOT['on_final']
        d.on_final = list(d.on_final) + list(range(c, c + n))
    # callbacks return values only matter for conditions; no scripted raises / commands in this domain
    return d


def flat_obs(items):
    """C18 observation map on flat traces"""
    return [i for i in items if i[0] in ('api', 'ret', 'raised') or (i[0] == 'call' and i[1] in WATCH)]


def flat_events(items):
    """[(tag, model, ev, [items], outcome item)] for top-level trigger calls"""
    out, cur = [], None
    for it in items:
        if it[0] == 'api':
            cur = [it[2], it[3], it[4], [], None]
            out.append(cur)
        elif cur is not None and it[0] in ('ret', 'raised') and it[1] == cur[0]:
            cur[4] = it
            cur = None
        elif cur is not None:
            cur[3].append(it)
    return out


def flat_oracle(d, items):
    """`FlatFinalEvent` (Model/Spec/C18.lean) stated in Python on every event of an implementation
    trace: some w — a transition of the event from the source state, or nothing — explains the
    on_enter / on_final / after calls, the state afterwards and the outcome."""
    problems = []
    state = {m: d.initial for m in d.models}
    by_name = {s['name']: s for s in d.states}
    events = dict(d.events)
    marker = d.finalize[0]
    for tag, m, ev, seg, out in flat_events(items):
        if out is None or m not in state:
            continue
        src = state[m]
        view = [(i[1], i[2]) for i in seg if i[0] == 'call' and i[1] in WATCH]
        marks = [i for i in seg if i[0] == 'call' and i[1] == SLOT['finalize_event'] and i[2] == marker]
        after = marks[-1][5] if marks else None
        ok = False
        for w in [None] + [t for t in events.get(ev, []) if t['source'] == src]:
            if w is None:
                exp, st2 = [], src
                good_out = (out[0] == 'ret' and out[2] == 0) or (out[0] == 'raised' and out[2] == 0)
            else:
                if w['dest'] is None:
                    exp, st2 = [(SLOT['after'], c) for c in w['after']], src
                else:
                    dd = by_name[w['dest']]
                    exp = [(SLOT['on_enter'], c) for c in dd['on_enter']]
                    if dd['final']:
                        exp += [(SLOT['on_final'], c) for c in d.on_final]
                    exp += [(SLOT['after'], c) for c in w['after']]
                    st2 = w['dest']
                good_out = out[0] == 'ret' and out[2] == 1
            if view == exp and good_out and (after is None or after == st2):
                ok = True
                break
        if not ok:
            problems.append({'tag': tag, 'event': ev, 'source': src, 'state_after': after,
                             'view': [(common.SLOTS[s], c) for s, c in view], 'outcome': list(out)})
        if after is not None:
            state[m] = after
    return problems


def flat_run(d, is_async):
    if is_async:
        from transitions.extensions.asyncio import AsyncMachine
        return aflat.Run7(d, AsyncMachine, True).run()
    return flat.FlatRun(d).run()


def flat_judge(case, d, ans, r):
    fails = []
    probs = flat_oracle(d, r.items)
    if probs:
        fails.append(Failure('monitor', 'flat-final-event', case,
                             {'problems': probs[:3], 'impl_trace': [common.show_item(i) for i in r.items[:60]]},
                             signature='C18.flat.monitor'))
    m = flat.parse_model_answer(ans)
    if m is not None:
        a, b = flat_obs(m[0]), flat_obs(r.items)
        if a != b:
            k = next((i for i, (x, y) in enumerate(zip(a, b)) if x != y), min(len(a), len(b)))
            fails.append(Failure('correspondence', 'flat_view_eq', case, {
                'first_difference_at': k, 'model': [common.show_item(i) for i in a[max(0, k - 3):k + 3]],
                'impl': [common.show_item(i) for i in b[max(0, k - 3):k + 3]]}))
    return fails


def flat_desc_of(case):
    return (aflat.from_json if case['async'] else flat.FlatDesc.from_json)(copy.deepcopy(case['desc']))


def judge_flat_case(case):
    d = flat_desc_of(case)
    ans = common.batch_driver([('flat', d.enc_case())])[0]
    try:
        with watchdog():
            r = flat_run(d, bool(case['async']))
    except Hang:
        return [Failure('monitor', 'hang', case, {}, signature='C18.hang')], None
    return flat_judge(case, d, ans, r), r


def chunk_flat(seed, idx, n, is_async, deadline):
    rng = random.Random('C18/flat/%d/%d/%d' % (seed, idx, int(is_async)))
    ex = Exploration()
    kn = flat_knobs()
    cases = []
    for _ in range(n):
        d = flat.gen_flat(rng, kn)
        flat_prepare(d, rng)
        if is_async:
            aflat.decorate(d, rng, qmode=0, p_kind=(0.5, 0.5, 0.0))
            # decorate() makes conditions that share a gather stage constant (`d.const`); the synchronous Lean
            # engine reads scripts only, so the constants are written into the script as well
            for c, out in d.const.items():
                for k in range(flat.DET_DEPTH):
                    d.script[(c, k)] = ((), out)
        dj = aflat.to_json(d) if is_async else d.to_json()
        cases.append({'part': 'flat', 'async': int(is_async), 'desc': json.loads(json.dumps(dj))})
    descs = [flat_desc_of(c) for c in cases]
    answers = common.batch_driver([('flat', d.enc_case()) for d in descs])     # one driver batch per chunk
    for k, (case, d, ans) in enumerate(zip(cases, descs, answers)):
        if k >= 8 and time.time() > deadline:
            bump(ex.stats, 'cases_not_run_after_deadline', 'flat', n - k)
            break
        try:
            with watchdog():
                r = flat_run(d, is_async)
        except Hang:
            ex.failures.append(Failure('monitor', 'hang', case, {}, signature='C18.hang'))
            continue
        fs = flat_judge(case, d, ans, r)
        ex.evaluations += 1
        ex.traces_validated += 1
        bump(ex.stats, 'class', 'AsyncMachine' if is_async else 'Machine')
        ex.failures += fs
        n_final = sum(1 for i in r.items if i[0] == 'call' and i[1] == SLOT['on_final'])
        n_true = sum(1 for i in r.items if i[0] == 'ret' and i[2] == 1)
        bump(ex.stats, 'flat_on_final_calls', min(n_final, 8))
        if n_final and n_true:
            ex.nontrivial.add('flat' + hashlib.sha1(repr(d.enc_case()).encode()).hexdigest()[:14])
        if len(ex.samples) < 1 and n_final and not fs:
            ex.samples.append({'part': 'flat', 'async': int(is_async),
                               'trace': [common.show_item(i) for i in r.items[:30]]})
    return ex


# ---------------------------------------------------------------------------------------------
# flat machines with re-entrant events: callbacks (on_enter, on_exit, before, …) trigger further events
# ---------------------------------------------------------------------------------------------

REENTRANT_CLASSES = ['Machine', 'LockedMachine', 'GraphMachine', 'HierarchicalMachine', 'AsyncMachine']
PRE_SLOTS = (SLOT['prepare_event'], SLOT['prepare'], SLOT['conditions'], SLOT['unless'],
             SLOT['before_state_change'], SLOT['before'], SLOT['on_exit'])


def reentrant_knobs():
    return flat.Knobs(max_models=2, p_unknown_event=0.0, max_history=5, max_states=4, max_events=3,
                      p_cmds=0.3, max_cmds=2, cmd_kinds=(flat.TRIGGER,), hist_kinds=(flat.TRIGGER,), p_queued=0.4,
                      p_share_cb=0.0)


def inject_moves(d, rng):
    """steer the generator to the interesting shape: an on_enter (sometimes on_exit / before) callback of a state
    that some transition enters fires an event that has a transition FROM that state — the model moves on
    while the first transition is still running (final -> non-final, non-final -> final, chains)"""
    for _ in range(rng.randint(1, 2)):
        dests = sorted(set(t['dest'] for _ev, ts in d.events for t in ts if t['dest'] is not None))
        if not dests:
            return
        st = rng.choice(dests)
        evs = [ev for ev, ts in d.events if any(t['source'] == st for t in ts)]
        if not evs:
            continue
        sd = next(x for x in d.states if x['name'] == st)
        key = 'on_enter' if rng.random() < 0.8 else 'on_exit'
        if not sd[key]:
            c = max(list(d.cb_slot) + [-1]) + 1
            d.cb_slot[c] = SLOT[key]
            sd[key] = [c]
        cb = rng.choice(sd[key])
        for k in range(rng.randint(1, 2)):
            d.script[(cb, k)] = ([(flat.TRIGGER, rng.choice(d.models), rng.choice(evs))], ('ret', True))


def reentrant_oracle(d, items):
    """C18 with events running inside events (any nesting depth; queued or not).  Every callback carries the
    tag of the trigger call whose event it belongs to, so the on_enter / on_final / after calls of ONE event are
    the calls with its tag, whatever other events ran in between (inside its callbacks, or later from the queue).
    For every event: some w — a transition of that event (from the state the model was in when the event
    started, when observable), or nothing — explains exactly those calls: the destination's on_enter callbacks,
    then the machine's on_final callbacks once each iff THAT destination is final, then the after callbacks.
    So every entry of a final state is followed, after its on_enter callbacks (and whatever events they ran) and
    before its transition's after callbacks, by exactly one run of the on_final list, and on_final runs at no
    other time.  An event in which a callback raised is cut short: its calls must be a prefix."""
    problems = []
    by_name = {s['name']: s for s in d.states}
    events = dict(d.events)
    tag_ev, info, stack = {}, {}, []
    for it in items:
        if it[0] == 'api':
            tag_ev[it[2]] = (it[1], it[4])
        elif it[0] == 'call':
            slot, cb, _m, tag, st = it[1:6]
            e = info.setdefault(tag, {'view': [], 'raised': False, 'src': None, 'first': True})
            if e['first']:
                e['first'] = False
                if slot in PRE_SLOTS:
                    e['src'] = st
            if slot in WATCH:
                e['view'].append((slot, cb))
            stack.append(tag)
        elif it[0] == 'done' and stack:
            tag = stack.pop()
            if it[2] == 1:
                info[tag]['raised'] = True
    for tag, e in sorted(info.items()):
        kind, ev = tag_ev.get(tag, (None, None))
        if kind != flat.TRIGGER:
            continue
        cands = [t for t in events.get(ev, []) if e['src'] is None or t['source'] == e['src']]
        ok = False
        for w in [None] + cands:
            if w is None:
                exp = []
            elif w['dest'] is None:
                exp = [(SLOT['after'], c) for c in w['after']]
            else:
                dd = by_name[w['dest']]
                exp = [(SLOT['on_enter'], c) for c in dd['on_enter']]
                if dd['final']:
                    exp += [(SLOT['on_final'], c) for c in d.on_final]
                exp += [(SLOT['after'], c) for c in w['after']]
            if e['view'] == exp or (e['raised'] and exp[:len(e['view'])] == e['view']):
                ok = True
                break
        if not ok:
            problems.append({'tag': tag, 'event': ev, 'source': e['src'], 'cut_short_by_exception': e['raised'],
                             'calls_of_this_event': [(common.SLOTS[s_], c) for s_, c in e['view']]})
    return problems


def reentrant_run(d, clsname):
    if clsname == 'AsyncMachine':
        from transitions.extensions.asyncio import AsyncMachine
        return aflat.Run7(d, AsyncMachine, True).run()
    from . import c04
    cls, kw = c04.get_cls(clsname)
    return flat.FlatRun(d, machine_cls=cls, extra_kwargs=kw).run()


def reentrant_desc_of(case):
    return (aflat.from_json if case['cls'] == 'AsyncMachine' else flat.FlatDesc.from_json)(copy.deepcopy(case['desc']))


def reentrant_judge(case, d, ans, r):
    fails = []
    probs = reentrant_oracle(d, r.items)
    if probs:
        fails.append(Failure('monitor', 'flat-reentrant-final-event', case,
                             {'class': case['cls'], 'queued': bool(d.queued), 'problems': probs[:3],
                              'impl_trace': [common.show_item(i) for i in r.items[:80]]},
                             signature='C18.flat.reentrant.monitor'))
    m = flat.parse_model_answer(ans) if ans is not None else None
    if m is not None:
        a, b = flat_obs(m[0]), flat_obs(r.items)
        if a != b:
            k = next((i for i, (x, y) in enumerate(zip(a, b)) if x != y), min(len(a), len(b)))
            fails.append(Failure('correspondence', 'flat_reentrant_view_eq', case, {
                'class': case['cls'], 'first_difference_at': k,
                'model': [common.show_item(i) for i in a[max(0, k - 3):k + 3]],
                'impl': [common.show_item(i) for i in b[max(0, k - 3):k + 3]]}))
    return fails


def judge_reentrant_case(case):
    d = reentrant_desc_of(case)
    ans = common.batch_driver([('flat', d.enc_case())])[0]
    try:
        with watchdog():
            r = reentrant_run(d, case['cls'])
    except Hang:
        return [Failure('monitor', 'hang', case, {}, signature='C18.hang')], None
    return reentrant_judge(case, d, ans, r), r


def chunk_reentrant(seed, idx, n, deadline):
    rng = random.Random('C18/reentrant/%d/%d' % (seed, idx))
    ex = Exploration()
    kn = reentrant_knobs()
    cases = []
    for k in range(n):
        d = flat.gen_flat(rng, kn)
        flat_prepare(d, rng)
        inject_moves(d, rng)
        clsname = REENTRANT_CLASSES[(k + idx) % len(REENTRANT_CLASSES)]
        if clsname == 'AsyncMachine':
            aflat.decorate(d, rng, qmode=int(d.queued), p_kind=(0.5, 0.5, 0.0))
            for c, out in d.const.items():
                for kk in range(flat.DET_DEPTH):
                    d.script[(c, kk)] = ((), out)
            dj = aflat.to_json(d)
        else:
            dj = d.to_json()
        cases.append({'part': 'reentrant', 'cls': clsname, 'desc': json.loads(json.dumps(dj))})
    descs = [reentrant_desc_of(c) for c in cases]
    answers = common.batch_driver([('flat', d.enc_case()) for d in descs])
    for k, (case, d, ans) in enumerate(zip(cases, descs, answers)):
        if k >= 10 and time.time() > deadline:
            bump(ex.stats, 'cases_not_run_after_deadline', 'reentrant', n - k)
            break
        try:
            with watchdog():
                r = reentrant_run(d, case['cls'])
        except Hang:
            ex.failures.append(Failure('monitor', 'hang', case, {}, signature='C18.hang'))
            continue
        fs = reentrant_judge(case, d, ans, r)
        ex.evaluations += 1
        ex.traces_validated += 1
        bump(ex.stats, 'reentrant_class', case['cls'] + (':queued' if d.queued else ''))
        ex.failures += fs
        # nesting depth of events and final-state entries that happen inside another event
        depth, mx, inner_final = 0, 0, 0
        for it in r.items:
            if it[0] == 'api':
                depth += 1
                mx = max(mx, depth)
            elif it[0] in ('ret', 'raised'):
                depth -= 1
            elif it[0] == 'call' and it[1] == SLOT['on_final'] and depth >= 2:
                inner_final += 1
        bump(ex.stats, 'reentrant_event_nesting_depth', min(mx, 4))
        if inner_final:
            bump(ex.stats, 'features', 'on_final_inside_a_nested_event')
            ex.nontrivial.add('re' + hashlib.sha1(repr((case['cls'], d.enc_case())).encode()).hexdigest()[:14])
        if len(ex.samples) < 1 and inner_final and not fs:
            ex.samples.append({'part': 'reentrant', 'class': case['cls'],
                               'trace': [common.show_item(i) for i in r.items[:40]]})
    return ex


# ---------------------------------------------------------------------------------------------
# shrinking, corpus, the check
# ---------------------------------------------------------------------------------------------

def judge_case(case):
    if case.get('part') == 'flat':
        return judge_flat_case(case)[0]
    if case.get('part') == 'reentrant':
        return judge_reentrant_case(case)[0]
    return judge_nested_case(case)


def shrink_steps(case):
    if case.get('part') in ('flat', 'reentrant'):
        from .. import flatcheck
        for c in flatcheck.shrink_steps({'stream': 'x', 'desc': case['desc']}):
            yield dict(case, desc=c['desc'])
        return
    d = case['desc']
    for i in range(len(d['history'])):
        c = copy.deepcopy(case)
        del c['desc']['history'][i]
        if c['desc']['history']:
            yield c
    for i in range(len(d['trans'])):
        ev = d['trans'][i]['ev']
        if any(h[0] == 'e' and h[1] == ev for h in d['history']):
            c = copy.deepcopy(case)
            del c['desc']['trans'][i]
            yield c
    if d['trans'] and not any(h[0] == 'e' for h in d['history']):
        c = copy.deepcopy(case)
        c['desc']['trans'] = []
        yield c
    for i, nd in enumerate(d['nodes']):
        if nd['final'] and 'obj' not in nd:
            c = copy.deepcopy(case)
            for k, n2 in enumerate(c['desc']['nodes']):
                if k == i or n2.get('obj') == i:       # copies of an embedded state are ONE object: one flag
                    n2['final'] = False
            yield c
    # drop a leaf state nothing refers to (ids are renumbered); not with embedded child machines (copies must stay isomorphic)
    shared = any('obj' in n2 or n2.get('emb') for n2 in d['nodes'])
    for i, nd in enumerate(d['nodes']):
        if shared or nd['kids'] or len(d['nodes']) == 1 or d['initial'] == i:
            continue
        if any(t['src'] == i or t['dst'] == i or t['scope'] == i for t in d['trans']):
            continue
        if any(h[0] == 'to' and h[1] == i for h in d['history']):
            continue
        c = copy.deepcopy(case)
        cd = c['desc']
        ren = lambda x: x if x is None or x < i else x - 1      # noqa: E731
        del cd['nodes'][i]
        for n2 in cd['nodes']:
            n2['parent'] = ren(n2['parent'])
            n2['kids'] = [ren(k) for k in n2['kids'] if k != i]
            n2['init'] = [ren(k) for k in n2['init'] if k != i]
        cd['roots'] = [ren(r) for r in cd['roots'] if r != i]
        cd['initial'] = ren(cd['initial'])
        for t in cd['trans']:
            t['src'], t['dst'], t['scope'] = ren(t['src']), ren(t['dst']), ren(t['scope'])
        cd['history'] = [[h[0], ren(h[1])] if h[0] == 'to' else h for h in cd['history']]
        yield c


def corpus_cases():
    out = []
    for path in sorted(glob.glob(os.path.join(common.CORPUS, 'C18', '*.json'))):
        with open(path) as fh:
            out.append((os.path.basename(path), json.load(fh)))
    return out


def chunk_corpus():
    ex = Exploration()
    for name, c in corpus_cases():
        fs = judge_case(c['case'])
        ex.evaluations += 1
        bump(ex.stats, 'corpus', name + (':FAILS' if fs else ':passes'))     # regression witnesses must pass
        ex.failures += fs
    return ex


class C18(runner.Check):
    prop = 'C18'
    level = 'proof'
    theorems = ('TM.C18_flat_exact', 'TM.C18_flat_history', 'TM.C18_flat_final_position',
                'TM.C18_flat_no_final_otherwise', 'TM.C18_flat_tags_fresh', 'TM.C18_flat_reentrant_exact',
                'TM.C18_flat_reentrant_event', 'TM.C18_nested_exact', 'TM.C18_nested_calls', 'TM.C18_nested_owner_iff',
                'TM.C18_nested_machine_last', 'TM.C18_nested_children_first', 'TM.C18_nested_once')
    manifest = dict(
        level='proof', design='DESIGN.md 4/C18 + design_notes/C18.md',
        text="Lean 4 theorems. Flat: C18_flat_exact / C18_flat_history — for every configuration, every script that "
             "neither raises nor re-enters the API and every history, the on_enter / on_final / after calls of each event "
             "are the destination's on_enter callbacks, then iff the destination is final the machine's on_final callbacks "
             "once each in list order, then the after callbacks (internal: after only; nothing executed: none), with "
             "nothing between events; for EVERY script (callbacks that trigger further events on unqueued or queued "
             "machines, raise, change membership) C18_flat_reentrant_exact / _event: under its own tag an executed "
             "transition starts exactly its destination's on_enter callbacks, on_final iff THAT destination is final, "
             "its after callbacks, wherever nested events left the model (tags are fresh: C18_flat_tags_fresh). Nested: the transcription of NestedTransition._final_check (loop variable doubling "
             "as return value included) against the declarative fires spec over all configuration trees, flag "
             "placements and entered sets by structural induction: C18_nested_exact at full strength (the check never "
             "raises and schedules exactly the owners that fire; states are paths, so copies of an embedded child "
             "machine's state are distinct; the root scope reads nothing from the machine object), plus children-first / machine-last / once; the "
             "defects repaired by 919a36b / 576f1fd / 56c10cf / 4b253dd are regression examples in Lean and in the corpus. Tied to /repo by driving HierarchicalMachine and "
             "HierarchicalAsyncMachine on random (depth <= 4, exclusive/parallel/partial-parallel) and all small trees, "
             "observing per executed transition the entered set, configuration and recorder calls (coroutine recorders "
             "that really suspend on the async class, with start and end): the fires spec "
             "(Python statement == compiled Lean spec on every segment) judges order, multiplicity, absence and "
             "position and completion (a descendant's on_final has completed before an ancestor's starts); the Lean "
             "model of _final_check must reproduce the implementation's on_final sequence exactly.",
        note="Trusted: Lean kernel, the transcription lean/Model/Final.lean (tied by equality of the scheduled callback "
             "sequence on every observed segment), the reading of the statement in lean/Model/Spec/C18.lean and "
             "harness/nfinal.py (two independent renderings compared on every segment), recorders. The entered set and the "
             "configuration are OBSERVED on the implementation (on_enter recorders, model.state), not modelled: how "
             "_resolve_transition computes them is C02/C03's subject; theorem hypothesis enteredWF (entered states are "
             "active afterwards; below an entered state everything active was entered) is checked on every observed "
             "segment and reported. No open finding: every rejection is a VIOLATION.",
        technique='Lean 4 proof (mutual structural induction over configuration trees; acceptor analysis for the flat '
                  'engine) + differential correspondence of _final_check + spec monitor on observed transitions, '
                  'exhaustive small scope')
    rule = ('nested: random state trees (1-9 states, depth <= 4, exclusive / parallel / partially parallel / initial-less '
            'compounds, parallel children in declared or permuted order) x arbitrary final flags x 0-2 on_final recorders on '
            'every state and the machine x global and scope-local transitions (reflexive, internal, to ancestors / '
            'descendants, blocked by conditions) + auto transitions x histories of 2-9 events; on_final callbacks registered at '
            'construction, through model methods on_final_<state>, or through machine.on_final_<state>(cb) afterwards (states '
            'without constructor callbacks get no on_final argument); separate model (plus 0-2 idle models of the same class, registered at construction / by add_model) or the machine as its own model; event '
            'names incl. \'final\'; optionally a second machine with its own dynamic registration alive; machine class plain / '
            'locked / decorated with add_state_features (Tags, Error, Volatile); alternating '
            'HierarchicalMachine / HierarchicalAsyncMachine (plain and coroutine recorders); small scope: every ordered '
            'forest with <= N states x every kind of every compound x every final-flag placement x to_Y;to_Z for all '
            'Y,Z; one child machine embedded under several regions; flat: descriptions of harness/flat.py with final states '
            'and machine on_final on Machine / AsyncMachine, plus a re-entrant stream (callbacks that trigger further events, '
            'unqueued and queued, on Machine / LockedMachine / GraphMachine / HierarchicalMachine / AsyncMachine). '
            'A nested segment is non-trivial when at least one owner fires; distinct = distinct (flags, configuration, '
            'entered set) / distinct flat encoding')
    trusted = ('transcription lean/Model/Final.lean of nesting.py _final_check / _final_check_nested, tied to /repo by '
               'equality of the scheduled on_final sequence on every observed transition',
               'the fires spec: lean/Model/Spec/C18.lean and its Python rendering harness/nfinal.py, compared on every segment',
               'observation of the entered set through on_enter recorders on every state and of the configuration through '
               'model.state at the first recorder after _update_model',
               'flat: lean/Model/Core.lean tied by equality under the C18 observation map')

    def assumptions(self):
        return ['order among the on_final lists of siblings (e.g. two parallel regions that both fire) is not constrained '
                'by the statement: the monitor demands only children before parents and the machine last; the exact '
                'sequence is compared with the model of the code (correspondence), not judged as the property',
                'a state that fires but has no on_final callback is not observable; the generator gives most states 1-2 '
                'recorders',
                'the entered set and the new configuration are taken from the implementation (C02/C03 judge them); '
                'transitions aborted by an exception other than the root-scope AttributeError are not judged',
                'flat theorems assume scripts that neither raise nor re-enter the API (C04/C05) and an unqueued machine; '
                'the flat streams stay inside that domain',
                'callbacks of ONE on_final list may overlap on the async class (AsyncMachine.callbacks gathers a list): only '
                'completion of a descendant\'s callbacks before an ancestor\'s start is demanded']

    # -----------------------------------------------------------------------------------------
    def explore(self, tier, seed):
        t0 = time.time()
        ex = Exploration()
        ex.merge(chunk_corpus())
        if tier == 'quick':
            soft, hard = t0 + 25, t0 + 40
            small = [(1, 0), (2, 0), (3, 0), (4, 0), (3, 1), (4, 1), (5, 0)]
            rand = [(chunk_nested, (seed, i, 70, soft)) for i in range(32)]
            rand += [(chunk_flat, (seed, i, 40, False, soft)) for i in range(8)]
            rand += [(chunk_flat, (seed, i, 30, True, soft)) for i in range(8)]
            rand += [(chunk_reentrant, (seed, i, 60, soft)) for i in range(12)]
            rand += [(chunk_nested, (seed, i, 40, soft, True)) for i in range(4)]
        else:
            soft, hard = t0 + 300, t0 + 450
            small = [(1, 0), (2, 0), (3, 0), (4, 0), (1, 1), (2, 1), (3, 1), (4, 1), (5, 0), (6, 0)]
            rand = [(chunk_nested, (seed, i, 200, soft)) for i in range(48)]
            rand += [(chunk_flat, (seed, i, 250, False, soft)) for i in range(16)]
            rand += [(chunk_flat, (seed, i, 150, True, soft)) for i in range(16)]
            rand += [(chunk_reentrant, (seed, i, 400, soft)) for i in range(20)]
            rand += [(chunk_nested, (seed, i, 300, soft, True)) for i in range(8)]
        # order of work on the pool: complete small scopes (<= 4 states), the random streams, then the large
        # small scopes (5, 6 states) which thin out (every 8th placement) after `soft` and stop after `hard`
        first, last = [], []
        for n, kind in small:
            total = sum(1 for _ in nfinal.small_shapes(n))
            per = 2 if n >= 6 else (4 if n == 5 else 8)
            for lo in range(0, total, per):
                (first if n <= 4 else last).append((chunk_small, (n, lo, min(total, lo + per), kind,
                                                                  soft if n >= 5 else hard + 10 ** 6,
                                                                  hard if n >= 5 else hard + 10 ** 6, 8)))
        random.Random(seed).shuffle(last)     # no systematic bias in which 6-state shapes are thinned out
        last.sort(key=lambda p: p[1][0])      # 5 states before 6 states
        for part in runner.parallel(_dispatch, first + rand + last):
            ex.merge(part)
        self.shrink_all(ex)
        return ex

    def shrink_all(self, ex):
        done = set()
        for f in ex.failures:
            key = (f.kind, f.what, f.signature)
            if key in done:
                continue
            done.add(key)
            f.case = runner.shrink(f.case, self.fails_like(f), shrink_steps, budget=15 if f.what == 'hang' else 300)
            again = [x for x in judge_case(f.case) if (x.kind, x.what, x.signature) == key]
            if again:
                f.details = again[0].details

    def fails_like(self, f):
        key = (f.kind, f.what, f.signature)

        def g(case):
            return any((x.kind, x.what, x.signature) == key for x in judge_case(case))
        return g

    def search(self, tier, seed, failures):
        found = []
        soft = time.time() + 150
        payloads = [(chunk_nested, (seed + 7919, i, 150, soft)) for i in range(32)]
        payloads += [(chunk_flat, (seed + 7919, i, 150, False, soft)) for i in range(8)]
        payloads += [(chunk_flat, (seed + 7919, i, 100, True, soft)) for i in range(8)]
        payloads += [(chunk_reentrant, (seed + 7919, i, 150, soft)) for i in range(10)]
        for part in runner.parallel(_dispatch, payloads):
            found += [f for f in part.failures if f.kind == 'monitor']
        for f in found[:1]:
            f.case = runner.shrink(f.case, self.fails_like(f), shrink_steps, budget=300)
        return found

    def replay(self, path):
        with open(path) as fh:
            payload = json.load(fh)
        if 'case' not in payload:
            print('no concrete input in this replay file: broken obligation', payload.get('broken_obligation'))
            return 1
        case = payload['case']
        fs = judge_case(case)
        if case.get('part') != 'flat':
            d = nfinal.NDesc.from_json(case['desc'])
            run = nfinal.NRun(d).run()
            print('states (id: parent, initial children, final, on_final callbacks):')
            for i, nd in enumerate(d.nodes):
                print('   %d: parent=%s init=%s final=%s cbs=%s' % (i, nd['parent'], nd['init'], nd['final'], nd['cbs']))
            for ent in run.log:
                print('event', ent['cmd'], '->', ent['out'])
                for it in ent['items']:
                    print('     ', it[:3])
        for f in fs:
            print('FAIL', f.kind, f.what, f.signature, json.dumps(f.details, default=str)[:1500])
        return 1 if fs else 0


def _dispatch(fn, args):
    return fn(*args)


CHECK = C18()
