"""C07 — async machines match the synchronous semantics when awaited one at a time."""
import copy
import hashlib
import json
import os
import random

from .. import common, flat, flatcheck, runner, aflat, anested
from ..runner import Exploration, Failure
from ..flat import TRIGGER, MAY
from ..common import SLOT

SIG_GATHER = 'C07.gather:raise-in-multi-callback-stage'


def classes(stream):
    from transitions import Machine
    from transitions.extensions import HierarchicalMachine
    from transitions.extensions.asyncio import AsyncMachine, HierarchicalAsyncMachine
    if STREAMS[stream]['hsm']:
        return HierarchicalMachine, HierarchicalAsyncMachine
    return Machine, AsyncMachine


def knobs_main():
    return flat.Knobs(max_models=2, p_cmds=0.3, p_raise=0.06, p_on_exception=0.3, p_unknown_event=0.05,
                      p_bad_dest=0.03, p_share_cb=0.0, max_history=8,
                      hist_kinds=(TRIGGER, TRIGGER, TRIGGER, MAY, MAY), cmd_kinds=(TRIGGER, TRIGGER, MAY))


def knobs_nested():
    return flat.Knobs(max_states=7, max_models=2, p_cmds=0.3, p_raise=0.0, p_on_exception=0.3,
                      p_unknown_event=0.05, p_share_cb=0.0, max_history=8,
                      hist_kinds=(TRIGGER, TRIGGER, TRIGGER, MAY, MAY), cmd_kinds=(TRIGGER, TRIGGER, MAY))


def knobs_nested_raise():
    k = knobs_nested()
    k.p_raise = 0.06
    return k


# name -> generator knobs, classes, whether the Lean async model is tied, per-tier (chunks, cases per chunk)
STREAMS = {
    # AsyncMachine vs Machine + Lean async model == AsyncMachine; the regime of theorem C07_flat_partial
    'flat': dict(knobs=knobs_main, hsm=False, nested=False, tie=True, raise_in_stage=False, quick=(16, 120), thorough=(64, 500)),
    # the same descriptions on the hierarchical classes
    'hsm-flat': dict(knobs=knobs_main, hsm=True, nested=False, tie=False, raise_in_stage=False, quick=(16, 50), thorough=(32, 300)),
    # compound / parallel states, transitions on leaves and ancestors; no raising callbacks
    'nested': dict(knobs=knobs_nested, hsm=True, nested=True, tie=False, raise_in_stage=False, quick=(16, 50), thorough=(48, 300)),
    # ... with raising callbacks (each alone in its stage)
    'nested-raise': dict(knobs=knobs_nested_raise, hsm=True, nested=True, tie=False, raise_in_stage=False, quick=(8, 40), thorough=(16, 200)),
    # raising callbacks next to siblings: the model still mirrors gather exactly; the differential is the known finding
    'gather-raise': dict(knobs=knobs_main, hsm=False, nested=False, tie=True, raise_in_stage=True, quick=(8, 30), thorough=(16, 150)),
}


def gen(stream, rng):
    cf = STREAMS[stream]
    d = aflat.decorate(flat.gen_flat(rng, cf['knobs']()), rng, raise_in_stage=cf['raise_in_stage'],
                       per_model_multi=cf['tie'], keep_kinds=(TRIGGER, MAY))
    if cf['nested']:
        anested.impose_tree(d, rng)
        # `model.to(<state>)` — the hierarchical classes' own helper for going to a state — between the triggers (a
        # separate generator: the histories of the other commands stay what they were)
        r2 = random.Random('C07/to/%d/%d' % (len(d.states), len(d.history)) + repr(d.history[:3]))
        if r2.random() < 0.4:
            for _ in range(r2.randint(1, 2)):
                d.history.insert(r2.randint(0, len(d.history)), (anested.TO, r2.choice(d.models), r2.randrange(len(d.states))))
    return d


def make_runs(stream, d):
    sync_cls, async_cls = classes(stream)
    R = anested.NRun7 if STREAMS[stream]['nested'] else aflat.Run7
    return R(d, async_cls, True).run(), R(d, sync_cls, False).run()


def property_failures(stream, d, ra, rs):
    """the property judged directly on the two implementations; returns [(what, details)]"""
    out = []
    if ra.bad or rs.bad:
        out.append(('arguments', {'async': ra.bad[:3], 'sync': rs.bad[:3]}))
    oa, os_ = aflat.obs(d, ra.items), aflat.obs(d, rs.items)
    # queued='model' on several models has no synchronous counterpart: judged by the model tie and the barrier only
    comparable = not (d.qmode == 2 and len(d.models) > 1)
    if comparable and (oa != os_ or ra.final() != rs.final()):
        k = next((i for i, (x, y) in enumerate(zip(oa, os_)) if x != y), min(len(oa), len(os_)))
        out.append(('sync_async_obs', {'first_difference_at': k, 'async': [show(i) for i in oa[max(0, k - 4):k + 3]],
                                       'sync': [show(i) for i in os_[max(0, k - 4):k + 3]],
                                       'async_final': repr(ra.final()), 'sync_final': repr(rs.final())}))
    b = aflat.barrier(ra.items)
    if b or ra.leftover:
        out.append(('barrier', {'violation': b, 'tasks_left_running': ra.leftover}))
    return out


def show(it):
    if it[0] == 'call' and not isinstance(it[5], int):
        return 'call %s cb%d m%d t%d @%s' % (common.SLOTS[it[1]], it[2], it[3], it[4], it[5])
    return common.show_item(it)


def neutralised(d, which):
    """copy of d with the raises of one suspected cause turned into plain returns"""
    c = copy.deepcopy(d)
    multi = set()
    for _k, l in aflat.stage_lists(d):
        if len(l) >= 2:
            multi.update(l)
    for key, (cmds, out) in list(c.script.items()):
        if which == 'gather' and key[0] in multi and out[0] == 'raise':
            c.script[key] = (cmds, ('ret', True))
    return c


def signature(stream, d, what):
    """narrow classification of a property failure: it is the listed gather finding only if the
    failure disappears when exactly that cause is removed from the input"""
    if what not in ('sync_async_obs', 'barrier'):
        return 'C07.' + what
    cands = []
    if aflat.raises_in_multi(d):
        cands.append(('gather', SIG_GATHER))
    for which, sig in cands:
        d2 = neutralised(d, which)
        ra, rs = make_runs(stream, d2)
        if not any(w == what for w, _ in property_failures(stream, d2, ra, rs)):
            return sig
    return 'C07.' + what


def judge(stream, d, model_ans=None):
    """-> (failures, async run, sync run)"""
    ra, rs = make_runs(stream, d)
    case = {'stream': stream, 'desc': aflat.to_json(d)}
    out = []
    for what, details in property_failures(stream, d, ra, rs):
        out.append(Failure('monitor', what, case, details, signature=signature(stream, d, what)))
    if STREAMS[stream]['tie'] and aflat.is_solo(d):
        if model_ans is None:
            model_ans = common.batch_driver([('aflat', aflat.enc_aflat(d))])[0]
        m = flat.parse_model_answer(model_ans)
        if m is not None:
            items, models, st = m
            if items != ra.items or (models, st) != ra.final():
                k = next((i for i, (a, b) in enumerate(zip(items, ra.items)) if a != b), min(len(items), len(ra.items)))
                out.append(Failure('correspondence', 'async_trace_eq', case, {
                    'first_difference_at': k,
                    'model': [common.show_item(i) for i in items[max(0, k - 4):k + 3]],
                    'impl': [common.show_item(i) for i in ra.items[max(0, k - 4):k + 3]],
                    'model_final': [models, sorted(st.items())],
                    'impl_final': [ra.final()[0], sorted(ra.final()[1].items())]}))
    return out, ra, rs


def fingerprint(stream, d):
    tree = [(s.get('parent'), s.get('parallel'), s.get('init_child')) for s in d.states] if STREAMS[stream]['nested'] else None
    return hashlib.sha1(repr((STREAMS[stream]['hsm'], aflat.enc_aflat(d), tree)).encode()).hexdigest()[:16]


def nontrivial(d, ra, rs):
    executed = any(i[0] == 'ret' and i[2] == 1 for i in ra.items)
    return executed and ra.items != rs.items


def stats(st, stream, d, ra, rs):
    def bump(k, kk, n=1):
        st.setdefault(k, {})
        st[k][kk] = st[k].get(kk, 0) + n
    bump('stream', stream)
    bump('queued', repr(aflat.QMODES[d.qmode]))
    for k in d.kinds.values():
        bump('callback_kind', aflat.KIND_NAMES[k])
    for i in ra.items:
        if i[0] in ('ret', 'raised'):
            bump('outcomes', 'true' if (i[0] == 'ret' and i[2] == 1) else ('false' if i[0] == 'ret' else 'raised:' + common.EXC_NAMES[i[2]]))
    dead = aflat.dead_conditions(d)
    bump('licensed', 'dead_condition_calls', sum(1 for i in ra.items if i[0] == 'call' and i[2] in dead))
    depth = 0
    for i in ra.items:
        if i[0] == 'call':
            depth += 1
        elif i[0] == 'done':
            depth -= 1
            if i[2] == 1:
                bump('licensed', 'raising_callbacks')
        elif i[0] == 'api' and depth > 0:
            bump('licensed', 'triggers_awaited_inside_callbacks')
    bump('licensed', 'traces_where_async_order_differs_from_sync', int(ra.items != rs.items))
    if STREAMS[stream]['nested']:
        bump('nested', 'compound_states', sum(1 for s in d.states if s['children'] and not s['parallel']))
        bump('nested', 'parallel_states', sum(1 for s in d.states if s['parallel']))
        bump('nested', 'callbacks_seeing_parallel_configuration', sum(1 for i in ra.items if i[0] == 'call' and '[' in str(i[5])))


def chunk(seed, idx, n, stream):
    rng = random.Random('C07/%s/%d/%d' % (stream, seed, idx))
    descs = [gen(stream, rng) for _ in range(n)]
    answers = [None] * n
    if STREAMS[stream]['tie']:
        tied = [i for i, d in enumerate(descs) if aflat.is_solo(d)]
        for i, a in zip(tied, common.batch_driver([('aflat', aflat.enc_aflat(descs[i])) for i in tied])):
            answers[i] = a
    ex = Exploration()
    for d, a in zip(descs, answers):
        fs, ra, rs = judge(stream, d, a if a is not None else 'oof')
        ex.evaluations += 1
        ex.traces_validated += 1
        if a == 'oof':
            ex.oof += 1
        nt = nontrivial(d, ra, rs)
        if nt:
            ex.nontrivial.add(fingerprint(stream, d))
        stats(ex.stats, stream, d, ra, rs)
        if nt and len(ex.samples) < 1:
            ex.samples.append({'stream': stream, 'queued': repr(aflat.QMODES[d.qmode]), 'history': d.history,
                               'async_trace': [show(i) for i in ra.items[:40]],
                               'sync_trace': [show(i) for i in rs.items[:40]]})
        ex.failures += fs
    return ex


def shrink_steps(case):
    for c in flatcheck.shrink_steps(case):
        yield c
    d = case['desc']
    # make a callback plain / unsuspended
    for i, (c, k) in enumerate(d['kinds']):
        if k:
            nd = copy.deepcopy(d)
            nd['kinds'][i][1] = 0 if not any(key[0] == c and v[0] for key, v in d['script']) else 1
            if nd['kinds'][i][1] != k:
                yield {'stream': case['stream'], 'desc': nd}


class C07(runner.Check):
    prop = 'C07'
    level = 'proof'
    manifest = dict(
        level='proof', design='DESIGN.md 4/C07 + design_notes/C07.md',
        text="Lean 4 theorems C07_flat_partial / C07_flat_polls (histories with awaited may_ polls; C07_may_agrees, C07_may_pure: the async probe answers like the sync one and leaves the engine untouched): the async flat engine model (gather as start-all / resume-all, AsyncCondition.check, _can_trigger, "
             "AsyncTransition.execute, AsyncEvent._trigger, _process_async with queued False/True/'model'), for every configuration, "
             "script, history of awaited triggers (incl. triggers awaited inside callbacks) and every plain/coroutine/suspending "
             "assignment, yields the same callback starts, arguments, states, return values, exception kinds and final states as the "
             "synchronous engine model, adding only the calls of conditions after the first failing one (simulation proof, unbounded); "
             "C07_condition_awaitable (kind-independence), C07_stage_barrier / C07_history_barrier (every stage, trigger and history returns with all its callbacks finished), C07_stage_starts_in_order, "
             "C07_flat_counterexample (gather lets siblings of a raising callback run). Tie to the code: the Lean async model equals "
             "AsyncMachine trace-for-trace on generated cases; the property itself is judged on the code by a direct differential "
             "Machine vs AsyncMachine and HierarchicalMachine vs HierarchicalAsyncMachine (flat, compound and parallel "
             "configurations) under the same observation map plus a stage-barrier monitor.",
        note="Trusted: Lean kernel, hand-written models Model/Async.lean and Model/Core.lean (tied by trace equality), the "
             "observation map obsC07, harness recorders. Regime 'one at a time': a callback that awaits triggers (or raises) sits "
             "alone in its stage; conditions sharing a stage are deterministic; queued='model' compared on one model. Hierarchical "
             "async classes: differential only (no Lean model of the nested async copies). Open finding: gather after a raise.",
        technique='Lean 4 proof (simulation async-vs-sync, unbounded) + differential correspondence + implementation-level differential monitor')
    theorems = ('TM.C07_flat_partial', 'TM.C07_flat_polls', 'TM.C07_may_agrees', 'TM.C07_may_pure',
                'TM.C07_condition_awaitable', 'TM.C07_stage_barrier', 'TM.C07_history_barrier', 'TM.C07_history_barrier_polls',
                'TM.C07_stage_starts_in_order', 'TM.C07_flat_counterexample')
    rule = ('random flat configurations of the C01/C04/C05 generator (1-5 states, 1-3 events, <=3 candidates, <=3 conditions/unless, '
            'callbacks in every slot, raising callbacks, on_exception handlers, unknown events, unregistered destinations, 1-2 models, '
            'callbacks that await further triggers) and nested ones (a random tree over <=7 states: compound states with initial child, '
            'parallel states, transitions on leaves and ancestors) x every callback/condition independently plain function / coroutine / '
            'coroutine suspending once / plain callable returning a scheduled Task / a later-resolved Future / an __await__ object x queued in {False, True, "model"} x histories of 1-8 awaited triggers and may_<event>/may_trigger polls (also awaited from callbacks); a case is non-trivial when '
            'a transition executed and the raw async trace differs from the raw sync trace (so the observation map and the barrier did '
            'real work); distinct = different protocol encoding')
    trusted = ('hand-written async model lean/Model/Async.lean tied to AsyncMachine by trace equality on every generated Solo case',
               'hand-written sync model lean/Model/Core.lean (tied by C01/C05)',
               'observation map obsC07 (lean/Model/Spec/C07.lean), mirrored by harness/aflat.py:obs',
               'harness/aflat.py recorders and the Python barrier monitor; asyncio event loop of the interpreter')

    def assumptions(self):
        return [
            '"awaited one at a time" is read as: at most one chain of triggers is in flight - a callback that awaits triggers is '
            'the only callback of its stage (two awaiting siblings would run two triggers concurrently under gather)',
            'conditions that share a stage (>=2 on one transition) are deterministic predicates without side effects; the calls of '
            'conditions after the first failing one are the licensed difference and are dropped from both traces',
            "queued='model' is compared with the synchronous queued=True on a single model (a synchronous machine has no per-model queue)",
            'the caller awaits only awaitable results: model.trigger(<unknown event>) answers synchronously (False / AttributeError)',
            'callback finish times are not compared with the synchronous order (only starts are); the barrier monitor checks them',
            'a raising callback with siblings in its stage (gather does not stop the siblings) is the one listed finding; any other '
            'difference is a violation',
            'awaited may_<event> / may_trigger polls are part of the histories (their answers and, above all, what later triggers '
            'do after them are compared with the synchronous machine); whether may_ predicts the trigger is C12; dispatch, '
            'add/remove_model and cancellation are outside this property (C10, C08)',
        ]

    def explore(self, tier, seed):
        payloads = []
        for name, cf in STREAMS.items():
            nch, per = cf[tier if tier in ('quick', 'thorough') else 'quick']
            payloads += [(seed, i, per, name) for i in range(nch)]
        ex = Exploration()
        self.run_corpus(ex)
        for part in runner.parallel(chunk, payloads):
            ex.merge(part)
        done = set()
        known = set(k.get('signature') for k in self.known())
        # failures that will be reported first; listed findings are not minimised at length
        for f in sorted(ex.failures, key=lambda f: (f.signature in known, f.kind != 'monitor')):
            key = (f.kind, f.what, f.signature)
            if key in done or len(done) >= 4:
                continue
            done.add(key)
            f.case = runner.shrink(f.case, self.fails_like(f), shrink_steps, budget=25 if f.signature in known else 300)
            self.annotate(f)
        ex.failures.sort(key=lambda f: (f.signature in known, f.kind != 'monitor'))
        # runner.Check.main lets a listed finding stand for a correspondence break; the listed findings of
        # C07 occur on every run and explain nothing about the model tie, so a broken tie is reported on
        # its own (failing-input search, then `no-failing-input-found`)
        corr = [f for f in ex.failures if f.kind != 'monitor']
        if corr and all(f.signature in known for f in ex.failures if f.kind == 'monitor'):
            ex.failures = corr
        return ex

    def run_corpus(self, ex):
        """minimised past disagreements (corpus/C07/*.json: {'stream', 'desc', 'why'}) run first on every run"""
        cdir = os.path.join(common.CORPUS, 'C07')
        for name in sorted(os.listdir(cdir)) if os.path.isdir(cdir) else []:
            if not name.endswith('.json'):
                continue
            with open(os.path.join(cdir, name)) as fh:
                case = json.load(fh)
            d, fs, ra, rs = self.rejudge(case)
            ex.evaluations += 1
            ex.traces_validated += 1
            stats(ex.stats, case['stream'], d, ra, rs)
            st = ex.stats.setdefault('corpus', {})
            st[name] = st.get(name, 0) + 1
            ex.failures += fs

    def rejudge(self, case):
        d = anested.from_json(case['desc']) if STREAMS[case['stream']]['nested'] else aflat.from_json(case['desc'])
        return (d,) + judge(case['stream'], d)

    def fails_like(self, f):
        def pred(case):
            return any(x.kind == f.kind and x.what == f.what and x.signature == f.signature for x in self.rejudge(case)[1])
        return pred

    def annotate(self, f):
        d, fs, ra, rs = self.rejudge(f.case)
        f.details['shrunk_async_trace'] = [show(i) for i in ra.items]
        f.details['shrunk_sync_trace'] = [show(i) for i in rs.items]
        for x in fs:
            if x.kind == f.kind and x.what == f.what:
                f.details['shrunk_details'] = x.details

    def search(self, tier, seed, failures):
        payloads = [(seed + 7919, i, 120, name) for name in STREAMS for i in range(8)]
        found = []
        for part in runner.parallel(chunk, payloads):
            found += [f for f in part.failures if f.kind == 'monitor']
        known = set(k.get('signature') for k in self.known())
        found = [f for f in found if f.signature not in known]
        for f in found[:1]:
            f.case = runner.shrink(f.case, self.fails_like(f), shrink_steps)
            self.annotate(f)
        return found

    def replay(self, path):
        with open(path) as fh:
            payload = json.load(fh)
        if 'case' not in payload:
            print('no concrete input in this replay file: broken obligation', payload.get('broken_obligation'))
            return 1
        d, fs, ra, rs = self.rejudge(payload['case'])
        print('stream %s queued=%r' % (payload['case']['stream'], aflat.QMODES[d.qmode]))
        print('async implementation trace:')
        for i in ra.items:
            print('   ', show(i))
        print('sync implementation trace:')
        for i in rs.items:
            print('   ', show(i))
        for f in fs:
            print('FAIL', f.kind, f.what, f.signature, json.dumps(f.details, default=str)[:600])
        return 1 if fs else 0


CHECK = C07()
