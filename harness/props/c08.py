"""C08 — async concurrency: queue modes serialize, cancellation hits only its targets."""
import copy
import hashlib
import json
import random

from .. import common, runner, asyncctl, c08judge
from ..runner import Exploration, Failure

SUSP_SLOTS = asyncctl.TRANSITION_SLOTS + ['finalize_event']


# -------------------------------------------------------------------------------------------------
# generator
# -------------------------------------------------------------------------------------------------

def gen_event_script(rng, case, tag, depth, next_tag, allow_nested=True):
    """fill case['script'] for event `tag`; may allocate nested triggers"""
    sc = case['script']
    slots = SUSP_SLOTS + (['on_exception'] if case['on_exc'] else [])
    for _ in range(rng.choice([0, 1, 1, 2, 2])):
        slot = rng.choice(slots)
        idx = rng.choice([1, 2]) if slot != 'conditions' else 2
        sc.setdefault('%d:%s:%d' % (tag, slot, idx), []).append(['susp'])
    if rng.random() < 0.12:
        sc.setdefault('%d:conditions:2' % tag, []).append(['ret', 0])
    special = rng.random()
    if special < 0.2:
        slot = rng.choice(slots)
        sc.setdefault('%d:%s:2' % (tag, slot), []).append(['raise', tag])
    elif special < 0.45 and allow_nested and depth < 2:
        slot = rng.choice(asyncctl.TRANSITION_SLOTS)
        key = '%d:%s:2' % (tag, slot)
        if not any(op[0] == 'ret' for op in sc.get(key, [])):
            nt = next_tag[0]
            next_tag[0] += 1
            mi = rng.randrange(case['n_models'])
            sc.setdefault(key, []).append(['trig', mi, rng.choice(['go', 'go', 'stay']), nt])
            gen_event_script(rng, case, nt, depth + 1, next_tag)
    if case['queued'] != 2 and case['n_models'] > 1 and rng.random() < 0.1:
        slot = rng.choice(asyncctl.TRANSITION_SLOTS)
        if slot != 'conditions':
            sc.setdefault('%d:%s:0' % (tag, slot), []).append(['remove', rng.randrange(case['n_models'])])
    # the `ret` of a condition must stay the last op before a raise/trig is not required; keep order as built


def gen_case(rng, big=False, force=None):
    case = {'hsm': rng.random() < 0.3, 'queued': rng.choice([0, 0, 0, 1, 2]), 'on_exc': rng.random() < 0.25,
            'ignore': False, 'n_models': rng.choice([1, 1, 2, 2, 3] if big else [1, 1, 2, 2]), 'protected': [],
            'triggers': [], 'script': {}, 'schedule': []}
    if force:
        case.update(force)
    n = rng.choice([2, 3, 3, 4] if big else [2, 2, 3])
    for tag in range(n):
        case['triggers'].append([rng.randrange(case['n_models']), rng.choice(['go', 'go', 'go', 'stay'])])
        if case['queued'] == 0 and rng.random() < 0.12:
            case['protected'].append(tag)
    next_tag = [n]
    for tag in range(n):
        gen_event_script(rng, case, tag, 0, next_tag)
    return case


def fingerprint(case):
    return hashlib.sha1(json.dumps(case, sort_keys=True).encode()).hexdigest()[:16]


# -------------------------------------------------------------------------------------------------
# one case: run on the real classes, monitors, model inclusion
# -------------------------------------------------------------------------------------------------

def signature(clause):
    return 'C08.' + clause


def evaluate(cases):
    """[(case)] -> [(run, [Failure])]   (one driver batch for all cases)"""
    runs = [asyncctl.execute(c) for c in cases]
    reqs = []
    for c, r in zip(cases, runs):
        labs = c08judge.labels(c, r.log)
        r.labels = labs
        nums = c08judge.enc_request(c, labs)
        reqs.append(('c08', nums))
        reqs.append(('c08mon', nums))
    ans = common.batch_driver(reqs) if reqs else []
    out = []
    for i, (c, r) in enumerate(zip(cases, runs)):
        fs = []
        for clause, det in c08judge.monitors(c, r):
            fs.append(Failure('monitor', clause, c, {'detail': det}, signature=signature(clause)))
        acc, mon = ans[2 * i], ans[2 * i + 1]
        if c['queued'] and mon != 'ok' and r.hang is None:
            fs.append(Failure('monitor', 'verified-monitor.serialOK', c, {'monitor': mon},
                              signature=signature('serialOK')))
        if acc != 'ok' and r.hang is None:
            k = int(acc.split()[1]) if acc.startswith('reject') else -1
            fs.append(Failure('correspondence', 'trace_inclusion', c,
                              {'model': acc, 'rejected_label': c08judge.show_label(r.labels[k]) if 0 <= k < len(r.labels) else None,
                               'labels_before': [c08judge.show_label(l) for l in r.labels[max(0, k - 12):k]]}))
        out.append((r, fs))
    return out


def nontrivial(case, run):
    """a cancellation actually hit a task, or a queued call was deferred behind a running event, or an event failed"""
    log = run.log
    if any(it[0] == 'cancel' for it in log):
        return True
    if case['queued']:
        depth = 0
        for it in log:
            if it[0] == 'evstart':
                depth += 1
            elif it[0] == 'evend':
                depth -= 1
            elif it[0] == 'begin' and depth > 0:
                return True
    return False


def note_stats(st, case, run):
    def inc(d, k):
        dd = st.setdefault(d, {})
        dd[k] = dd.get(k, 0) + 1
    inc('queued', str(case['queued']))
    inc('machine', 'hsm' if case['hsm'] else 'flat')
    inc('top_level_triggers', str(len(case['triggers'])))
    inc('quiescence_points', str(min(run.nquiet, 8)))
    inc('cancelled_tasks', str(min(sum(1 for it in run.log if it[0] == 'cancel'), 4)))
    inc('nested_calls', str(min(sum(1 for it in run.log if it[0] == 'begin' and it[1] != it[2]), 3)))
    for it in run.log:
        if it[0] == 'evend':
            inc('event_outcome', ['returned', 'raised', 'cancelled'][it[3]])
        elif it[0] in ('ret', 'raised'):
            inc('call_outcome', ('ret:%s' % bool(it[2])) if it[0] == 'ret' else 'raised:' + it[2])
        elif it[0] == 'remove':
            inc('remove_model', 'calls')
    if case['protected']:
        inc('protected', 'cases')


# -------------------------------------------------------------------------------------------------
# schedules
# -------------------------------------------------------------------------------------------------

def all_schedules(case, limit):
    """stateless DFS over release orders: yields (schedule, run, failures); stops after `limit` runs"""
    stack = [[]]
    count = 0
    while stack and count < limit:
        pre = stack.pop()
        c = dict(case, schedule=pre)
        (r, fs), = evaluate([c])
        count += 1
        yield c, r, fs
        br = r.branching
        for pos in range(len(br) - 1, len(pre) - 1, -1):
            for alt in range(1, br[pos]):
                stack.append(list(pre) + [0] * (pos - len(pre)) + [alt])
    return


def chunk(seed, idx, n_cases, per_case, big):
    rng = random.Random('C08/%d/%d/%s' % (seed, idx, big))
    ex = Exploration()
    exhaustive = 0
    for _ in range(n_cases):
        case = gen_case(rng, big=big)
        n = 0
        complete = True
        gen = all_schedules(case, per_case)
        for c, r, fs in gen:
            n += 1
            ex.evaluations += 1
            ex.traces_validated += 1
            note_stats(ex.stats, c, r)
            if nontrivial(c, r):
                ex.nontrivial.add(fingerprint(c))
                if len(ex.samples) < 2:
                    ex.samples.append({'case': c, 'labels': [c08judge.show_label(l) for l in r.labels[:60]]})
            ex.failures += fs
            if fs:
                break
        if n >= per_case:
            complete = False
        exhaustive += int(complete)
    ex.stats.setdefault('programs', {})
    ex.stats['programs']['all_release_orders_enumerated'] = exhaustive
    ex.stats['programs']['total'] = n_cases
    return ex
