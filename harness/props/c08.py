"""C08 — async concurrency: queue modes serialize, cancellation hits only its targets."""
import copy
import hashlib
import json
import random

from .. import common, runner, asyncctl, c08judge
from ..runner import Exploration, Failure

EVENTS_FLAT = ['go', 'go', 'go', 'stay']
EVENTS_HSM = ['go', 'go', 'nest', 'nest', 'stay']


# -------------------------------------------------------------------------------------------------
# generator
# -------------------------------------------------------------------------------------------------

def slots_of(case):
    return asyncctl.TRANSITION_SLOTS if case['hsm'] else asyncctl.FLAT_TRANSITION_SLOTS


def gen_event_script(rng, case, tag, depth, next_tag, allow_nested=True, late_ok=False):
    """fill case['script'] for event `tag`; may allocate nested triggers"""
    sc = case['script']
    tslots = slots_of(case)
    slots = tslots + ['finalize_event'] + (['on_exception'] if case['on_exc'] else [])
    for _ in range(rng.choice([0, 1, 1, 2, 2])):
        slot = rng.choice(slots)
        idx = rng.choice([1, 2]) if slot != 'conditions' else 2
        sc.setdefault('%d:%s:%d' % (tag, slot, idx), []).append(['susp'])
    if rng.random() < 0.12:
        sc.setdefault('%d:conditions:2' % tag, []).append(['ret', 0])
    special = rng.random()
    if special < (0.3 if case['queued'] == 2 else 0.2):
        slot = rng.choice(slots)
        sc.setdefault('%d:%s:2' % (tag, slot), []).append(['raise', tag])
    elif special < 0.45 and allow_nested and depth < 2:
        # (a trigger awaited from a nested state's own enter/exit callback re-enters the hierarchical engine in the
        #  middle of its scope handling: single-task re-entrancy, C02/C05 territory, not a schedule matter)
        slot = rng.choice([x for x in asyncctl.FLAT_TRANSITION_SLOTS if x not in case.get('sparse', [])] or ['prepare'])
        key = '%d:%s:2' % (tag, slot)
        if not any(op[0] == 'ret' for op in sc.get(key, [])):
            nt = next_tag[0]
            next_tag[0] += 1
            mi = rng.randrange(case['n_models'] - (0 if late_ok else len(case.get('late', []))))
            sc.setdefault(key, []).append(['trig', mi, rng.choice(EVENTS_HSM if case['hsm'] else EVENTS_FLAT), nt])
            # gather lets the event go on as soon as ONE child of the stage ends cancelled: a suspended sibling
            # would let the event overtake its own nested call (not covered by the statement) — none here
            sc.pop('%d:%s:1' % (tag, slot), None)
            gen_event_script(rng, case, nt, depth + 1, next_tag, late_ok=late_ok)
    if case['queued'] != 2 and case['n_models'] > 1 and rng.random() < 0.1:
        slot = rng.choice(tslots)
        if slot != 'conditions':
            sc.setdefault('%d:%s:0' % (tag, slot), []).append(['remove', rng.randrange(case['n_models'] - len(case.get('late', [])))])
    # the `ret` of a condition must stay the last op before a raise/trig is not required; keep order as built


def gen_shape(rng, case):
    """which callback slots are empty, and whether the states carry armed AsyncTimeout timers: with few callbacks the
    library's own await points (state exit/enter, timer handling, the queue) are where an event is suspended"""
    case['timeout'] = rng.random() < 0.3
    case['sparse'] = []
    r = rng.random()
    slots = asyncctl.TRANSITION_SLOTS + ['finalize_event']
    if r < 0.12:
        case['sparse'] = list(slots)
    elif r < 0.22:
        keep = rng.choice(['on_exit', 'on_enter', 'before', 'after', 'finalize_event'])
        case['sparse'] = [x for x in slots if x != keep]
    elif r < 0.4:
        case['sparse'] = [x for x in slots if rng.random() < 0.5]


def gen_case(rng, big=False, force=None):
    case = {'hsm': rng.random() < 0.3, 'queued': rng.choice([0, 0, 0, 1, 2]), 'on_exc': rng.random() < 0.25,
            'ignore': False, 'n_models': rng.choice([1, 1, 2, 2, 3] if big else [1, 1, 2, 2]), 'protected': [],
            'triggers': [], 'script': {}, 'schedule': []}
    if case['queued'] == 2:
        case['n_models'] = rng.choice([2, 2, 2, 3])
    if force:
        case.update(force)
    case['attach'] = rng.choice(['ctor', 'list', 'list', 'each'])
    case['late'] = []
    # (flat machines only: on a hierarchical machine add_model from a callback runs in whatever scope another model's
    #  nested transition has set — one more symptom of finding hsm.concurrent_scope, with unrelated exceptions)
    if case['n_models'] >= 2 and rng.random() < 0.2 and not case['hsm']:
        case['late'] = [case['n_models'] - 1]
    n = rng.choice([2, 3, 3, 4] if big else [2, 2, 3])
    early = case['n_models'] - len(case['late'])
    for tag in range(n):
        case['triggers'].append([rng.randrange(early), rng.choice(EVENTS_HSM if case['hsm'] else EVENTS_FLAT)])
        if case['queued'] == 0 and rng.random() < 0.12:
            case['protected'].append(tag)
    gen_shape(rng, case)
    # callback flavours of the recorders with index 1 / 2 (coroutine function | plain -> Task | Future | __await__)
    case['kinds'] = {'1': rng.choice([0, 0, 1, 2, 3]), '2': rng.choice([0, 0, 1, 2, 3])}
    next_tag = [n]
    disp = None
    if early >= 2 and rng.random() < 0.3:
        # one of the top-level entries is machine.dispatch(event): per-model root tasks gathered by the library
        disp = rng.randrange(n)
        case['triggers'][disp] = [-1, rng.choice(EVENTS_HSM if case['hsm'] else EVENTS_FLAT)]
        case['protected'] = [p for p in case['protected'] if p != disp]
    for tag in range(n):
        if tag == disp:
            for mi in range(case['n_models']):
                gen_event_script(rng, case, asyncctl.DISPATCH_BASE + 10 * tag + mi, 0, next_tag)
        else:
            gen_event_script(rng, case, tag, 0, next_tag)
    case['delays'] = []
    if rng.random() < 0.3:
        case['delays'] = [0] + [rng.choice([0, 0, 1, 2, 3, 5, 8, 13, 21, 34]) for _ in range(n - 1)]
    if disp == 0:
        case['late'] = []
    for lm in case['late']:
        # a plain callback of event 0 attaches the model, the stage's last callback then awaits a trigger on it
        slot = rng.choice([x for x in asyncctl.FLAT_TRANSITION_SLOTS if x != 'conditions'])
        key = '0:%s:2' % slot
        if any(op[0] in ('trig', 'raise') for op in case['script'].get(key, [])):
            case['late'] = []
            break
        case['script'].setdefault('0:%s:0' % slot, []).insert(0, ['add', lm])
        case['script'].pop('0:%s:1' % slot, None)
        nt = next_tag[0]
        next_tag[0] += 1
        case['script'].setdefault(key, []).append(['trig', lm, 'go', nt])
        gen_event_script(rng, case, nt, 1, next_tag, late_ok=True)
    if any(op[0] == 'trig' for ops in case['script'].values() for op in ops):
        # a callback handing back a Task/Future is still pending for a loop trip or two even when it does nothing; as a
        # sibling of a trigger-awaiting callback it would let a cancelled event overtake its nested call (gather)
        case['kinds']['1'] = 0
    return case


def fingerprint(case):
    return hashlib.sha1(json.dumps(case, sort_keys=True).encode()).hexdigest()[:16]


# -------------------------------------------------------------------------------------------------
# one case: run on the real classes, monitors, model inclusion
# -------------------------------------------------------------------------------------------------

def signature(clause):
    return 'C08.' + clause


def evaluate(cases):
    """[(case)] -> [(run, [Failure])]   (one driver batch for all cases)"""
    runs = [asyncctl.execute(c) for c in cases]
    reqs = []
    for c, r in zip(cases, runs):
        labs = c08judge.labels(c, r.log)
        r.labels = labs
        nums = c08judge.enc_request(c, labs)
        reqs.append(('c08', nums))
        reqs.append(('c08mon', nums))
    ans = common.batch_driver(reqs) if reqs else []
    out = []
    for i, (c, r) in enumerate(zip(cases, runs)):
        fs = []
        for clause, det in c08judge.monitors(c, r):
            fs.append(Failure('monitor', clause, c, {'detail': det}, signature=signature(clause)))
        acc, mon = ans[2 * i], ans[2 * i + 1]
        if c['queued'] and mon != 'ok' and r.hang is None:
            fs.append(Failure('monitor', 'verified-monitor.serialOK', c, {'monitor': mon},
                              signature=signature('serialOK')))
        if any(f.what == 'hsm.concurrent_scope' for f in fs):
            # the machine-wide scope of the hierarchical machine was corrupted (listed finding): whatever else goes
            # wrong in this run (add_model in the wrong scope, lost events, …) is a consequence of it
            fs = [f for f in fs if f.what == 'hsm.concurrent_scope']
        scope_finding = c08judge.hsm_value_error(c, r.log, r.labels)
        if acc != 'ok' and r.hang is None and not labs_race(r) and not scope_finding:
            k = int(acc.split()[1]) if acc.startswith('reject') else -1
            fs.append(Failure('correspondence', 'trace_inclusion', c,
                              {'model': acc, 'rejected_label': c08judge.show_label(r.labels[k]) if 0 <= k < len(r.labels) else None,
                               'labels_before': [c08judge.show_label(l) for l in r.labels[max(0, k - 12):k]]}))
        out.append((r, fs))
    return out


def labs_race(run):
    return bool(getattr(run.labels, 'race', False))


def nontrivial(case, run):
    """a cancellation actually hit a task, or a queued call was deferred behind a running event, or an event failed"""
    log = run.log
    if any(it[0] == 'cancel' for it in log):
        return True
    if case['queued']:
        depth = 0
        for it in log:
            if it[0] == 'evstart':
                depth += 1
            elif it[0] == 'evend':
                depth -= 1
            elif it[0] == 'begin' and depth > 0:
                return True
    return False


def note_stats(st, case, run):
    def inc(d, k):
        dd = st.setdefault(d, {})
        dd[k] = dd.get(k, 0) + 1
    inc('queued', str(case['queued']))
    inc('machine', 'hsm' if case['hsm'] else 'flat')
    inc('attach', case.get('attach', 'ctor') + ('+late' if case.get('late') else ''))
    inc('top_level_triggers', str(len(case['triggers'])))
    inc('callback_kinds', '%s/%s' % (case.get('kinds', {}).get('1', 0), case.get('kinds', {}).get('2', 0)))
    inc('shape', ('timeout+' if case.get('timeout') else '') + ('bare' if len(case.get('sparse', [])) >= 12 else 'sparse' if case.get('sparse') else 'full'))
    inc('dispatch', 'with' if any(t[0] < 0 for t in case['triggers']) else 'without')
    inc('arrival', 'delayed' if any(case.get('delays', [])) else 'together')
    inc('quiescence_points', str(min(run.nquiet, 8)))
    inc('cancelled_tasks', str(min(sum(1 for it in run.log if it[0] == 'cancel'), 4)))
    inc('nested_calls', str(min(sum(1 for it in run.log if it[0] == 'begin' and it[1] != it[2]), 3)))
    for it in run.log:
        if it[0] == 'evend':
            inc('event_outcome', ['returned', 'raised', 'cancelled'][it[3]])
        elif it[0] in ('ret', 'raised'):
            inc('call_outcome', ('ret:%s' % bool(it[2])) if it[0] == 'ret' else 'raised:' + it[2])
        elif it[0] == 'remove':
            inc('remove_model', 'calls')
    if case['protected']:
        inc('protected', 'cases')
    inc('inclusion', 'skipped_exception_vs_cancel_race' if labs_race(run) else
        ('skipped_hsm_value_error' if c08judge.hsm_value_error(case, run.log, run.labels) else 'judged'))


# -------------------------------------------------------------------------------------------------
# schedules
# -------------------------------------------------------------------------------------------------

def all_schedules(case, limit):
    """stateless DFS over release orders: yields (schedule, run, failures); stops after `limit` runs"""
    stack = [[]]
    count = 0
    while stack and count < limit:
        pre = stack.pop()
        c = dict(case, schedule=pre)
        (r, fs), = evaluate([c])
        count += 1
        yield c, r, fs
        br = r.branching
        for pos in range(len(br) - 1, len(pre) - 1, -1):
            for alt in range(1, br[pos]):
                stack.append(list(pre) + [0] * (pos - len(pre)) + [alt])
    return


def corpus_cases():
    import glob
    import os
    out = []
    if os.environ.get('C08_NO_CORPUS'):       # debugging knob: judge the generators alone
        return out
    for path in sorted(glob.glob(os.path.join(common.CORPUS, 'C08', '*.json'))):
        with open(path) as fh:
            out += json.load(fh).get('cases', [])
    return out


def corpus_chunk(cases):
    """regression corpus: every case with ALL its release orders"""
    ex = Exploration()
    for case in cases:
        for c, r, fs in all_schedules(case, 120):
            ex.evaluations += 1
            ex.traces_validated += 1
            note_stats(ex.stats, c, r)
            if nontrivial(c, r):
                ex.nontrivial.add(fingerprint(c))
            ex.failures += fs
    d = ex.stats.setdefault('corpus', {})
    d['cases'] = d.get('cases', 0) + len(cases)
    return ex


def chunk(seed, idx, n_cases, per_case, big=False):
    rng = random.Random('C08/%d/%d/%s' % (seed, idx, big))
    ex = Exploration()
    exhaustive = 0
    for _ in range(n_cases):
        case = gen_case(rng, big=big)
        n = 0
        complete = True
        gen = all_schedules(case, per_case)
        for c, r, fs in gen:
            n += 1
            ex.evaluations += 1
            ex.traces_validated += 1
            note_stats(ex.stats, c, r)
            if nontrivial(c, r):
                ex.nontrivial.add(fingerprint(c))
                if len(ex.samples) < 2:
                    ex.samples.append({'case': c, 'labels': [c08judge.show_label(l) for l in r.labels[:60]]})
            ex.failures += fs
            if fs:
                break
        if n >= per_case:
            complete = False
        exhaustive += int(complete)
    ex.stats.setdefault('programs', {})
    ex.stats['programs']['all_release_orders_enumerated'] = exhaustive
    ex.stats['programs']['total'] = n_cases
    return ex


def gen_sweep_program(rng):
    """queued program whose callbacks do not suspend (or hardly): the only freedom is the LOOP ITERATION at which the
    later triggers arrive"""
    case = {'hsm': rng.random() < 0.3, 'queued': rng.choice([1, 2]), 'on_exc': rng.random() < 0.2, 'ignore': False,
            'n_models': rng.choice([1, 2, 2]), 'protected': [], 'triggers': [], 'script': {}, 'schedule': [],
            'attach': rng.choice(['ctor', 'list', 'each']), 'late': [], 'delays': [],
            'kinds': {'1': rng.choice([0, 1, 2, 3]), '2': rng.choice([0, 1, 2, 3])}}
    n = rng.choice([2, 2, 3])
    evs = EVENTS_HSM if case['hsm'] else EVENTS_FLAT
    for tag in range(n):
        case['triggers'].append([rng.randrange(case['n_models']), rng.choice(evs)])
    if case['queued'] == 2:
        case['triggers'][-1][0] = case['triggers'][0][0]          # same queue as the first trigger
    for tag in range(n):
        r = rng.random()
        if r < 0.15:
            case['script']['%d:%s:2' % (tag, rng.choice(slots_of(case) + ['finalize_event']))] = [['raise', tag]]
        elif r < 0.3:
            case['script']['%d:conditions:2' % tag] = [['ret', 0]]
        elif r < 0.45:
            case['script']['%d:%s:2' % (tag, rng.choice(slots_of(case) + ['finalize_event']))] = [['susp']]
    return case


def sweep_chunk(seed, idx, n_programs, max_delay):
    """arrival sweep: the last trigger starts after d = 0 … (trips of the undelayed run + 2) bare loop trips"""
    rng = random.Random('C08/sweep/%d/%d' % (seed, idx))
    ex = Exploration()
    for _ in range(n_programs):
        base = gen_sweep_program(rng)
        n = len(base['triggers'])
        (r0, fs0), = evaluate([dict(base, delays=[0] * n)])
        top = min(r0.trips + 2, max_delay)
        cases = [dict(base, delays=[0] * (n - 1) + [d]) for d in range(1, top + 1)]
        if n == 3:
            cases += [dict(base, delays=[0, d, top]) for d in range(1, top + 1, 3)]
        res = [(r0, fs0)] + evaluate(cases)
        for c, (r, fs) in zip([dict(base, delays=[0] * n)] + cases, res):
            ex.evaluations += 1
            ex.traces_validated += 1
            note_stats(ex.stats, c, r)
            if nontrivial(c, r):
                ex.nontrivial.add(fingerprint(c))
            ex.failures += fs
        d = ex.stats.setdefault('arrival_sweep', {})
        d['programs'] = d.get('programs', 0) + 1
        d['delays_tried'] = d.get('delays_tried', 0) + len(cases) + 1
    return ex


def pair_chunk(seed, idx, n_programs):
    """back to back: after a first transition has completed (so that timers are armed, states entered), two triggers on
    one model start 0 … 8 loop trips apart, in both orders, on machines with few or no callbacks"""
    rng = random.Random('C08/pair/%d/%d' % (seed, idx))
    ex = Exploration()
    for _ in range(n_programs):
        case = {'hsm': rng.random() < 0.4, 'queued': rng.choice([0, 0, 0, 2]), 'on_exc': rng.random() < 0.2, 'ignore': False,
                'n_models': rng.choice([1, 2]), 'protected': [], 'triggers': [], 'script': {}, 'schedule': [],
                'attach': 'ctor', 'late': [], 'delays': [], 'kinds': {'1': rng.choice([0, 0, 1, 3]), '2': 0}}
        gen_shape(rng, case)
        if rng.random() < 0.6:
            case['timeout'] = True
        if rng.random() < 0.5 and len(case['sparse']) < 6:
            slots = asyncctl.TRANSITION_SLOTS + ['finalize_event']
            keep = rng.choice(['on_exit', 'on_enter', 'finalize_event', None])
            case['sparse'] = [x for x in slots if x != keep]
        evs = EVENTS_HSM if case['hsm'] else EVENTS_FLAT
        case['triggers'] = [[0, 'go'], [0, rng.choice(evs)], [0, rng.choice(evs)]]
        for tag in (1, 2):
            if rng.random() < 0.5:
                live = [x for x in slots_of(case) + ['finalize_event'] if x not in case['sparse']]
                if live:
                    case['script']['%d:%s:1' % (tag, rng.choice(live))] = [['susp']]
        (r0, _fs0), = evaluate([dict(case, triggers=case['triggers'][:1], script={})])
        t0 = r0.trips + 1
        cases = []
        for k in range(0, 9):
            cases.append(dict(case, delays=[0, t0, t0 + k]))
            if k:
                cases.append(dict(case, delays=[0, t0 + k, t0]))
        for c in cases:
            for cc, r, fs in all_schedules(c, 12):
                ex.evaluations += 1
                ex.traces_validated += 1
                note_stats(ex.stats, cc, r)
                if nontrivial(cc, r):
                    ex.nontrivial.add(fingerprint(cc))
                ex.failures += fs
        d = ex.stats.setdefault('back_to_back', {})
        d['programs'] = d.get('programs', 0) + 1
        d['offsets_tried'] = d.get('offsets_tried', 0) + len(cases)
    return ex


# -------------------------------------------------------------------------------------------------
# shrinking
# -------------------------------------------------------------------------------------------------

def shrink_steps(case):
    # drop a top-level trigger (only the last, so tags stay aligned), script entries, ops, protection, models
    keys = sorted(case['script'])
    for k in keys:
        c = copy.deepcopy(case)
        del c['script'][k]
        yield c
    for k in keys:
        for j in range(len(case['script'][k])):
            c = copy.deepcopy(case)
            del c['script'][k][j]
            if not c['script'][k]:
                del c['script'][k]
            yield c
    if len(case['triggers']) > 2:
        c = copy.deepcopy(case)
        tag = len(c['triggers']) - 1
        nested = [op[3] for ops in c['script'].values() for op in ops if op[0] == 'trig']
        if not nested or min(nested) > tag + 0:
            # nested tags are allocated above the top-level ones: dropping the last top-level trigger is
            # only safe when no nested call exists
            if not nested:
                c['triggers'].pop()
                c['script'] = {k: v for k, v in c['script'].items() if not k.startswith('%d:' % tag)}
                c['protected'] = [p for p in c['protected'] if p != tag]
                yield c
    for p in case.get('protected', []):
        c = copy.deepcopy(case)
        c['protected'].remove(p)
        yield c
    if case['on_exc']:
        c = copy.deepcopy(case)
        c['on_exc'] = False
        yield c
    if case['hsm'] and 'nest' not in json.dumps(case):
        c = copy.deepcopy(case)
        c['hsm'] = False
        yield c
    if case['schedule']:
        c = copy.deepcopy(case)
        c['schedule'] = c['schedule'][:-1]
        yield c
    if case.get('timeout'):
        c = copy.deepcopy(case)
        c['timeout'] = False
        yield c
    for k in ('1', '2'):
        if case.get('kinds', {}).get(k, 0):
            c = copy.deepcopy(case)
            c['kinds'][k] = 0
            yield c
    if case.get('attach', 'ctor') != 'ctor' and not case.get('late'):
        c = copy.deepcopy(case)
        c['attach'] = 'ctor'
        yield c


def fails_like(kind, what):
    def f(case):
        (r, fs), = evaluate([case])
        if any(it[0] == 'raised' and it[2] == 'AttributeError' for it in r.log):
            return False        # shrinking detached a late model from its ["add"] op: not a smaller witness
        return any(x.kind == kind and x.what == what for x in fs)
    return f


class C08(runner.Check):
    prop = 'C08'
    strict_correspondence = True     # a listed finding never masks a broken inclusion
    level = 'proof'
    theorems = ('TM.C08_queue_order', 'TM.C08_queue_serial', 'TM.C08_model_queue', 'TM.C08_fail_clears_own_queue',
                'TM.C08_cancel_targets', 'TM.C08_cancelled_behaviour', 'TM.C08_state_not_overwritten',
                'TM.C08_cancelled_returns_false', 'TM.C08_cleanup', 'TM.C08_registered_state',
                'TM.ScopeCell.C08_scope_reset_at_quiescence', 'TM.ScopeCell.C08_scope_save_restore_counterexample',
                'TM.C08_cancelled_returns_false_counterexample', 'TM.C08_cancel_takes_effect_partial',
                'TM.C08_sibling_end_isolated', 'TM.C08_fail_touches_own_event_only')
    manifest = dict(
        level='proof', design='DESIGN.md 4/C08 + design_notes/C08.md',
        text="Lean 4 theorems over the protocol-level transition system Model/AsyncSched.lean (tasks, async_tasks registry, "
             "protected_tasks, current_context chains, shared / per-model queues with drain loop and clear-on-raise, "
             "cancel_running_transitions, cancellation delivery, _trigger's except/finally, process_context), for ALL "
             "configurations and ALL schedules (a schedule = the order of the trace's labels, induction over it): queue "
             "order (no overlap + arrival order per queue key; one key for queued=True, one per model for 'model'), a "
             "failing event clears only its own queue, the cancelled set = in-flight tasks of the model minus own chain "
             "minus protected, a cancelled event never again starts a transition-stage callback / decides / writes the "
             "state and still passes its finalize stage, CancelledError becomes False in the root task, registry = "
             "in-flight tasks (empty at quiescence), model states stay registered. PARTIAL: asyncio's own cancellation "
             "delivery and gather/shield semantics are modelled from their documentation and validated only by the trace "
             "inclusion check (every trace observed on the real classes under the release-order controller must be "
             "accepted by the model, which is the compiled acceptor) and by Python monitors of each clause.",
        note="Trusted: Lean kernel (+propext, Classical.choice, Quot.sound); hand-written model Model/AsyncSched.lean "
             "tied to /repo by trace inclusion on every explored schedule; harness/asyncctl.py (recorders, thin logging "
             "subclass overriding cancel_running_transitions/_process_async/callbacks that only log and call super, Task "
             "subclass logging cancel()); CPython frame inspection to attribute state writes to events. Known finding: a "
             "cancellation that arrives while the event is in its finalize stage is swallowed (finalize callbacks "
             "interrupted / never started, trigger returns the event's own result).",
        technique="Lean 4 proof (invariants by induction over schedules) + controlled-scheduling trace inclusion + "
                  "verified serial-order monitor + Python clause monitors",
        engines=('async-controller',))
    rule = ('random programs: 2-3 (thorough: up to 4) concurrently awaited triggers on 1-3 models of a flat AsyncMachine or a '
            'HierarchicalAsyncMachine, queued False/True/"model", optional on_exception, protected tasks, callbacks in every '
            'slot registered as plain function / coroutine / coroutine suspending on harness futures (0-2 suspension points '
            'per event), raising callbacks (the scripted exception is also a KeyError / ValueError / AttributeError by family), failing conditions, triggers awaited from callbacks (nested up to depth 2), '
            'remove_model; models attached through the constructor list / ONE add_model([..]) call / one add_model call per model / '
            'add_model from a callback during the run (then triggered from that callback); arrival at arbitrary loop iterations '
            '(top-level trigger k starts after delays[k] bare sleep(0) trips; an arrival-sweep stream tries every delay up to the '
            'length of the run on queued programs without suspension points); hierarchical machines with callbacks on nested '
            'states and child->parent transitions; callback flavours (coroutine function / plain function handing back a Task, a bare '
            'Future or an __await__ object); events started together through machine.dispatch (per-model root tasks gathered by the '
            'library) next to individually awaited triggers; machine shapes: every slot with callbacks / some or all slots EMPTY (the library own '
            'await points are then where events are suspended) / states with armed AsyncTimeout timers / final state with on_final '
            'callbacks; a back-to-back stream (after a completed first transition two triggers on one model 0-8 loop trips apart, '
            'both orders); corpus/C08 first; queued="model" programs always have '
            '2-3 models and a higher share of raising events; for each program ALL release orders are enumerated (DFS over the pending futures at every '
            'quiescence; capped per program, the cap and the number of completely enumerated programs are in '
            'distribution.programs); a case = program + release order; non-trivial = a task was actually cancelled, or a '
            'queued trigger arrived while another event of the machine was being processed; distinct = different JSON of '
            '(program, release order)')
    trusted = ('hand-written model lean/Model/AsyncSched.lean tied to /repo by trace inclusion (model = acceptor)',
               'asyncio semantics (Task.cancel delivery, gather propagation) are not modelled beyond their documented '
               'effect; they are what the inclusion check validates',
               'harness/asyncctl.py: logging subclass + Task subclass + recorders; release-order controller uses '
               'loop._ready to detect quiescence')

    def assumptions(self):
        return [
            'asyncio cancellation delivery and gather/shield semantics are modelled from documentation and validated only by '
            'trace inclusion (partial)',
            '"returns False" is judged by truth value: HierarchicalAsyncMachine returns None (not False) when on_exception '
            'swallows the CancelledError; queued machines return True from _process_async regardless of the event',
            'an event cancelled while already in its finalize stage is the known finding (finalize interrupted, own result '
            'returned); every other cancelled event must start all its finalize callbacks and return a false value',
            'theorem C08_cancelled_behaviour takes `started (phase e)` (the event has entered _trigger) as an explicit '
            'hypothesis; the full-strength CancelledReturnsFalse is refuted by C08_cancelled_returns_false_counterexample',
            'programs: at most one raising / nested-trigger callback per event and stage, nested trigger is the last '
            'action of its callback, events used are valid from every state (no MachineError path), remove_model only '
            'with queued False/True; hierarchical machine without parallel states',
            'HierarchicalAsyncMachine: an event failing with ValueError while an event of another model is processed is the '
            'known finding hsm.concurrent_scope; the same between two non-cancelled transitions of ONE model is not judged; '
            'such traces are outside the protocol model (inclusion skipped, counted)',
            'the model treats the queue check and the drain as atomic steps, as the code does (no await between them)',
            'dispatch is exercised from outside events only (a dispatch / several trigger-awaiting callbacks inside one callback '
            'stage would run nested calls of ONE chain concurrently, which the chain-stack model does not describe)',
            'after one callback of a gather stage raised, sibling callbacks that are still suspended may outlive the '
            'event: their later completions are ignored (not covered by the statement)',
        ]

    def budget(self, tier):
        # (chunks, programs per chunk, release orders per program)
        return (32, 14, 50) if tier == 'quick' else (64, 120, 200)

    def explore(self, tier, seed):
        nch, per, cap = self.budget(tier)
        payloads = [(seed, i, per, cap, (tier != 'quick' and i % 2 == 1)) for i in range(nch)]
        ex = Exploration()
        cc = corpus_cases()
        for part in runner.parallel(corpus_chunk, [(cc[i::8],) for i in range(8) if cc[i::8]]):
            ex.merge(part)
        for part in runner.parallel(chunk, payloads):
            ex.merge(part)
        nsw, psw, dmax = (32, 3, 70) if tier == 'quick' else (64, 12, 90)
        for part in runner.parallel(sweep_chunk, [(seed, i, psw, dmax) for i in range(nsw)]):
            ex.merge(part)
        npr, ppr = (32, 2) if tier == 'quick' else (64, 10)
        for part in runner.parallel(pair_chunk, [(seed, i, ppr) for i in range(npr)]):
            ex.merge(part)
        done = set()
        for f in ex.failures:
            key = (f.kind, f.what)
            if key in done:
                continue
            done.add(key)
            f.case = runner.shrink(f.case, fails_like(f.kind, f.what), shrink_steps, budget=150)
            self.annotate(f)
        return ex

    def annotate(self, f):
        (r, fs), = evaluate([f.case])
        f.details['log'] = asyncctl.show(r.log)[:400]
        f.details['failures'] = [[x.kind, x.what, x.details.get('detail')] for x in fs]

    def search(self, tier, seed, failures):
        found = []
        # (i) the disagreeing inputs themselves and their release orders
        for f in failures[:5]:
            base = dict(f.case, schedule=[])
            for c, r, fs in all_schedules(base, 200):
                found += [x for x in fs if x.kind == 'monitor']
                if found:
                    break
            if found:
                break
        # (ii) fresh programs
        if not found:
            payloads = [(seed + 7919, i, 12, 60, i % 2 == 1) for i in range(32)]
            for part in runner.parallel(chunk, payloads):
                found += [x for x in part.failures if x.kind == 'monitor']
        for f in found[:1]:
            f.case = runner.shrink(f.case, fails_like(f.kind, f.what), shrink_steps, budget=150)
            self.annotate(f)
        return found

    def replay(self, path):
        with open(path) as fh:
            payload = json.load(fh)
        if 'case' not in payload:
            print('no concrete input in this replay file: broken obligation', payload.get('broken_obligation'))
            return 1
        (r, fs), = evaluate([payload['case']])
        for l in asyncctl.show(r.log):
            print('   ', l)
        print('hang:', r.hang, 'final states:', r.final_states, 'async_tasks:', r.final_tasks)
        for f in fs:
            print('FAIL', f.kind, f.what, f.details.get('detail') or f.details.get('model'))
        return 1 if fs else 0


CHECK = C08()
