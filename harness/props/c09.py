"""C09 — every predefined machine class behaves like Machine on base configurations.

Three layers (DESIGN.md 4/C09, design_notes/C09.md):

  * table    `harness/extract_tables.py` regenerates `lean/Generated/Tables.lean` from the LIVE classes before the
             build; `Props/C09Tables.lean` (built by this check only) proves C09_factory_exact / C09_cls_triples /
             C09_ctor_compatible over it by `decide`.
             `table_failures` states the same predicates in Python on the live classes: when the Lean obligations no
             longer build, it names the offending tuple / class (→ VIOLATION with that tuple as replay).
  * model    C09_graph_noninterference / C09_markup_noninterference / C09_side_table_write_only (side-table engine),
             C09_locked_single_thread, C09_async_flat, C09_async_graph_flat, C09_hsm_flat (depth-1 collapse of
             NestedTransition._change_state, full strength) — unbounded Lean theorems.
  * code     differential, the property's monitor: the C01 / C04 / C05 (+ membership) generators run on `Machine` and on
             the other 11 classes — reached by name AND through `MachineFactory.get_predefined` — and the runs are
             compared: model states, truth value of every result, exception types, callback sequences with
             arguments and the state each callback saw (async classes: up to `aflat.obs`, the difference C07
             licenses).  Correspondence: the Lean flat engine equals the `Machine` run, the Lean depth-1 hierarchical
             engine the `HierarchicalMachine` run and the Lean async engine the `AsyncMachine` run (trigger-only Solo
             cases), which is what ties the theorems to these inputs.
"""
import asyncio
import copy
import functools
import hashlib
import inspect
import json
import os
import random
import threading

from .. import common, flat, flatcheck, runner, aflat, extract_tables
from ..common import SLOT
from ..flat import TRIGGER, MAY, DISPATCH, REMOVE, ADD, ename, sname, canon_exc, make_exc
from ..runner import Exploration, Failure
from . import c04

SYNC_CLASSES = list(c04.SYNC_CLASSES)
ASYNC_CLASSES = ['AsyncMachine', 'HierarchicalAsyncMachine', 'AsyncGraphMachine', 'HierarchicalAsyncGraphMachine']
ALL_CLASSES = SYNC_CLASSES + ASYNC_CLASSES

TABLE_MODULE = 'Props.C09Tables'
HANG_S = 30.0       # watchdog for one run of a locked or async class (the sandbox may be heavily loaded)


# ---------------------------------------------------------------------------------------------
# classes: by name and through the factory
# ---------------------------------------------------------------------------------------------

def features(name):
    """the feature tuple a predefined class name stands for (graph, nested, locked, asyncio)"""
    return ('Graph' in name, 'Hierarchical' in name, 'Locked' in name, 'Async' in name)


def resolve(name, via):
    """-> (class, constructor kwargs).  via = 'name' | 'factory'"""
    import transitions
    import transitions.extensions as ext
    if via == 'factory':
        g, n, l, a = features(name)
        cls = ext.MachineFactory.get_predefined(graph=g, nested=n, locked=l, asyncio=a)
    elif name == 'Machine':
        cls = transitions.Machine
    else:
        cls = getattr(ext, name)
    return cls, ({'graph_engine': 'mermaid'} if 'Graph' in name else {})


# ---------------------------------------------------------------------------------------------
# the table predicates, on the live classes (Python twin of Props/C09.lean)
# ---------------------------------------------------------------------------------------------

def expected_state(f):
    g, n, l, a = f
    return {(False, False): 'State', (True, False): 'NestedState', (False, True): 'AsyncState',
            (True, True): 'NestedAsyncState'}[(n, a)], n, a, False


def expected_event(f):
    g, n, l, a = f
    if not n and not a:
        return ('LockedEvent', False, False, True) if l else ('Event', False, False, False)
    return {(True, False): 'NestedEvent', (False, True): 'AsyncEvent', (True, True): 'NestedAsyncEvent'}[(n, a)], n, a, False


def expected_trans(f):
    g, n, l, a = f
    if a:
        return ('NestedAsyncTransition' if n else 'AsyncTransition'), n, True, False
    return {(False, False): 'Transition', (False, True): 'TransitionGraphSupport', (True, False): 'NestedTransition',
            (True, True): 'NestedGraphTransition'}[(n, g)], n, False, g


def sig_compatible(b, p):
    """Python twin of `Gen.sigCompatible` (Props/C09Tables.lean)"""
    bn = [x for x in b if x[2] == 0]
    pn = []
    for x in p:
        if x[2] != 0:
            break
        pn.append(x)
    for x, y in zip(bn, pn):
        if y[0] != x[0] or not (y[1] == x[1] or x[1] == ''):
            return False
    if len(bn) > len(pn) and not (any(x[2] == 1 for x in p) and any(x[2] == 2 for x in p)):
        return False
    return all(x[2] == 0 or any(y[2] == x[2] for y in p) for x in b)


def table_failures(tab=None):
    """[(what, case, details)] — every way the live classes break C09_factory_exact / C09_cls_triples /
    C09_ctor_compatible; the case names the feature tuple / class"""
    tab = tab or extract_tables.live_table()
    out = []
    rows = tab['classes']
    if len(tab['factory']) != 16:
        out.append(('factory-table-size', {'table': 'factory'}, {'rows': len(tab['factory'])}))
    seen = {}
    for tup, ans in tab['factory']:
        case = {'table': 'factory', 'tuple': dict(zip(extract_tables.FEATURES, tup))}
        supported = not (tup[2] and tup[3])
        if supported:
            if ans[0] != 'cls':
                out.append(('factory-refuses-supported-combination', case, {'answer': list(ans)}))
                continue
            flags = tuple(rows[ans[1]]['feat'])
            if flags != tuple(tup):
                out.append(('factory-class-features-differ-from-request', case,
                            {'class': ans[1], 'issubclass_flags': dict(zip(extract_tables.FEATURES, flags))}))
            if ans[1] in seen:
                out.append(('factory-returns-one-class-for-two-tuples', case, {'class': ans[1], 'also_for': seen[ans[1]]}))
            seen[ans[1]] = list(tup)
        elif ans != ('valueError',):
            out.append(('factory-does-not-raise-ValueError-for-unsupported-combination', case, {'answer': list(ans)}))
    if len(rows) != 12:
        out.append(('class-table-size', {'table': 'classes'}, {'classes': sorted(rows)}))
    mparams = rows['Machine']['ctor'][:-1] if 'Machine' in rows else []
    for name in sorted(rows):
        r = rows[name]
        case = {'table': 'classes', 'class': name}
        f = tuple(r['feat'])
        for key, exp in (('state', expected_state(f)), ('event', expected_event(f)), ('trans', expected_trans(f))):
            got = (r[key]['name'], r[key]['nested'], r[key]['async'], r[key]['extra'])
            if got != tuple(exp):
                out.append(('%s_cls-not-of-the-family-the-composition-needs' % ('transition' if key == 'trans' else key),
                            case, {'resolved': list(got), 'expected': list(exp)}))
        if r['markup'] != f[0]:
            out.append(('markup-support-differs-from-diagram-support', case, {'markup': r['markup']}))
        if f[2] and f[3]:
            out.append(('class-combines-locked-and-asyncio', case, {}))
        if r['ctor'][:len(mparams)] != mparams or r['ctor'][-1:] != [('**kwargs', '')]:
            diff = [(a, b) for a, b in zip(mparams, r['ctor']) if a != b][:3]
            out.append(('constructor-differs-from-Machine', case, {'first_differences': diff}))
    for r in tab['overrides']:
        if not sig_compatible(r['base_params'], r['params']):
            out.append(('override-changes-the-parameters-of-the-base-method',
                        {'table': 'overrides', 'class': r['owner'], 'method': r['method'], 'base': r['base']},
                        {'used_by': r['used_by'], 'base_parameters': [list(x) for x in r['base_params']],
                         'parameters': [list(x) for x in r['params']]}))
    have = set((r['owner'], r['method']) for r in tab['overrides'])
    for need in [(o, 'add_transition') for o in ('GraphMachine', 'MarkupMachine', 'HierarchicalMachine')] + \
            [(o, 'add_model') for o in ('GraphMachine', 'LockedMachine', 'HierarchicalMachine', 'AsyncMachine')]:
        if need not in have:
            out.append(('override-table-misses-a-known-override', {'table': 'overrides', 'class': need[0], 'method': need[1]}, {}))
    return out


# ---------------------------------------------------------------------------------------------
# runner: one description on a sync or an async class
# ---------------------------------------------------------------------------------------------

class RecModel9(object):
    """callbacks synthesised on attribute access: `cb_<slot>_<id>`; coroutine functions on async machines
    for the callbacks the description marks as coroutines"""

    def __init__(self, mid, run):
        self._mid = mid
        self._run = run

    def __getattr__(self, name):
        if name.startswith('cb_'):
            _, slot, cid = name.split('_')
            run = self._run
            if run.is_async and run.kinds.get(int(cid), 0) >= 1:
                return functools.partial(run.ainvoke, self, int(slot), int(cid))
            return functools.partial(run.invoke, self, int(slot), int(cid))
        raise AttributeError(name)


_SELF_MODEL = {}


def self_model_class(cls):
    """subclass of a machine class that can be its own model: the recorder callbacks `cb_<slot>_<id>` are synthesised
    on attribute access like on `RecModel9`; everything else is the class's own `__getattr__`"""
    if cls not in _SELF_MODEL:
        class SelfModel(cls):
            _mid = 0

            def __getattr__(self, name):
                if name.startswith('cb_'):
                    _, slot, cid = name.split('_')
                    run = self.__dict__['_run']
                    if run.is_async and run.kinds.get(int(cid), 0) >= 1:
                        return functools.partial(run.ainvoke, self, int(slot), int(cid))
                    return functools.partial(run.invoke, self, int(slot), int(cid))
                return super(SelfModel, self).__getattr__(name)
        SelfModel.__name__ = cls.__name__
        _SELF_MODEL[cls] = SelfModel
    return _SELF_MODEL[cls]


class EmptyModel(RecModel9):
    """a model that is also an (empty) container: `bool(model)` is False, always"""

    def __len__(self):
        return 0


class FalseModel(RecModel9):
    """a model whose `__bool__` answers False, always"""

    def __bool__(self):
        return False


class DrainedModel(RecModel9):
    """a container-like model that is emptied by the callbacks which run BEFORE its state change (prepare_event …
    before) and refilled by those that run after it (after … finalize_event): falsy exactly while its state changes"""
    _stock = 1

    def __len__(self):
        return self._stock


FALSY_MODELS = {1: EmptyModel, 2: FalseModel, 3: DrainedModel}
DRAIN_SLOTS = tuple(SLOT[n] for n in ('prepare_event', 'prepare', 'conditions', 'unless', 'before_state_change', 'before'))
REFILL_SLOTS = tuple(SLOT[n] for n in ('after', 'after_state_change', 'finalize_event'))


class Run9(flat.FlatRun):
    """FlatRun for any of the 12 classes: constant (deterministic) conditions, coroutine callbacks and an awaiting
    driver on async classes, exception TYPE names recorded next to the canonical kinds."""

    def __init__(self, desc, cls, kwargs=None, is_async=False):
        self.d = desc
        self.is_async = is_async
        self.kinds = getattr(desc, 'kinds', None) or {}
        self.const = getattr(desc, 'const', None) or {}
        self.items = []
        self.exc_names = []
        self.reads = []
        self.counts = {}
        self.next_tag = 0
        self.bad = []
        self.tag_event = {}
        self.leftover = 0
        self.hang = False
        self.cls = cls
        named = [c[1] for c in desc.history if c[0] in (REMOVE, ADD, TRIGGER, MAY)]
        named += [c[1] for cmds, _o in desc.script.values() for c in cmds]
        falsy = dict(tuple(x) for x in getattr(desc, 'falsy', ()) or ())
        self.model_objs = {m: FALSY_MODELS.get(falsy.get(m), RecModel9)(m, self)
                           for m in range(0, max(list(desc.models) + named + [3]) + 1)}
        self.machine = self.build(kwargs or {})

    # -- construction ------------------------------------------------------------------------
    def transition_defs(self):
        """`trans_form` 1: every transition in LIST form, all eight entries in the positional order of
        `Machine.add_transition` (trigger, source, dest, conditions, unless, before, after, prepare) — `add_transitions`
        expands a list with `add_transition(*entry)`; 0: dictionaries (keyword calls)"""
        defs = flat.FlatRun.transition_defs(self)
        if getattr(self.d, 'trans_form', 0) != 1:
            return defs
        return [[t['trigger'], t['source'], t['dest'], t['conditions'], t['unless'], t['before'], t['after'], t['prepare']]
                for t in defs]

    def build(self, extra):
        """the description's `build_mode` (0: everything through the constructor; 1: transitions added afterwards with
        add_transition, models attached; 2: all states but the initial one added afterwards with add_states, then the
        transitions) and `self_model` (the machine is its own — only — model, Machine's default)"""
        d = self.d
        mode, selfm = getattr(d, 'build_mode', 0), getattr(d, 'self_model', False)
        if not mode and not selfm:
            return flat.FlatRun.build(self, extra)      # (uses self.transition_defs())
        sd, td = self.state_defs(), self.transition_defs()
        first = sd if mode != 2 else [x for x in sd if x['name'] == sname(d.initial)]
        rest = [x for x in sd if x not in first]
        kw = dict(states=first, transitions=[] if mode else td, initial=sname(d.initial), send_event=d.send_event,
                  auto_transitions=False, ignore_invalid_triggers=d.ignore,
                  before_state_change=self.names(d.before_sc), after_state_change=self.names(d.after_sc),
                  prepare_event=self.names(d.prepare_event), finalize_event=self.names(d.finalize),
                  on_exception=self.names(d.on_exception), on_final=self.names(d.on_final), queued=d.queued)
        if not selfm:
            kw['model'] = [self.model_objs[m] for m in d.models]
        kw.update(extra)
        if selfm:
            cls = self_model_class(self.cls)
            mach = cls.__new__(cls)
            mach.__dict__['_run'] = self
            mach.__init__(**kw)
            self.model_objs[0] = mach
        else:
            mach = self.cls(**kw)
        if rest:
            mach.add_states(rest)
        if mode:
            for t in td:
                if isinstance(t, list):
                    mach.add_transition(*t)       # positional call
                else:
                    mach.add_transition(**t)
        return mach

    # -- recording ---------------------------------------------------------------------------
    def begin(self, model, slot, cid, args, kwargs):
        ok = True
        tag = -1
        if self.d.send_event:
            if len(args) == 1 and not kwargs and hasattr(args[0], 'args'):
                ed = args[0]
                if len(ed.args) == 1 and isinstance(ed.args[0], int):
                    tag = ed.args[0]
                ok = (ed.model is model and ed.kwargs in ({'m': model._mid}, {'m': -1}) and len(ed.args) == 1
                      and ed.machine is self.machine
                      and getattr(ed.event, 'name', None) == self.tag_event.get(tag))
            else:
                ok = False
        else:
            if len(args) == 1 and isinstance(args[0], int):
                tag = args[0]
            ok = len(args) == 1 and kwargs in ({'m': model._mid}, {'m': -1})
        if not ok or tag < 0:
            self.bad.append(('bad-args', slot, cid, repr(args)[:80], repr(kwargs)[:80]))
            tag = max(tag, 0)
        k = self.counts.get(cid, 0)
        self.counts[cid] = k + 1
        self.items.append(('call', slot, cid, model._mid, tag, self.state_id(model)))
        if isinstance(model, DrainedModel):
            if slot in DRAIN_SLOTS:
                model._stock = 0
            elif slot in REFILL_SLOTS:
                model._stock = 1
        if cid in self.const:
            return (), self.const[cid]
        return self.d.script.get((cid, k), ((), ('ret', True)))

    def finish(self, cid, out):
        if out[0] == 'ret':
            self.items.append(('done', cid, 0, int(bool(out[1])), 0))
            return out[1]
        exc = make_exc(out[1], out[2])
        self.items.append(('done', cid, 1) + canon_exc(exc))     # builtin kinds (>= 6) are all `Other`
        raise exc

    def invoke(self, model, slot, cid, *args, **kwargs):
        cmds, out = self.begin(model, slot, cid, args, kwargs)
        if cmds and self.is_async:
            raise common.MachineryError('plain callback %d carries commands on an async machine' % cid)
        try:
            for c in cmds:
                self.do_cmd(c)
        except BaseException as e:
            self.items.append(('done', cid, 1) + canon_exc(e))
            raise
        return self.finish(cid, out)

    async def ainvoke(self, model, slot, cid, *args, **kwargs):
        cmds, out = self.begin(model, slot, cid, args, kwargs)
        try:
            for c in cmds:
                await self.ado_cmd(c)
        except BaseException as e:
            self.items.append(('done', cid, 1) + canon_exc(e))
            raise
        if self.kinds.get(cid, 0) >= 2:
            await asyncio.sleep(0)
        return self.finish(cid, out)

    # -- API calls ---------------------------------------------------------------------------
    def call_for(self, c):
        """the library call a command stands for: tag -> result (possibly awaitable)"""
        kind, a, b = c
        mach = self.machine
        if kind == TRIGGER:
            mo = self.model_objs[a]

            def fn(tag):
                if hasattr(mo, ename(b)) and (tag % 2 == 0):
                    return getattr(mo, ename(b))(tag, m=a)
                return mo.trigger(ename(b), tag, m=a)
        elif kind == MAY:
            mo = self.model_objs[a]

            def fn(tag):
                if hasattr(mo, 'may_' + ename(b)) and (tag % 2 == 0):
                    return getattr(mo, 'may_' + ename(b))(tag, m=a)
                return mo.may_trigger(ename(b), tag, m=a)
        elif kind == DISPATCH:
            def fn(tag):
                return mach.dispatch(ename(b), tag, m=-1)
        elif kind == REMOVE:
            def fn(tag):
                try:
                    mach.remove_model(self.model_objs[a])
                except KeyError as e:
                    # not registered: list.remove raises ValueError, the locked classes' context map raises KeyError
                    # first — the same refusal, by design; normalised at the call site (as flat.FlatRun does)
                    raise ValueError(str(e))
                return True
        elif kind == ADD:
            def fn(tag):
                mach.add_model(self.model_objs[a])
                return True
        else:
            raise common.MachineryError('bad cmd %r' % (c,))
        return fn

    def _open(self, c):
        kind, a, b = c
        if kind == DISPATCH:
            a = 0
        if kind in (REMOVE, ADD):
            b = 0
        tag = self.next_tag
        self.next_tag += 1
        self.items.append(('api', kind, tag, a, b))
        self.tag_event[tag] = ename(b)
        return tag

    def _raised(self, tag, e):
        if isinstance(e, common.MachineryError):
            raise e
        self.items.append(('raised', tag) + canon_exc(e))
        self.exc_names.append((tag, type(e).__name__))

    def do_cmd(self, c):
        fn = self.call_for(c)
        tag = self._open(c)
        try:
            r = fn(tag)
        except BaseException as e:
            self._raised(tag, e)
            raise
        self.items.append(('ret', tag, int(bool(r))))
        return r

    async def ado_cmd(self, c):
        fn = self.call_for(c)
        tag = self._open(c)
        try:
            r = fn(tag)
            # `model.trigger(<name>)` may answer synchronously; a careful caller awaits only what is awaitable
            if inspect.isawaitable(r):
                r = await r
        except BaseException as e:
            self._raised(tag, e)
            raise
        self.items.append(('ret', tag, int(bool(r))))
        return r

    def read_probe(self):
        """read-only API calls between two commands of the history (the description asks for them with `reads`): for
        every registered model its state, the machine's view of it, the state checks `is_<state>()`, and the machine's
        `get_triggers` / `get_transitions` answers.  None of them runs a callback; their answers are compared across
        classes, and so is everything that follows them (a reader that leaves something behind shows up later)."""
        if not getattr(self.d, 'reads', False):
            return
        mach = self.machine
        rec = []

        def ask(label, fn):
            try:
                rec.append((label, fn()))
            except BaseException as e:     # noqa
                if isinstance(e, (common.MachineryError, KeyboardInterrupt)):
                    raise
                rec.append((label, 'raises ' + type(e).__name__))
        for mo in list(mach.models):
            mid = mo._mid
            ask('state m%d' % mid, lambda: str(getattr(mo, 'state', None)))
            ask('get_model_state m%d' % mid, lambda: str(mach.get_model_state(mo).name))
            ask('is_<state> m%d' % mid,
                lambda: [bool(getattr(mo, 'is_' + sname(st['name']))()) for st in self.d.states])
            ask('get_triggers m%d' % mid, lambda: sorted(mach.get_triggers(getattr(mo, 'state'))))
        for st in self.d.states:
            ask('get_triggers ' + sname(st['name']), lambda: sorted(mach.get_triggers(sname(st['name']))))
        for ev, _ts in self.d.events:
            ask('get_transitions ' + ename(ev), lambda: sorted(
                (str(t.source), str(t.dest)) for t in mach.get_transitions(ename(ev))))
        self.reads.append(rec)

    def _run_sync(self):
        for c in self.d.history:
            try:
                self.do_cmd(c)
            except BaseException as e:      # the caller of the API catches whatever escapes
                if isinstance(e, (common.MachineryError, KeyboardInterrupt)):
                    raise
            self.read_probe()
        return self

    def _run_async(self):
        async def main():
            loop = asyncio.get_running_loop()
            loop.set_exception_handler(lambda _l, ctx: None)
            for c in self.d.history:
                try:
                    await self.ado_cmd(c)
                except BaseException as e:     # the awaiting caller catches whatever escapes
                    if isinstance(e, (common.MachineryError, KeyboardInterrupt)):
                        raise
                self.read_probe()
            self.leftover = len([t for t in asyncio.all_tasks() if t is not asyncio.current_task() and not t.done()])
        asyncio.run(main())
        return self

    def run(self, watchdog=False):
        target = self._run_async if self.is_async else self._run_sync
        if not watchdog:
            target()
            return self
        err = []

        def go():
            try:
                target()
            except BaseException as e:     # noqa
                err.append(e)
        t = threading.Thread(target=go, daemon=True)
        t.start()
        t.join(HANG_S)
        self.hang = t.is_alive()
        if err:
            raise err[0]
        return self


# ---------------------------------------------------------------------------------------------
# streams
# ---------------------------------------------------------------------------------------------

def _k(**kw):
    base = dict(p_unknown_event=0.0, p_bad_dest=0.0)
    base.update(kw)
    return lambda: flat.Knobs(**base)


def knobs_crash():
    return c04.knobs()


# name -> knobs, which classes, per-tier (chunks, cases per chunk)
STREAMS = {
    # C01: documented order; no raising callbacks, no re-entrant calls
    'c01': dict(knobs=_k(max_models=2, max_history=10, p_queued=0.3), quick=(16, 10), thorough=(32, 80)),
    # C04: crash sweep — a clean run, then a callback position of its trace raises (Exception / BaseException, with and
    # without on_exception handlers, second faults in handlers / finalize)
    'c04': dict(knobs=knobs_crash, crash=True, quick=(16, 6), thorough=(32, 45)),
    # C05: callback programs — callbacks trigger events on the same / other / unregistered models, remove models, raise
    'c05q': dict(knobs=_k(foreign_models=True, p_raise=0.06, p_cmds=0.35, p_on_exception=0.3, p_queued=1.0, max_models=3,
                          cmd_kinds=(TRIGGER, TRIGGER, TRIGGER, REMOVE), hist_kinds=(TRIGGER,) * 4 + (REMOVE,)),
                 quick=(16, 10), thorough=(32, 80)),
    'c05u': dict(knobs=_k(foreign_models=True, p_raise=0.06, p_cmds=0.35, p_on_exception=0.3, p_queued=0.0, max_models=3,
                          cmd_kinds=(TRIGGER, TRIGGER, TRIGGER, REMOVE), hist_kinds=(TRIGGER,) * 4 + (REMOVE,)),
                 quick=(16, 10), thorough=(32, 80)),
    # callbacks and callers that modify the machine: add_model / remove_model / dispatch, also from callbacks
    'members': dict(knobs=_k(foreign_models=True, max_models=4, p_raise=0.03, p_cmds=0.2, p_on_exception=0.2, p_queued=0.3,
                             cmd_kinds=(TRIGGER, TRIGGER, DISPATCH, REMOVE, ADD), max_history=10,
                             hist_kinds=(TRIGGER, TRIGGER, DISPATCH, DISPATCH, REMOVE, ADD, ADD)),
                    sync_only_cmds=(DISPATCH,), quick=(16, 8), thorough=(32, 60)),
    # unqueued re-entrancy on ONE model: a callback of an event triggers further events on the model in transition
    'retrigger': dict(knobs=_k(max_models=1, max_states=4, max_events=3, p_cmds=0.5, max_cmds=1, p_raise=0.02,
                               p_on_exception=0.2, p_queued=0.0, max_history=5, p_cond_false=0.3, p_share_cb=0.0),
                      steer='steer_retrigger', quick=(16, 8), thorough=(32, 60)),
    # the same configurations built incrementally: add_transition / add_states (overridden by the markup, diagram,
    # hierarchy and locking mixins) after the models are attached
    'grow': dict(knobs=_k(foreign_models=True, p_raise=0.05, p_cmds=0.3, p_on_exception=0.3, p_queued=0.3, max_models=3,
                          cmd_kinds=(TRIGGER, TRIGGER, TRIGGER, REMOVE), hist_kinds=(TRIGGER,) * 4 + (REMOVE,)),
                 steer='steer_grow', quick=(8, 10), thorough=(16, 80)),
    # Machine's default: the machine is its own model
    'selfmodel': dict(knobs=_k(max_models=1, p_raise=0.05, p_cmds=0.3, p_on_exception=0.3, p_queued=0.3, max_history=8),
                      steer='steer_self', quick=(8, 10), thorough=(16, 80)),
    # read-only API between the events: may_<event> / may_trigger polls in the history (they run prepare callbacks and
    # conditions), get_triggers / get_transitions / is_<state> / get_model_state reads after every command; compared are
    # their answers AND everything that follows them
    'polls': dict(knobs=_k(max_models=2, p_raise=0.04, p_cmds=0.15, p_on_exception=0.3, p_queued=0.3, max_history=10,
                           hist_kinds=(TRIGGER, TRIGGER, MAY, MAY), cmd_kinds=(TRIGGER, MAY)),
                  steer='steer_reads', quick=(16, 8), thorough=(32, 60)),
    # several models on one machine of which some are FALSY objects (empty containers, `__bool__` False — always, or only
    # while their state changes); every model's state is read after every command
    'falsy': dict(knobs=_k(max_models=3, p_raise=0.03, p_cmds=0.2, p_on_exception=0.2, p_queued=0.3, max_history=8,
                           cmd_kinds=(TRIGGER, TRIGGER, MAY), hist_kinds=(TRIGGER, TRIGGER, TRIGGER, DISPATCH, MAY)),
                  steer='steer_falsy', sync_only_cmds=(DISPATCH,), quick=(16, 8), thorough=(32, 60)),
    # a removed model keeps its triggers (Machine.remove_model): remove_model(m), add_model(another one), then m fires
    # events — the per-model side tables of the mixins (graphs, lock contexts, queues) must not get in the way
    'orphan': dict(knobs=_k(max_models=3, max_states=4, p_raise=0.03, p_cmds=0.15, p_on_exception=0.2, p_queued=0.3,
                            max_history=4, p_cond_false=0.2),
                   steer='steer_orphan', quick=(8, 10), thorough=(16, 80)),
    # malformed neighbourhood, correspondence only: transitions to unregistered destinations (the order "resolve the
    # destination, then exit" of the hierarchical classes is part of Model/HsmFlat.lean)
    'malformed': dict(knobs=lambda: flat.Knobs(max_models=2, p_unknown_event=0.0, p_bad_dest=0.12, p_raise=0.05,
                                               p_on_exception=0.3, p_cmds=0.2, max_history=8),
                      tie_only=True, quick=(8, 12), thorough=(16, 100)),
}


def steer_retrigger(d, rng):
    """steer the re-trigger stream to the interesting place: every state observes its exits and entries, and one or
    two callbacks that run BEFORE the state change (prepare_event / prepare / conditions / unless /
    before_state_change / before) trigger a further event on the model in transition at their first invocation"""
    nxt = (max(d.cb_slot) + 1) if d.cb_slot else 0
    for s in d.states:
        for key, slot in (('on_exit', SLOT['on_exit']), ('on_enter', SLOT['on_enter'])):
            if not s[key]:
                d.cb_slot[nxt] = slot
                s[key] = [nxt]
                nxt += 1
    early = (SLOT['prepare_event'], SLOT['prepare'], SLOT['conditions'], SLOT['unless'], SLOT['before_state_change'],
             SLOT['before'])
    pool = sorted(c for c, sl in d.cb_slot.items() if sl in early)
    if not pool:
        ev, ts = rng.choice(d.events)
        d.cb_slot[nxt] = SLOT['before']
        rng.choice(ts)['before'].append(nxt)
        pool = [nxt]
    evs = [e for e, _ts in d.events]
    for c in rng.sample(pool, min(len(pool), rng.randint(1, 2))):
        out = d.script.get((c, 0), ((), ('ret', True)))[1]
        if out[0] == 'ret' and d.cb_slot[c] in (SLOT['conditions'], SLOT['unless']):
            out = ('ret', d.cb_slot[c] == SLOT['conditions'])     # the candidate goes on after the re-trigger
        d.script[(c, 0)] = ([(TRIGGER, d.models[0], rng.choice(evs))], out)
    return d


def steer_orphan(d, rng):
    """remove_model(m) … add_model(k) for a model k that was never registered … then m fires every event twice"""
    m = rng.choice(d.models)
    k = max(d.models) + 1
    evs = [e for e, _ts in d.events]
    fire = [(TRIGGER, m, e) for _ in range(2) for e in evs]
    rng.shuffle(fire)
    pos = rng.randint(0, len(d.history))
    mid = d.history[pos:]
    cut = rng.randint(0, len(mid))
    d.history = d.history[:pos] + [(REMOVE, m, 0)] + mid[:cut] + [(ADD, k, 0)] + mid[cut:] + fire
    return d


def steer_falsy(d, rng):
    """2-3 models, commands spread over them, one or two of them falsy objects; states read after every command"""
    n = max(len(d.models), rng.randint(2, 3))
    d.models = list(range(n))

    def spread(c):
        return (c[0], rng.choice(d.models), c[2]) if c[0] in (TRIGGER, MAY) else c
    d.history = [spread(c) for c in d.history]
    for key, (cmds, out) in list(d.script.items()):
        d.script[key] = ([spread(c) for c in cmds], out)
    d.falsy = [[m, rng.choice((1, 2, 3, 3))] for m in rng.sample(d.models, rng.randint(1, 2))]
    d.reads = True
    return d


def steer_reads(d, rng):
    d.reads = True
    return d


def steer_grow(d, rng):
    d.build_mode = rng.choice((1, 2))
    return d


def steer_self(d, rng):
    d.self_model = True
    return d


def static_kinds(d):
    return set(c[0] for c in d.history) | set(c[0] for cmds, _o in d.script.values() for c in cmds)


def readds_removed_model(d):
    """some model is named by a remove_model AND by an add_model command: graph classes refuse (AttributeError, by
    design) to bind `get_graph` on a model that still carries it from its first registration"""
    cmds = list(d.history) + [c for cs, _o in d.script.values() for c in cs]
    rem = set(c[1] for c in cmds if c[0] == REMOVE)
    add = set(c[1] for c in cmds if c[0] == ADD)
    return bool(rem & add)


def raw(d):
    """a generated description as the synchronous classes run it: plain functions, scripted conditions"""
    d.kinds, d.const, d.qmode = {}, {}, int(bool(d.queued))
    return d


def gen(stream, rng):
    """-> list of descriptions (the crash stream yields several variants of one base)"""
    cf = STREAMS[stream]
    base = raw(flat.gen_flat(rng, cf['knobs']()))
    base.trans_form = rng.choice((0, 1))       # dictionaries / eight-entry lists (positional expansion)
    if cf.get('steer'):
        base = globals()[cf['steer']](base, rng)
    out = [base]
    if cf.get('crash'):
        from transitions import Machine
        clean = Run9(base, Machine).run()
        vs = list(c04.variants(base, clean.items, rng, False))
        out = [raw(d) for d, _info in (rng.sample(vs, 3) if len(vs) > 3 else vs)] or [base]
    return out


def decorated(stream, d, rng):
    """the description the ASYNC classes (and their `Machine` reference) run: C07's regime imposed on a copy —
    conditions sharing a stage become deterministic predicates, a callback that sits in a stage with siblings neither
    carries commands nor raises (`gather` runs a stage's callbacks concurrently: C07's listed finding), commands that
    would put several chains of triggers in flight (dispatch) are dropped; every callback is independently a plain
    function, a coroutine function or a coroutine function that suspends once.  None when a stage lists a callback
    twice (outside the domain on which `gather` is modelled)."""
    d = aflat.from_json(to_json(d))
    drop = set(STREAMS[stream].get('sync_only_cmds', ()))
    d.history = [c for c in d.history if c[0] not in drop] or [(TRIGGER, d.models[0], d.events[0][0])]
    multi = set()
    for kind, l in aflat.stage_lists(d):
        if len(set(l)) != len(l):
            return None
        if len(l) >= 2:
            multi.update(l)
            if kind == 'conds':
                for c in l:
                    d.const[c] = ('ret', rng.random() >= 0.35)
    for key in list(d.script):
        cmds, out = d.script[key]
        cmds = [c for c in cmds if c[0] not in drop]
        if out[0] == 'raise' and out[1] in (11, 12):
            # StopIteration / StopAsyncIteration cannot leave a coroutine frame (PEP 479 turns them into RuntimeError):
            # language semantics, not the library's — the async copy scripts another builtin type (IndexError)
            out = ('raise', 8, out[2])
        if key[0] in d.const:
            del d.script[key]
            continue
        if key[0] in multi:
            cmds = []
            if out[0] == 'raise':
                out = ('ret', True)
        if cmds or tuple(out) != ('ret', True):
            d.script[key] = (cmds, out)
        else:
            del d.script[key]
    carriers = set(c for (c, _k), (cmds, _o) in d.script.items() if cmds)
    for c in sorted(d.cb_slot):
        k = rng.randrange(3)
        if c in carriers and k == 0:
            k = rng.choice((1, 2))
        d.kinds[c] = k
    return d


# ---------------------------------------------------------------------------------------------
# judging one description on one class
# ---------------------------------------------------------------------------------------------

def show(it):
    return common.show_item(it)


def first_diff(a, b):
    return next((i for i, (x, y) in enumerate(zip(a, b)) if x != y), min(len(a), len(b)))


def observe(d, run, is_async):
    """what the statement compares: callback sequence (slot, callback, model, arguments, state seen), API results'
    truth values, exception kinds and type names, final model list and states"""
    items = aflat.obs(d, run.items) if is_async else list(run.items)
    return items, run.final(), sorted(run.exc_names), run.reads


def reference(d, cls=None):
    from transitions import Machine
    return Run9(d, cls or Machine).run()


def run_class(d, name, via):
    cls, kw = resolve(name, via)
    return Run9(d, cls, kw, is_async='Async' in name).run(watchdog=('Locked' in name or 'Async' in name))


def compare(d, ref, run, name):
    """None | details of the first difference between `Machine` (ref) and the class"""
    is_async = 'Async' in name
    if run.hang:
        return {'what': 'machine-hangs', 'class': name}
    if run.bad:
        return {'what': 'arguments', 'class': name, 'bad': run.bad[:3]}
    if is_async and run.leftover:
        return {'what': 'callbacks-outlive-their-trigger', 'class': name, 'tasks': run.leftover}
    oi, of, oe, orr = observe(d, ref, is_async)
    ci, cf, ce, crr = observe(d, run, is_async)
    if oi == ci and of == cf and oe == ce and orr == crr:
        return None
    k = first_diff(oi, ci)
    reads = {}
    if orr != crr:
        j = first_diff(orr, crr)
        a, b = (orr[j] if j < len(orr) else []), (crr[j] if j < len(crr) else [])
        reads = {'after_command': j, 'Machine': [x for x in a if x not in b][:4], name: [x for x in b if x not in a][:4]}
    return {'what': 'differs-from-Machine', 'class': name, 'first_difference_at': k, 'read_only_answers': reads,
            'Machine': [show(i) for i in oi[max(0, k - 4):k + 4]],
            name: [show(i) for i in ci[max(0, k - 4):k + 4]],
            'Machine_final': [of[0], sorted(of[1].items())], name + '_final': [cf[0], sorted(cf[1].items())],
            'exception_types': {'Machine': oe[:6], name: ce[:6]} if oe != ce else {}}


class NotBuilt(object):
    """stand-in for the run of a class whose construction raised"""
    hang = False
    items = ()
    reads = ()
    exc_names = ()
    bad = ()
    leftover = 0

    def final(self):
        return [], {}


def judge(case, ref=None, d=None):
    """case = {'stream', 'desc', 'cls', 'via'} -> ([Failure], run, ref)"""
    d = d or aflat.from_json(case['desc'])
    ref = ref or reference(d)
    try:
        run = run_class(d, case['cls'], case['via'])
    except (common.MachineryError, KeyboardInterrupt):
        raise
    except BaseException as e:      # noqa
        # `Machine` was built from this description and ran it; the class cannot even be constructed / driven
        import traceback
        run = NotBuilt()
        where = traceback.extract_tb(e.__traceback__)[-1]
        return [Failure('monitor', 'class-cannot-run-what-Machine-runs', case,
                        {'class': case['cls'], 'raises': type(e).__name__, 'message': str(e)[:120],
                         'at': '%s:%d %s' % (os.path.basename(where.filename), where.lineno, where.name)},
                        signature='C09.class-cannot-run-what-Machine-runs')], run, ref
    out = []
    diff = compare(d, ref, run, case['cls'])
    if diff is not None:
        what = diff.pop('what')
        out.append(Failure('monitor', what, case, diff, signature='C09.' + what))
    return out, run, ref


def to_json(d):
    return aflat.to_json(d)


def classes_for(d, dd, tier, rng):
    """(name, via) pairs a description runs on"""
    names = list(SYNC_CLASSES[1:])
    if dd is not None:
        names += ASYNC_CLASSES
    if readds_removed_model(d):
        names = [n for n in names if 'Graph' not in n]
    return [(n, 'name' if rng.random() < 0.5 else 'factory') for n in names]


def _corr(kind, what, stream, descs, runs, clsname):
    out = []
    idx = sorted(runs)
    if not idx:
        return out
    enc = aflat.enc_aflat if kind == 'aflat' else (lambda d: d.enc_case())
    for i, a in zip(idx, common.batch_driver([(kind, enc(descs[i])) for i in idx])):
        m = flat.parse_model_answer(a)
        if m is None:
            continue
        items, models, st = m
        r = runs[i]
        if items != r.items or (models, st) != r.final():
            k = first_diff(items, r.items)
            out.append(Failure('correspondence', what, {'stream': stream, 'desc': to_json(descs[i]), 'cls': clsname, 'via': 'name'}, {
                'first_difference_at': k, 'model': [show(x) for x in items[max(0, k - 4):k + 3]],
                'impl': [show(x) for x in r.items[max(0, k - 4):k + 3]],
                'model_final': [models, sorted(st.items())], 'impl_final': [r.final()[0], sorted(r.final()[1].items())]}))
    return out


def corr_failures(stream, descs, refs, adescs, aruns, hruns=None):
    """the tie of the theorems' models to these inputs: Lean flat engine == `Machine` run on every generated description;
    Lean depth-1 hierarchical engine (Model/HsmFlat.lean) == `HierarchicalMachine` run; Lean async engine ==
    `AsyncMachine` run on the trigger-only descriptions"""
    out = _corr('flat', 'flat_model_eq_Machine', stream, descs, dict(enumerate(refs)), 'Machine')
    out += _corr('hflat', 'hsm_flat_model_eq_HierarchicalMachine', stream, descs, hruns or {}, 'HierarchicalMachine')
    tied = {i: r for i, r in aruns.items() if static_kinds(adescs[i]) <= {TRIGGER}}
    out += _corr('aflat', 'async_model_eq_AsyncMachine', stream, adescs, tied, 'AsyncMachine')
    return out


def fingerprint(d, name):
    return hashlib.sha1(repr((aflat.enc_aflat(d), name)).encode()).hexdigest()[:16]


def bump(st, k, kk, n=1):
    h = st.setdefault(k, {})
    h[kk] = h.get(kk, 0) + n


def chunk(seed, idx, n, stream, tier):
    rng = random.Random('C09/%s/%d/%d' % (stream, seed, idx))
    ex = Exploration()
    descs, refs, adescs, aruns, hruns = [], [], {}, {}, {}
    hung = False
    for _ in range(n):
        for d in gen(stream, rng):
            ref = reference(d)
            if STREAMS[stream].get('tie_only'):
                # malformed neighbourhood (unregistered destinations): no class is compared with another one; the two
                # engine models are tied to their classes (correspondence only)
                descs.append(d)
                refs.append(ref)
                hruns[len(descs) - 1] = run_class(d, 'HierarchicalMachine', 'name')
                ex.evaluations += 2
                bump(ex.stats, 'stream', stream, 2)
                continue
            dd = decorated(stream, d, rng)
            aref = reference(dd) if dd is not None else None
            descs.append(d)
            refs.append(ref)
            if dd is not None:
                adescs[len(descs) - 1] = dd
            for name, via in classes_for(d, dd, tier, rng):
                if hung and ('Locked' in name or 'Async' in name):
                    continue        # one hang per chunk is enough: every further one costs the watchdog time-out
                use_d, use_ref = (dd, aref) if 'Async' in name else (d, ref)
                case = {'stream': stream, 'desc': to_json(use_d), 'cls': name, 'via': via}
                fs, run, _ = judge(case, use_ref, use_d)
                hung = hung or run.hang
                if name == 'AsyncMachine' and not run.hang:
                    aruns[len(descs) - 1] = run
                if name == 'HierarchicalMachine':
                    hruns[len(descs) - 1] = run
                ex.evaluations += 1
                ex.traces_validated += 1
                executed = any(i[0] == 'ret' and i[2] == 1 for i in use_ref.items)
                if executed:
                    ex.nontrivial.add(fingerprint(use_d, name))
                bump(ex.stats, 'class', name)
                bump(ex.stats, 'reached_via', via)
                bump(ex.stats, 'stream', stream)
                if 'Async' in name:
                    bump(ex.stats, 'async', 'traces_where_raw_async_order_differs_from_sync', int(run.items != use_ref.items))
                ex.failures += fs
                if len(ex.samples) < 1 and executed and len(use_ref.items) > 12 and name != 'LockedMachine':
                    ex.samples.append({'stream': stream, 'class': name, 'via': via, 'queued': d.queued, 'history': use_d.history,
                                       'trace': [show(i) for i in run.items[:40]]})
            flatcheck.trace_stats(ex.stats, d, ref)
        if len(ex.failures) >= 3:
            break       # enough counterexamples from this chunk
    ex.failures += corr_failures(stream, descs, refs, adescs, aruns, hruns)
    return ex


def shrink_steps(case):
    for c in flatcheck.shrink_steps({'stream': case['stream'], 'desc': case['desc']}):
        yield dict(case, desc=c['desc'])
    d = case['desc']
    for i, (c, k) in enumerate(d['kinds']):
        if k and not any(key[0] == c and v[0] for key, v in d['script']):
            nd = copy.deepcopy(d)
            nd['kinds'][i][1] = 0
            yield dict(case, desc=nd)
    if case['via'] != 'name':
        yield dict(case, via='name')


class C09(runner.Check):
    prop = 'C09'
    level = 'proof'
    theorems = ('TM.C09_factory_exact', 'TM.C09_cls_triples', 'TM.C09_ctor_compatible', 'TM.C09_override_signatures',
                'TM.C09_graph_noninterference', 'TM.C09_markup_noninterference', 'TM.C09_side_table_write_only',
                'TM.Locked.C09_locked_single_thread', 'TM.Locked.C09_locks_once_default',
                'TM.C09_async_flat', 'TM.C09_async_graph_flat',
                'TM.C09_hsm_flat')
    manifest = dict(
        level='proof', design='DESIGN.md 4/C09 + design_notes/C09.md',
        text="Lean 4 theorems, unbounded: (1) the flat engine instrumented with a side table in exactly the places where "
             "TransitionGraphSupport._change_state, the async _change_state copies and GraphMachine.add_model write "
             "model_graphs / the markup cache, for ANY update functions, equals the plain engine once the table is "
             "projected away (C09_graph_noninterference, C09_markup_noninterference, C09_side_table_write_only; all "
             "configurations, scripts with callbacks that trigger / raise / add / remove models, histories); (2) with one "
             "thread the lock protocol of locking.py never waits, cannot deadlock and computes what the unlocked sequential "
             "semantics computes (C09_locked_single_thread); (3) the async engine agrees with the synchronous one up to "
             "C07's observation map (C09_async_flat = C07_flat_partial; C09_async_graph_flat composes it with (1)); (4) the "
             "depth-1 collapse of NestedTransition._change_state (Model/HsmFlat.lean: destination resolved first, the state "
             "the model is in is exited) is the flat engine for EVERY script, re-entrant calls included, on configurations "
             "with registered destinations (C09_hsm_flat; full strength since /repo ba1cc46); (5) "
             "over a table regenerated from the LIVE classes before every build, by decide: the factory returns for each "
             "of the 12 supported feature tuples a class whose issubclass flags are the tuple and raises ValueError for "
             "the 4 locked+asyncio tuples (C09_factory_exact), every class resolves state_cls/event_cls/transition_cls "
             "to the family its composition needs (C09_cls_triples), takes Machine's constructor parameters with "
             "Machine's defaults (C09_ctor_compatible), and every function that replaces a method of Machine / State / Event / "
             "Transition anywhere in an MRO keeps the base method's parameter order and defaults "
             "(C09_override_signatures). Tie to the code = the property's monitor: the C01/C04/C05/membership "
             "generators run on Machine and on the 11 other classes (by name and through the factory, Mermaid backend) and "
             "model states, result truth values, exception types and callback sequences are compared pairwise.",
        note="Trusted: Lean kernel; hand-written models Model/Core.lean, Model/Side.lean (hook placement read off diagrams.py / "
             "asyncio.py), Model/Locked.lean, Model/Async.lean; harness recorders and the table translator. The MRO "
             "composition itself is Python and is covered by the differential only (sampling). C09_nested_flat against the "
             "full nested engine is NOT proved (needs the nested engine model of C02); Model/HsmFlat.lean is the depth-1 "
             "collapse of one function, tied to HierarchicalMachine by trace equality; everything else about the "
             "hierarchical classes is decided by the differential (the former finding F-C09-hsm-retrigger-exit is fixed; "
             "its witness is a regression case in corpus/C09). Async classes are compared inside C07's regime; only the "
             "Mermaid diagram backend is importable in the sandbox.",
        technique='Lean 4 proof (structural simulation / erasure, LTS invariant, decide over a generated table) + '
                  'implementation-level differential monitor on 12 classes + model correspondence',
        engines=('table-translator',))
    rule = ('descriptions from the flat generator with the knobs of C01 (documented order), C04 (crash sweep: a callback '
            'position of a clean trace raises Exception / BaseException, with / without on_exception, second faults), C05 '
            '(callbacks that trigger events on the same / other / unregistered models, remove models, raise; queued and '
            'unqueued), a membership stream (add_model / remove_model / dispatch from callers and callbacks), the same '
            'configurations built incrementally (add_states / add_transition after the models are attached), the machine as '
            'its own model, several models of which some are falsy objects (__len__ == 0 / __bool__ False, always or only '
            'while their state changes), read-only API between the events (may_<event> / may_trigger polls in histories and callbacks; '
            'get_triggers / get_transitions / is_<state> / get_model_state reads after every command), a removed model that '
            'keeps firing events after another model was added, and an unqueued '
            're-trigger stream on one model (+ a malformed stream with unregistered destinations, model '
            'correspondence only); every description runs on Machine and on the other 11 classes, each reached by name or '
            'through MachineFactory.get_predefined (coin flip); transitions defined as dictionaries or as eight-entry lists '
            '(positional expansion), coin flip per description; async classes: callbacks independently plain / coroutine / suspending coroutine; a case = '
            '(description, class); non-trivial = the reference run executes at least one transition; distinct = different '
            'protocol encoding or class')
    trusted = ('hand-written models lean/Model/Core.lean (tied to Machine by trace equality on every generated case), '
               'lean/Model/HsmFlat.lean (tied to HierarchicalMachine likewise), lean/Model/Side.lean (placement of the '
               'side-table hooks), lean/Model/Locked.lean, lean/Model/Async.lean (tied to AsyncMachine on trigger-only cases)',
               'harness/extract_tables.py (issubclass / inspect.signature readings written to lean/Generated/Tables.lean)',
               'harness/props/c09.py recorders and observation (aflat.obs for async classes); Mermaid is the only diagram '
               'backend exercised')

    def assumptions(self):
        return [
            '"base configuration" = what the flat generators of C01/C04/C05 build through Machine\'s constructor: registered '
            'source and destination states, event names the machine knows; a transition whose destination is NOT a '
            'registered state is malformed and excluded (all classes raise ValueError-or-KeyError there, but Machine runs '
            'the source\'s on_exit callbacks first and HierarchicalGraphMachine raises KeyError) — reported as an '
            'observation in design_notes/C09.md, not judged',
            'event names the machine does not know are outside the statement and are not generated',
            'async classes are compared inside C07\'s regime (a callback that awaits triggers or raises sits alone in its '
            'stage, conditions sharing a stage are deterministic, one chain of triggers in flight: no dispatch) and up to '
            'aflat.obs (callback finish times and the calls of conditions after the first failing one are not compared); '
            'the gather finding of C07 is not re-judged here',
            'by design and not judged: graph classes refuse to re-bind get_graph on a model that was removed and is added '
            'again (descriptions that remove and add the same model skip the graph classes); locked classes raise KeyError '
            'instead of ValueError when an unregistered model is removed (normalised by the harness); '
            'LockedGraphMachine.add_model takes no model_context (not used)',
            'locked classes run on one thread under a watchdog; thread schedules are C06\'s business',
            'StopIteration / StopAsyncIteration raised by a callback cannot leave a coroutine frame (PEP 479: RuntimeError): '
            'language semantics — the async copy of a description scripts IndexError instead',
            'hierarchical classes: only the depth-1 collapse of NestedTransition._change_state is modelled in Lean '
            '(Model/HsmFlat.lean, tied by trace equality); the rest of the nested engine on flat configurations is decided '
            'by the differential; no difference is listed as known (a return of the re-trigger defect fixed in /repo '
            'ba1cc46 is a violation)',
        ]

    # -- run -------------------------------------------------------------------------------------
    def main(self, tier):
        """regenerate the table from the live classes, then the framework's build / audit / explore / verdict.

        The table theorems live in `Props/C09Tables.lean`, which only this check builds (a change of the live classes
        must not break the build other properties share): for the duration of `Check.main` the framework's build and
        axiom audit are extended by that module; a failed build of it is a broken proof obligation of C09."""
        try:
            self.table_status = extract_tables.regenerate()
        except Exception as e:      # noqa
            print('MACHINERY-ERROR property=C09 table translator failed: %r' % (e,))
            return 2
        orig_build, orig_axioms = common.lake_build, common.print_axioms

        def build(targets=()):
            ok, out = orig_build(targets)
            ok2, out2 = orig_build([TABLE_MODULE])
            return ok and ok2, out + out2

        def axioms(theorems, imports=('Props',)):
            return orig_axioms(theorems, imports=tuple(imports) + (TABLE_MODULE,))
        common.lake_build, common.print_axioms = build, axioms
        try:
            return runner.Check.main(self, tier)
        finally:
            common.lake_build, common.print_axioms = orig_build, orig_axioms

    def leanchecker(self):
        import subprocess
        p = subprocess.run(['lake', 'env', 'leanchecker', 'Props.C09', TABLE_MODULE], cwd=common.LEAN,
                           stdout=subprocess.PIPE, stderr=subprocess.STDOUT, text=True)
        if p.returncode != 0:
            raise common.MachineryError('leanchecker failed: %s' % p.stdout[-1500:])

    def explore(self, tier, seed):
        ex = Exploration()
        # the table obligations, evaluated on the live classes (they stand in for the Lean theorems when the
        # generated table no longer lets `decide` succeed — Check.main then has a broken build)
        tf = table_failures()
        ex.evaluations += 16 + 12
        ex.stats['table'] = {'factory_rows': 16, 'class_rows': 12, 'failures': len(tf),
                             'override_rows': len(extract_tables.live_table()['overrides']),
                             'regenerated': getattr(self, 'table_status', 'n/a')}
        for what, case, details in tf:
            ex.failures.append(Failure('monitor', what, case, details, signature='C09.table.' + what))
        # corpus first: regression cases (witnesses of fixed findings, minimised past disagreements)
        cdir = os.path.join(common.CORPUS, self.prop)
        for fname in sorted(os.listdir(cdir)) if os.path.isdir(cdir) else []:
            with open(os.path.join(cdir, fname)) as fh:
                case = json.load(fh)['case']
            fs, _run, _ref = judge(case)
            ex.evaluations += 1
            ex.traces_validated += 1
            bump(ex.stats, 'stream', 'corpus')
            ex.failures += fs
        payloads = []
        for name, cf in STREAMS.items():
            nch, per = cf['quick' if tier != 'thorough' else 'thorough']
            payloads += [(seed, i, per, name, tier) for i in range(nch)]
        for part in runner.parallel(chunk, payloads):
            ex.merge(part)
        known = set(k.get('signature') for k in self.known())
        ex.failures.sort(key=lambda f: (f.signature in known, f.kind != 'monitor'))
        done = set()
        for f in ex.failures:
            key = (f.kind, f.what, f.signature)
            if key in done or len(done) >= 4 or 'desc' not in f.case:
                continue
            done.add(key)
            f.case = runner.shrink(f.case, self.fails_like(f), shrink_steps,
                                   budget=6 if f.what == 'machine-hangs' else (40 if f.signature in known else 300))
            self.annotate(f)
        return ex

    def fails_like(self, f):
        def pred(case):
            if f.kind == 'correspondence':
                return any(x.what == f.what for x in self.rejudge_corr(case))
            return any(x.what == f.what and x.signature == f.signature for x in judge(case)[0])
        return pred

    def rejudge_corr(self, case):
        d = aflat.from_json(case['desc'])
        try:
            if case['cls'] == 'AsyncMachine':
                return corr_failures(case['stream'], [], [], {0: d}, {0: run_class(d, 'AsyncMachine', 'name')})
            if d.const:
                return []
            hruns = {0: run_class(d, 'HierarchicalMachine', 'name')} if case['cls'] == 'HierarchicalMachine' else {}
        except (common.MachineryError, KeyboardInterrupt):
            raise
        except BaseException:       # noqa — the class cannot be built: that is the monitor's finding, not a model tie
            return []
        return corr_failures(case['stream'], [d], [reference(d)], {}, {}, hruns)

    def annotate(self, f):
        if f.kind == 'correspondence':
            return
        fs, run, ref = judge(f.case)
        d = aflat.from_json(f.case['desc'])
        is_async = 'Async' in f.case['cls']
        f.details['shrunk_Machine_trace'] = [show(i) for i in observe(d, ref, is_async)[0]]
        f.details['shrunk_%s_trace' % f.case['cls']] = [show(i) for i in observe(d, run, is_async)[0]]
        for x in fs:
            if x.what == f.what:
                f.details['shrunk_details'] = x.details

    def search(self, tier, seed, failures):
        """after a correspondence-only break or a broken build: the table predicates on the live classes first (a
        failed `decide` over the regenerated table has its counterexample there), then fresh seeds"""
        found = [Failure('monitor', what, case, details, signature='C09.table.' + what)
                 for what, case, details in table_failures()]
        if found:
            return found
        payloads = [(seed + 7919, i, 12, name, 'thorough') for name in STREAMS for i in range(8)]
        known = set(k.get('signature') for k in self.known())
        for part in runner.parallel(chunk, payloads):
            found += [f for f in part.failures if f.kind == 'monitor' and f.signature not in known]
        for f in found[:1]:
            f.case = runner.shrink(f.case, self.fails_like(f), shrink_steps)
            self.annotate(f)
        return found

    def replay(self, path):
        with open(path) as fh:
            payload = json.load(fh)
        case = payload.get('case')
        if not case:
            print('no concrete input in this replay file: broken obligation', payload.get('broken_obligation'))
            tf = table_failures()
            for what, c, details in tf:
                print('FAIL table', what, json.dumps(c), json.dumps(details, default=str))
            return 1
        if 'table' in case:
            tf = [x for x in table_failures() if x[1] == case]
            for what, c, details in tf:
                print('FAIL table', what, json.dumps(c), json.dumps(details, default=str))
            if not tf:
                print('the live classes satisfy the table predicates for', json.dumps(case))
            return 1 if tf else 0
        fs, run, ref = judge(case)
        d = aflat.from_json(case['desc'])
        is_async = 'Async' in case['cls']
        print('stream %s class %s (via %s) queued=%r' % (case['stream'], case['cls'], case['via'], d.queued))
        print('Machine trace:')
        for i in observe(d, ref, is_async)[0]:
            print('   ', show(i))
        print('%s trace:' % case['cls'])
        for i in observe(d, run, is_async)[0]:
            print('   ', show(i))
        fs += self.rejudge_corr(case)
        for f in fs:
            print('FAIL', f.kind, f.what, f.signature, json.dumps(f.details, default=str)[:800])
        return 1 if fs else 0


CHECK = C09()
