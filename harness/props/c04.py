"""C04 — a failing callback is contained: outcome, state, usability at any crash point.

Crash sweep: for generated (configuration, history) pairs the clean run is recorded on the real
`Machine`, then the crash position is swept over the `call` items of that trace (Exception and
BaseException, with and without on_exception handlers, optionally with a second fault in a handler or
in a finalize callback); every variant is run on the real classes and judged by

  * the verified containment monitor `C04.checkTrace` (unqueued),
  * equality with the Lean engine model (all sync classes share the flat engine's behaviour), and
  * the survivor-vs-fresh differential: a continuation history on the machine that survived the
    failure must behave exactly like on a fresh machine placed in the same state (for the locked
    classes the continuation runs on another thread: a leaked lock shows as a hang → failure).
"""
import copy
import random
import threading

from .. import common, flat, flatcheck, runner
from ..common import SLOT
from ..runner import Exploration, Failure

SYNC_CLASSES = ['Machine', 'HierarchicalMachine', 'LockedMachine', 'LockedHierarchicalMachine',
                'GraphMachine', 'HierarchicalGraphMachine', 'LockedGraphMachine', 'LockedHierarchicalGraphMachine']


def get_cls(name):
    from transitions.extensions import MachineFactory  # noqa: F401
    import transitions.extensions as ext
    import transitions
    if name == 'Machine':
        return transitions.Machine, {}
    cls = getattr(ext, name)
    kw = {'graph_engine': 'mermaid'} if 'Graph' in name else {}
    return cls, kw


def knobs():
    return flat.Knobs(max_models=2, p_unknown_event=0.0, max_history=4, p_queued=0.3, p_on_exception=0.0,
                      max_states=4, max_events=2, p_custom_attr=0.15, p_ignore_flip=0.2)


def variants(base, items, rng, all_positions):
    """crash variants of `base`: (desc, info)"""
    calls = [(i, it) for i, it in enumerate(items) if it[0] == 'call']
    if not calls:
        return
    if not all_positions and len(calls) > 8:
        calls = rng.sample(calls, 8)
    # invocation index of each call item = number of earlier calls of the same callback
    seen = {}
    order = {}
    for i, it in enumerate(items):
        if it[0] == 'call':
            order[i] = seen.get(it[2], 0)
            seen[it[2]] = order[i] + 1
    for pos, it in calls:
        cid, k = it[2], order[pos]
        for handlers in (False, True):
            d = flat.FlatDesc.from_json(copy.deepcopy(base.to_json()))
            kind = 4 if rng.random() < 0.35 else 3
            nn = rng.randrange(3)
            if rng.random() < 0.2:      # a builtin exception type (KeyError, IndexError, OSError, StopIteration, …)
                kind, nn = rng.choice([2, 6, 7, 8, 9, 10, 11, 11, 12, 13, 13]), 0
            d.script[(cid, k)] = ((), ('raise', kind, nn))
            extra = None
            if handlers:
                hid = max(d.cb_slot) + 1
                d.cb_slot[hid] = SLOT['on_exception']
                d.on_exception = [hid]
                if rng.random() < 0.5:
                    h2 = hid + 1
                    d.cb_slot[h2] = SLOT['on_exception']
                    d.on_exception.append(h2)
                if rng.random() < 0.2:          # second fault: the handler itself raises
                    d.script[(hid, 0)] = ((), ('raise', 3, 2))
                    extra = 'handler-raises'
            else:
                d.on_exception = []
            if d.finalize and rng.random() < 0.2:   # second fault: a finalize callback raises
                f = rng.choice(d.finalize)
                for kk in range(6):
                    d.script.setdefault((f, kk), ((), ('raise', 4 if rng.random() < 0.5 else 3, 1)))
                extra = (extra + '+' if extra else '') + 'finalize-raises'
            yield d, {'pos': pos, 'slot': common.SLOTS[it[1]], 'handlers': handlers, 'exc': {3: 'User', 4: 'Base'}.get(kind, 'builtin-%d' % kind),
                      'extra': extra}


def monitor_req(d, r):
    ms = []
    for m in d.models:
        ms += [m, d.initial]
    return ('c04', d.enc_cfg() + [len(d.models)] + ms + common.enc_items(r.items))


def run_on(d, clsname):
    cls, kw = get_cls(clsname)
    return flat.FlatRun(d, machine_cls=cls, extra_kwargs=kw).run()


def continuation(d, clsname, r, cont):
    """(survivor items, fresh items, hang?)"""
    cls, kw = get_cls(clsname)
    n0 = len(r.items)
    models, st = r.final()
    fresh = flat.FlatRun(d, machine_cls=cls, extra_kwargs=kw)
    for m in d.models:
        if m in st and st[m] != 999999:
            fresh.machine.set_state(flat.sname(st[m]), fresh.model_objs[m])
    fresh.counts = dict(r.counts)
    fresh.next_tag = r.next_tag
    fresh.tag_event = dict(r.tag_event)

    def go(run):
        for c in cont:
            try:
                run.do_cmd(c)
            except BaseException as e:
                if isinstance(e, (common.MachineryError, KeyboardInterrupt)):
                    raise
    hang = False
    if clsname.startswith('Locked'):
        t = threading.Thread(target=go, args=(r,), daemon=True)
        t.start()
        t.join(2.0)
        hang = t.is_alive()
    else:
        go(r)
    go(fresh)
    return r.items[n0:], fresh.items, hang


def judge_case(case):
    """run one variant on one class; returns (failures, run, nontrivial)"""
    d = flat.FlatDesc.from_json(case['desc'])
    clsname = case['cls']
    out = []
    ans = common.batch_driver([('flat', d.enc_case())])[0]
    r = run_on(d, clsname)
    if r.bad:
        out.append(Failure('monitor', 'arguments', case, {'bad': r.bad[:5]}, signature='C04.args'))
    for tag, obj in sorted(getattr(r, 'raised_objs', {}).items()):
        if flat.foreign_other(r, obj):
            out.append(Failure('monitor', 'exception-replaced-on-the-way-to-the-caller', case,
                               {'class': clsname, 'call': tag, 'caller_got': '%s: %s' % (type(obj).__name__, str(obj)[:80]),
                                'scripted': [type(x).__name__ for x in getattr(r, 'scripted', [])]},
                               signature='C04.identity'))
            break
    mon = None
    if not d.queued:
        mon = common.batch_driver([monitor_req(d, r)])[0]
        if mon != 'ok':
            out.append(Failure('monitor', 'containment-monitor', case,
                               {'monitor': mon, 'class': clsname, 'impl_trace': [common.show_item(i) for i in r.items]},
                               signature='C04.monitor'))
    m = flat.parse_model_answer(ans)
    if m is not None:
        items, models, st = m
        if items != r.items or (models, st) != r.final():
            k = next((i for i, (a, b) in enumerate(zip(items, r.items)) if a != b), min(len(items), len(r.items)))
            out.append(Failure('correspondence', 'trace_eq', case, {
                'class': clsname, 'first_difference_at': k,
                'model': [common.show_item(i) for i in items[max(0, k - 4):k + 3]],
                'impl': [common.show_item(i) for i in r.items[max(0, k - 4):k + 3]],
                'model_final': [models, sorted(st.items())],
                'impl_final': [r.final()[0], sorted(r.final()[1].items())]}))
    # state afterwards must be a registered state
    for mm, stv in r.final()[1].items():
        if stv == 999999:
            out.append(Failure('monitor', 'state-not-registered', case, {'class': clsname}, signature='C04.state'))
    a, b, hang = continuation(d, clsname, r, [tuple(c) for c in case['cont']])
    if hang:
        out.append(Failure('monitor', 'survivor-hangs', case, {'class': clsname}, signature='C04.hang'))
    elif a != b:
        k = next((i for i, (x, y) in enumerate(zip(a, b)) if x != y), min(len(a), len(b)))
        out.append(Failure('monitor', 'survivor-differs-from-fresh', case, {
            'class': clsname, 'first_difference_at': k,
            'survivor': [common.show_item(i) for i in a[max(0, k - 3):k + 4]],
            'fresh': [common.show_item(i) for i in b[max(0, k - 3):k + 4]]}, signature='C04.survivor'))
    return out, r


def chunk(seed, idx, nbase, tier):
    rng = random.Random('C04/%d/%d' % (seed, idx))
    kn = knobs()
    ex = Exploration()
    hung = False
    for _ in range(nbase):
        base = flat.gen_flat(rng, kn)
        clean = flat.FlatRun(base).run()
        evs = [e for e, _ in base.events]
        for d, info in variants(base, clean.items, rng, tier == 'thorough'):
            cont = [(flat.TRIGGER, rng.choice(d.models), rng.choice(evs)) for _ in range(3)]
            classes = ['Machine', rng.choice(SYNC_CLASSES[1:])] if tier == 'quick' else SYNC_CLASSES
            for clsname in classes:
                if hung and clsname.startswith('Locked'):
                    continue        # one leaked lock is enough: every further case would cost the hang timeout
                case = {'desc': d.to_json(), 'cls': clsname, 'cont': cont, 'info': info}
                fs, r = judge_case(case)
                ex.evaluations += 1
                ex.traces_validated += 1
                ex.nontrivial.add(flatcheck.fingerprint(d) + clsname)
                st = ex.stats
                for key, val in (('crash_slot', info['slot']), ('class', clsname), ('handlers', str(info['handlers'])),
                                 ('exc', info['exc']), ('second_fault', str(info['extra'])),
                                 ('queued', str(d.queued))):
                    h = st.setdefault(key, {})
                    h[val] = h.get(val, 0) + 1
                if len(ex.samples) < 2:
                    ex.samples.append({'class': clsname, 'crash': info, 'history': d.history,
                                       'trace': [common.show_item(i) for i in r.items[:40]]})
                ex.failures += fs
                hung = hung or any(f.what == 'survivor-hangs' for f in fs)
    return ex


def shrink_steps(case):
    for c in flatcheck.shrink_steps({'stream': 'x', 'desc': case['desc']}):
        yield dict(case, desc=c['desc'])
    for i in range(len(case['cont'])):
        c = copy.deepcopy(case)
        del c['cont'][i]
        yield c


class C04(runner.Check):
    prop = 'C04'
    level = 'proof'
    theorems = ('TM.C04_step', 'TM.C04_history', 'TM.C04_state_of_failure', 'TM.C04_finalize_never_replaces',
                'TM.C04_no_later_stage',
                # hierarchical engine (Props/C04N.lean)
                'TM.C04N_step', 'TM.C04N_step_noCmds', 'TM.C04N_history', 'TM.C04N_monitor_accepts_model',
                'TM.C04N_no_later_stage', 'TM.C04N_finalize_never_replaces', 'TM.C04N_outcome',
                'TM.C04N_state_of_failure', 'TM.C04N_state_of_success', 'TM.C04N_conf_frozen', 'TM.C04N_conf_reach',
                'TM.C04N_usable_afterwards', 'TM.C04N_sameMachine_step')
    manifest = dict(
        level='proof', design='DESIGN.md 4/C04',
        text="Lean 4 theorems C04_step / C04_history: for every flat configuration, every history and EVERY script without re-entrant commands (any callback, condition, on_exception handler or finalize callback may raise any exception at any invocation) the engine model's trace is accepted by the containment acceptor (segment cut after the first raising call, handlers iff registered, finalize always with its own exception swallowed, outcome raised/normal, state = source or destination by failing stage) and the machine is left idle. HIERARCHICAL engine (Props/C04N.lean, model Model/Nested*.lean written after nesting.py, now with the on_final stage): C04N_step / C04N_history / C04N_monitor_accepts_model - for every state tree (compound, parallel, final flags), global and local transitions, queued or not, EVERY script (any callback raises anything anywhere, callbacks may trigger further events: immediately on unqueued machines, through the queue on queued ones) and every history the trace is accepted by the nested containment acceptor Model/Spec/C04N.lean (an event = several transitions, one per region / scope, each a sequence of stages incl. the exit chain and enter chain of every state and on_final lists; after a raise inside transition k no later stage of k and no later transition runs; handlers iff registered; finalize exactly once, never replacing the outcome; every callback is shown the tracked configuration, which moves only at _update_model); C04N_state_of_failure (trace of a failed transition = pre-update callbacks ++ post-update callbacks; configuration unchanged iff nothing after _update_model ran, else the resolved destination), C04N_conf_reach, C04N_conf_frozen; C04N_usable_afterwards / C04N_sameMachine_step (after ANY trigger call on an idle machine the queue is empty and the state is the same machine as a fresh one placed in its configuration; that relation is preserved by every call with identical outcomes and traces, so every further history runs identically). Tied to /repo by crash sweeps over every callback position of recorded traces: on the eight synchronous classes (flat configurations) by model equality, the compiled acceptor on implementation traces and a survivor-vs-fresh continuation differential; stream nested-model: generated hierarchical machines (parallel / parallel-in-parallel, local transitions, final states, queued and unqueued, re-entrant triggers) on HierarchicalMachine + the three other synchronous hierarchical classes by trace equality with the Lean engine model, the compiled nested acceptor C04N.checkTrace on the implementation's traces and the survivor-vs-fresh differential; the async classes and the older nested oracle stream by a containment oracle stating the clauses directly (plus, for its hierarchical synchronous setups, the same compiled nested acceptor per model); exception kinds include Exception, BaseException and builtin types (KeyError, IndexError, OSError, ...).",
        note="Trusted: Lean kernel, Model/Core.lean and Model/Tree+Nested+NestedDispatch.lean tied by trace equality, acceptors Model/Spec/C04.lean and Model/Spec/C04N.lean, harness recorders. The acceptors compute which transitions are attempted with the engine model's pure functions (candidates, resolve_order, _resolve_transition, _final_check) and read callback outcomes off the trace. Partial: the async engines have no Lean model in this check (Python oracle + differential, sampling); C04N_state_of_failure / conf_reach / conf_frozen assume callbacks that do not trigger events (a re-entrant event moves the configuration itself); NestedState._scope and the machine's scope stack are not part of the engine model - the stream compares re-entrant triggers from enter/exit callbacks and from callbacks inside nested scopes strictly, which is how the two defects fixed by 4b06f60 / 84867c8 were found (regression cases in corpus/C04); lock release on real threads is decided by the thread probe here and by C06.",
        technique="Lean 4 proof (structural simulation, all raising scripts) + crash-position sweep differential + verified trace monitor")
    rule = ('base = random flat configuration x history of 1-4 triggers (no failure); variants = every (quick: up to 8 '
            'sampled) callback position of the clean trace as the crash point x {Exception, BaseException} x {with, '
            'without on_exception handlers} (+ second fault in handler / finalize with p=0.2) x machine classes; '
            'stream nested-model: base = random hierarchical machine (<= 10 states, depth <= 3, parallel states, local '
            'transitions, final flags + on_final lists, queued p=0.35, callbacks that trigger events) x history of 1-4 '
            'triggers, variants = every (quick: up to 5 sampled, enter/exit/on_final/after preferred) callback position '
            'of the clean HierarchicalMachine trace as the crash point, same exception kinds / handlers / second faults, '
            'run on HierarchicalMachine and one (thorough: always) of the three other synchronous hierarchical classes, '
            'followed by a 3-event continuation; non-trivial/distinct = distinct (variant encoding, class) — every '
            'variant raises')
    trusted = ('hand-written model lean/Model/Core.lean tied to /repo by trace equality on every variant',
               'hand-written model of nesting.py (lean/Model/Tree.lean, Nested.lean, NestedDispatch.lean) tied to /repo by '
               'trace equality + state value after every call on every variant of stream nested-model',
               'acceptors lean/Model/Spec/C04.lean and lean/Model/Spec/C04N.lean read as the containment clause',
               'harness/flat.py and harness/nested.py recorders; survivor-vs-fresh differentials implemented in '
               'harness/props/c04.py')

    def assumptions(self):
        return ['flat theorems assume scripts without re-entrant API calls (C05 covers those) and registered states; the '
                'hierarchical theorems C04N_step / C04N_history / C04N_usable_afterwards hold for every script, re-entrant '
                'trigger commands included; C04N_state_of_failure / C04N_conf_reach / C04N_conf_frozen assume callbacks '
                'that do not trigger events',
                'hierarchical machines: one model, string states, no name collisions between levels in the generated '
                'trees (Enum states and shared state objects are C02 / C18 business); the monitor runs the acceptor with '
                'the bounds (queue items per call, nesting depth) of the model run of the same input',
                'the async classes are judged by the Python containment oracle and the survivor-vs-fresh differential '
                'only (no Lean model of the async engines in this check)']

    def explore(self, tier, seed):
        nch, per = (16, 14) if tier == "quick" else (64, 10)
        ex = Exploration()
        for part in runner.parallel(chunk, [(seed, i, per, tier) for i in range(nch)]):
            ex.merge(part)
        done = set()
        for f in ex.failures:
            key = (f.kind, f.what)
            if key in done:
                continue
            done.add(key)
            f.case = runner.shrink(f.case, self.fails_like(f.kind, f.what), shrink_steps,
                                   budget=12 if f.what == 'survivor-hangs' else 150)
        return ex

    def fails_like(self, kind, what):
        def f(case):
            return any(x.kind == kind and x.what == what for x in judge_case(case)[0])
        return f

    def search(self, tier, seed, failures):
        found = []
        for part in runner.parallel(chunk, [(seed + 7919, i, 8, 'thorough') for i in range(32)]):
            found += [f for f in part.failures if f.kind == 'monitor']
        for f in found[:1]:
            f.case = runner.shrink(f.case, self.fails_like(f.kind, f.what), shrink_steps, budget=150)
        return found

    def replay(self, path):
        import json
        with open(path) as fh:
            payload = json.load(fh)
        if 'case' not in payload:
            print('no concrete input in this replay file: broken obligation', payload.get('broken_obligation'))
            return 1
        fs, r = judge_case(payload['case'])
        print('class', payload['case']['cls'], 'crash', payload['case'].get('info'))
        for i in r.items:
            print('   ', common.show_item(i))
        for f in fs:
            print('FAIL', f.kind, f.what, f.details)
        return 1 if fs else 0


CHECK = C04()


# =============================================================================================
# crash sweep on the hierarchical (nested / parallel configurations) and async classes
# =============================================================================================
# No Lean model of these engines is involved here: the containment clauses are stated directly (Python oracle) on
# the implementation's trace, and the survivor-vs-fresh differential decides "nothing is left behind".

from .. import aflat, anested  # noqa: E402

NA_SETUPS = [  # (label, class, nested configuration?, async?)
    ('AsyncMachine', 'AsyncMachine', False, True),
    ('flat-on-HierarchicalAsyncMachine', 'HierarchicalAsyncMachine', False, True),
    ('HierarchicalMachine', 'HierarchicalMachine', True, False),
    ('LockedHierarchicalMachine', 'LockedHierarchicalMachine', True, False),
    ('HierarchicalAsyncMachine', 'HierarchicalAsyncMachine', True, True),
]
FIN, EXC = SLOT['finalize_event'], SLOT['on_exception']


def na_cls(name):
    import transitions.extensions as ext
    return getattr(ext, name)


def na_run(d, setup, prepare=None):
    _l, clsname, nested, is_async = setup
    r = (anested.NRun7 if nested else aflat.Run7)(d, na_cls(clsname), is_async)
    if prepare:
        prepare(r)
    return r.run()


def na_clone(d, history=None):
    nested = getattr(d, 'nested', False)
    d2 = (anested.from_json if nested else aflat.from_json)((anested.to_json if nested else aflat.to_json)(d))
    for s_new, s_old in zip(d2.states, d.states):
        for k in ('parent', 'children', 'parallel', 'init_child'):
            if k in s_old:
                s_new[k] = s_old[k]
    for (e1, ts1), (e2, ts2) in zip(d2.events, d.events):
        for t1, t2 in zip(ts1, ts2):
            if 'local' in t2:
                t1['local'] = t2['local']
    if history is not None:
        d2.history = list(history)
    if hasattr(d, 'suspend_n'):
        d2.suspend_n = dict(d.suspend_n)
    return d2


def na_base(rng, setup):
    kn = flat.Knobs(max_models=2, p_unknown_event=0.0, max_history=4, p_queued=0.0, max_states=5, max_events=2)
    d = flat.gen_flat(rng, kn)
    d.model_attr = 'state'
    d.qmode = rng.choice([0, 0, 1, 2] if setup[3] else [0, 0, 1])      # async: also queued='model'
    d.queued = bool(d.qmode)
    d.kinds = {}
    d.const = {}
    if setup[3] and rng.random() < 0.6:
        # async classes: callbacks as plain functions, coroutine functions (suspending or not) or plain callables
        # handing back a Task / Future / __await__ object — a failure must be contained whatever the flavour
        d.kinds = {c: rng.choice([0, 1, 2, 3, 4, 5]) for c in d.cb_slot}
    if setup[2]:
        anested.impose_tree(d, rng)
    return d


def stage_of(d, cid):
    """callbacks that share a gather stage with `cid` (a callback id may be registered in several lists)"""
    out = set([cid])
    for _k, l in aflat.stage_lists(d):
        if cid in l:
            out.update(l)
    return out


def strip_stragglers(items, cid, k, sibs):
    """asyncio.gather lets the failed stage's other callbacks run on after the failure (the open finding
    F-C07-gather-after-raise): their completions may land anywhere later, also inside later events. Drop the `done`
    items of stage siblings that were still open when invocation k of `cid` raised — they are not judged here."""
    out, opened, cnt, pending = [], {}, 0, None
    for x in items:
        if x[0] == 'call':
            opened[x[2]] = opened.get(x[2], 0) + 1
            if x[2] == cid:
                if cnt == k and pending is None:
                    pending = 'armed'
                cnt += 1
        elif x[0] == 'done':
            c = x[1]
            if pending == 'armed' and c == cid and x[2] == 1:
                pending = dict((sb, opened.get(sb, 0)) for sb in sibs if sb != cid)
                opened[c] = max(0, opened.get(c, 0) - 1)
                out.append(x)
                continue
            if isinstance(pending, dict) and pending.get(c, 0) > 0:
                pending[c] -= 1
                opened[c] = max(0, opened.get(c, 0) - 1)
                continue                        # a straggler of the failed stage
            opened[c] = max(0, opened.get(c, 0) - 1)
        out.append(x)
    return out


def na_oracle(d, setup, clean, X, cid, k, handlers):
    """containment clauses on the crash trace X (clean = trace of the same input without the failure)"""
    out = []
    # locate the failing invocation
    cnt = 0
    pcall = None
    for i, it in enumerate(X):
        if it[0] == 'call' and it[2] == cid:
            if cnt == k:
                pcall = i
                break
            cnt += 1
    if pcall is None:
        return [('crash-point-not-reached', {})]
    if X[:pcall + 1] != clean[:pcall + 1]:
        return [('trace-before-the-failure-differs-from-the-clean-run', {'at': pcall})]
    tag, st_at, m = X[pcall][4], X[pcall][5], X[pcall][3]
    pdone = next((i for i in range(pcall, len(X)) if X[i][0] == 'done' and X[i][1] == cid and X[i][2] == 1), None)
    if pdone is None:
        return [('failing-callback-did-not-raise', {})]
    exc = X[pdone][3:5]
    pend = next((i for i in range(pdone, len(X)) if X[i][0] in ('ret', 'raised') and X[i][1] == tag), None)
    if pend is None:
        return [('event-without-outcome', {})]
    tail = X[pdone + 1:pend]
    siblings = stage_of(d, cid) if setup[3] else set()
    calls = [it for it in tail if it[0] == 'call']
    later = [it for it in calls if it[1] not in (FIN, EXC) and not (it[2] in siblings and it[4] == tag)]
    info = {'failing': common.show_item(X[pcall]), 'tail': [common.show_item(i) for i in X[pcall:pend + 1][:30]]}
    if later:
        out.append(('callback-ran-after-the-failure', dict(info, later=[common.show_item(i) for i in later[:4]])))
    in_fin = X[pcall][1] == FIN
    in_exc = X[pcall][1] == EXC
    if not in_fin:
        fin_calls = [it[2] for it in calls if it[1] == FIN]
        want = list(d.finalize)
        # finalize callbacks run exactly once each, in order, up to the first one that raises
        fin_raised = [it[1] for it in tail if it[0] == 'done' and it[2] == 1 and it[1] in want]
        if fin_raised and not setup[3]:
            want = want[:want.index(fin_raised[0]) + 1]
        if fin_calls != want:
            out.append(('finalize-callbacks-not-run-exactly-once', dict(info, got=fin_calls, expected=want)))
    if not in_fin and not in_exc:
        exc_calls = [it[2] for it in calls if it[1] == EXC]
        hraised = [it for it in tail if it[0] == 'done' and it[2] == 1 and it[1] in handlers]
        want = list(handlers)
        if hraised and not setup[3]:
            want = want[:want.index(hraised[0][1]) + 1]
        if exc_calls != want:
            out.append(('on_exception-handlers-wrong', dict(info, got=exc_calls, expected=want)))
        o = X[pend]
        if not handlers:
            if not (o[0] == 'raised' and tuple(o[2:4]) == tuple(exc)):
                out.append(('exception-did-not-reach-the-caller', dict(info, outcome=common.show_item(o))))
        elif not hraised:
            if o[0] != 'ret':
                out.append(('handled-exception-still-raised', dict(info, outcome=common.show_item(o))))
    # a failure at or before the source's exit callbacks leaves the state the model had when the event started
    # (a hierarchical event may run one transition per parallel region, so "started" means the contiguous run of
    # pre-state-change callbacks — prepare … on_exit — of this event that ends at the failing call)
    if X[pcall][1] <= SLOT['on_exit']:
        first = X[pcall]
        for it in reversed(X[:pcall]):
            if it[0] != 'call':
                continue
            if it[4] != tag or it[3] != m or it[1] > SLOT['on_exit'] or it[1] == SLOT['prepare_event']:
                break
            first = it
        if first[5] != st_at:
            out.append(('state-already-changed-at-or-before-the-exit-callbacks',
                        dict(info, at_transition_start=first[5], at_failure=st_at)))
    # state: frozen from the failure on (no rollback, nothing else)
    bad_state = [it for it in calls if it[4] == tag and it[3] == m and it[5] != st_at]
    if bad_state and not in_fin:
        out.append(('state-changed-after-the-failure', dict(info, calls=[common.show_item(i) for i in bad_state[:3]])))
    return out


def na_judge(case):
    """returns (list of (what, details), info)"""
    setup = NA_SETUPS[case['setup']]
    rng = random.Random(case['sub'])
    base = na_base(rng, setup)
    if 'history' in case:
        base.history = [tuple(c) for c in case['history']]
    clean = na_run(na_clone(base), setup)
    calls = [(i, it) for i, it in enumerate(clean.items) if it[0] == 'call']
    if not calls:
        return [], {'positions': 0}
    seen, order = {}, {}
    for i, it in enumerate(clean.items):
        if it[0] == 'call':
            order[i] = seen.get(it[2], 0)
            seen[it[2]] = order[i] + 1
    if case.get('pos') is not None:
        chosen = [c for c in calls if c[0] == case['pos']]
    else:
        chosen = calls if case.get('all') else rng.sample(calls, min(6, len(calls)))
        if setup[3] and not case.get('all'):
            # async stages are gathered: positions whose callback is NOT the first of its stage are the ones where
            # siblings are in flight at the failure — always take up to three of them as well
            later = [c for c in calls if any(c[1][2] in lst and lst.index(c[1][2]) > 0 for _sk, lst in aflat.stage_lists(base))]
            for c in later[:3]:
                if c not in chosen:
                    chosen.append(c)
    out = []
    evs = [e for e, _ in base.events]
    npos = 0
    for pos, it in chosen:
        cid, k = it[2], order[pos]
        for with_h in (False, True):
            if case.get('handlers') is not None and with_h != case['handlers']:
                continue
            d = na_clone(base)
            kind = 4 if rng.random() < 0.35 else 3
            nn = rng.randrange(3)
            if rng.random() < 0.3:      # a builtin exception type (KeyError, IndexError, OSError, LookupError, …)
                # (StopIteration only where callbacks are plain functions: a coroutine turns it into RuntimeError)
                kind, nn = rng.choice([2, 6, 7, 7, 8, 9, 10, 13] + ([] if setup[3] else [11, 11, 12])), 0
            d.script[(cid, k)] = ((), ('raise', kind, nn))
            if setup[3] and rng.random() < 0.8:
                # async stages are gathered: the callbacks listed BEFORE the failing one in its stage are still inside
                # an await when it raises — the exception that reaches the caller must still be the one raised
                for _sk, lst in aflat.stage_lists(d):
                    if cid in lst:
                        for sib in lst[:lst.index(cid)]:
                            d.kinds[sib] = aflat.K_SUSPEND
                            d.__dict__.setdefault('suspend_n', {})[sib] = rng.randint(1, 4)
            handlers = []
            if with_h:
                hid = max(d.cb_slot) + 1
                d.cb_slot[hid] = EXC
                d.on_exception = [hid]
                handlers = [hid]
            else:
                d.on_exception = []
            crash = na_run(na_clone(d), setup)
            # the clean reference has the same handlers (an invalid trigger's MachineError is routed to them too)
            dc = na_clone(d)
            del dc.script[(cid, k)]
            if (cid, k) in base.script:
                dc.script[(cid, k)] = base.script[(cid, k)]
            clean_v = na_run(dc, setup)
            npos += 1
            info = {'setup': setup[0], 'pos': pos, 'slot': common.SLOTS[it[1]], 'handlers': with_h, 'queued': aflat.QMODES[d.qmode] if setup[3] else bool(d.qmode)}
            fs = [(w, dict(dd, **info)) for w, dd in na_oracle(d, setup, clean_v.items, crash.items, cid, k, handlers)]
            if crash.bad:
                fs.append(('arguments', dict(info, bad=crash.bad[:3])))
            if kind >= 6 and not with_h:
                for tg, obj in sorted(getattr(crash, 'raised_objs', {}).items()):
                    if tg == it[4] and flat.foreign_other(crash, obj):
                        fs.append(('exception-replaced-on-the-way-to-the-caller',
                                   dict(info, caller_got='%s: %s' % (type(obj).__name__, str(obj)[:80]))))
            # survivor vs fresh
            cont = [(flat.TRIGGER, rng.choice(d.models), rng.choice(evs)) for _ in range(3)]
            # async, unqueued: the continuation ends with two triggers on one model issued concurrently from the caller's
            # task (whatever the failed event left in the caller's context decides whether they see each other)
            tail = ()
            if setup[3] and not d.qmode and rng.random() < 0.6:
                mm = rng.choice(d.models)
                tail = ([(flat.TRIGGER, mm, rng.choice(evs)), (flat.TRIGGER, mm, rng.choice(evs))],)
            ds = na_clone(d, list(d.history) + cont)
            ds.concurrent_tail = tail
            surv = na_run(ds, setup)
            sibs = stage_of(d, cid) if setup[3] else set()
            crash_items = strip_stragglers(crash.items, cid, k, sibs) if setup[3] else crash.items
            surv_items = strip_stragglers(surv.items, cid, k, sibs) if setup[3] else surv.items
            n0 = len(crash_items)
            if surv_items[:n0] != crash_items:
                fs.append(('crash-run-not-reproducible', info))
            else:
                states = {mid: getattr(mo, 'state') for mid, mo in crash.model_objs.items() if 'state' in mo.__dict__}

                def place(r, crash=crash, states=states):
                    for mid, stv in states.items():
                        if mid in d.models:
                            r.machine.set_state(stv, r.model_objs[mid])
                    r.counts = dict(crash.counts)
                    r.next_tag = crash.next_tag
                    r.tag_event = dict(crash.tag_event)
                try:
                    df = na_clone(d, cont)
                    df.concurrent_tail = tail
                    fresh = na_run(df, setup, prepare=place)
                    if setup[2]:
                        # nothing left behind in the state objects / the machine's scope: the introspection of the
                        # survivor answers like the fresh machine's
                        def names(r):
                            try:
                                return (sorted(r.machine.get_nested_state_names()),
                                        sorted(st.name for st in r.machine.states.values()), list(r.machine.prefix_path))
                            except Exception as e:      # noqa
                                return 'raises ' + repr(e)[:120]
                        if names(surv) != names(fresh):
                            fs.append(('state-names-or-scope-left-behind', dict(info, survivor=str(names(surv))[:300],
                                                                                 fresh=str(names(fresh))[:300])))
                    a, b = surv_items[n0:], fresh.items
                    if a != b or surv.final() != fresh.final():
                        kk = next((i for i, (x, y) in enumerate(zip(a, b)) if x != y), min(len(a), len(b)))
                        fs.append(('survivor-differs-from-fresh', dict(
                            info, first_difference_at=kk, survivor=[common.show_item(i) for i in a[max(0, kk - 3):kk + 4]],
                            fresh=[common.show_item(i) for i in b[max(0, kk - 3):kk + 4]],
                            survivor_final=str(surv.final()), fresh_final=str(fresh.final()))))
                except ValueError as e:
                    # the survivor's state value is not a registered state: the failure left garbage behind
                    fs.append(('state-after-failure-not-registered', dict(info, err=repr(e)[:200], states=str(states))))
            for w, dd in fs:
                out.append((w, dict(dd, pos=pos, handlers=with_h)))
            if out:
                return out, {'positions': npos}
    return out, {'positions': npos}


def na_chunk(seed, idx, n, tier):
    rng = random.Random('C04/na/%d/%d' % (seed, idx))
    ex = Exploration()
    for _ in range(n):
        case = {'setup': rng.randrange(len(NA_SETUPS)), 'sub': rng.randrange(1 << 30), 'all': tier == 'thorough'}
        fs, inf = na_judge(case)
        ex.evaluations += inf['positions']
        ex.traces_validated += inf['positions']
        ex.nontrivial.add('na/%d/%d' % (case['setup'], case['sub']))
        h = ex.stats.setdefault('class', {})
        lab = NA_SETUPS[case['setup']][0] + ' (oracle)'
        h[lab] = h.get(lab, 0) + inf['positions']
        for w, dd in fs:
            c2 = dict(case, pos=dd.get('pos'), handlers=dd.get('handlers'))
            ex.failures.append(Failure('monitor', w, c2, dd, signature='C04.na.' + w))
        if len(ex.failures) >= 2:
            break
    return ex


def na_shrink_steps(case):
    setup = NA_SETUPS[case['setup']]
    base = na_base(random.Random(case['sub']), setup)
    hist = case.get('history', [list(c) for c in base.history])
    for i in range(len(hist) - 1, -1, -1):
        yield dict(case, history=hist[:i] + hist[i + 1:], pos=None)


_orig_explore = C04.explore
_orig_replay = C04.replay


def _explore(self, tier, seed):
    ex = _orig_explore(self, tier, seed)
    nch, per = (16, 10) if tier == "quick" else (32, 10)
    for part in runner.parallel(na_chunk, [(seed, i, per, tier) for i in range(nch)]):
        ex.merge(part)
    return ex


def _replay(self, path):
    import json
    with open(path) as fh:
        payload = json.load(fh)
    if 'case' in payload and 'setup' in payload['case']:
        fs, _i = na_judge(payload['case'])
        for w, dd in fs:
            print('FAIL', w, json.dumps(dd, default=str)[:2000])
        return 1 if fs else 0
    return _orig_replay(self, path)


C04.explore = _explore
C04.replay = _replay


# =============================================================================================
# stream `nested-model`: crash sweep on the hierarchical engine against its Lean model (C04N)
# =============================================================================================
# Generated hierarchical machines (compound / parallel / parallel-in-parallel configurations, global and local
# transitions, final states with on_final lists, queued and unqueued, callbacks that trigger further events): the clean
# run is recorded on HierarchicalMachine, then EVERY callback position of that trace (prepare_event, prepare, conditions,
# unless, before, every on_exit / on_enter of the exit / enter chains, on_final, after, finalize_event; on_exception
# handlers and finalize callbacks as second faults) is made the raise point — Exception / BaseException / builtin kinds,
# with and without on_exception handlers.  Every variant is judged by
#   * trace equality + state value after every call with the Lean model of nesting.py (`nested4` request),
#   * the verified containment acceptor `C04N.checkTrace` on the implementation's trace (`c04n` request) — on
#     HierarchicalMachine and on one of the other synchronous hierarchical classes (whose trace must equal HM's),
#   * the survivor-vs-fresh differential (a continuation on the machine that survived vs a fresh machine placed in the
#     same configuration).

from .. import nested, nestedcheck  # noqa: E402

NM_OTHERS = ['LockedHierarchicalMachine', 'HierarchicalGraphMachine', 'LockedHierarchicalGraphMachine']
ONF = SLOT['on_final']


def nm_knobs():
    return nested.NKnobs(max_history=4, max_states=10, max_depth=3, p_cmds=0.06, p_unknown_event=0.04, p_queued=0.35,
                         p_parallel=0.6, p_compound=0.8, max_roots=2, p_noinit=0.1, p_collide=0.0)


def nm_decorate(d, rng):
    """final flags, on_final lists (states and machine) and, on unqueued machines, callbacks that trigger events"""
    nxt = [max(d.cb_slot) + 1 if d.cb_slot else 0]

    def cb():
        c = nxt[0]
        nxt[0] += 1
        d.cb_slot[c] = ONF
        return c
    for _p, n in d.walk():
        leaf = not n['children']
        n['final'] = rng.random() < (0.5 if leaf else 0.2)
        n['on_final'] = [cb() for _ in range(rng.choice([0, 1, 1, 2]))]
    d.on_final = [cb()] if rng.random() < 0.6 else []
    if not d.queued and rng.random() < 0.35:
        known = sorted(set([e for e, _ in d.events] + [e for _p, n in d.walk() for e, _ts in n['local']])) or [0]
        cands = [c for c, sl in d.cb_slot.items() if sl not in (SLOT['conditions'], SLOT['unless'], FIN, EXC)]
        chain = [c for c in cands if d.cb_slot[c] in (SLOT['on_enter'], SLOT['on_exit'])]
        for _ in range(rng.choice([1, 1, 2])):
            c = rng.choice(chain if chain and rng.random() < 0.5 else cands)
            k = rng.randrange(2)
            if (c, k) not in d.script:
                d.script[(c, k)] = ([(flat.TRIGGER, 0, rng.choice(known))], ('ret', True))
    return d


def nm_gen(rng):
    return nm_decorate(nested.gen_nested(rng, nm_knobs()), rng)


def nm_variants(base, items, rng, all_positions):
    calls = [(i, it) for i, it in enumerate(items) if it[0] == 'call']
    seen, order = {}, {}
    for i, it in calls:
        order[i] = seen.get(it[2], 0)
        seen[it[2]] = order[i] + 1
    if not all_positions and len(calls) > 5:
        # keep the rarer slots represented
        rare = [c for c in calls if c[1][1] in (ONF, SLOT['on_exit'], SLOT['on_enter'], SLOT['after'])]
        pick = rng.sample(rare, min(3, len(rare)))
        rest = [c for c in calls if c not in pick]
        calls = pick + rng.sample(rest, min(5 - len(pick), len(rest)))
    for pos, it in calls:
        cid, k = it[2], order[pos]
        for handlers in (False, True):
            if not all_positions and rng.random() < 0.3:
                continue
            d = nested.NDesc.from_json(base.to_json())
            kind = 4 if rng.random() < 0.35 else 3
            nn = rng.randrange(3)
            if rng.random() < 0.2:
                kind, nn = rng.choice([2, 6, 7, 8, 9, 10]), 0
            cmds = d.script.get((cid, k), ((), None))[0]
            d.script[(cid, k)] = (list(cmds), ('raise', kind, nn))
            extra = None
            if handlers:
                hid = max(d.cb_slot) + 1
                d.cb_slot[hid] = EXC
                d.on_exception = [hid]
                if rng.random() < 0.4:
                    d.cb_slot[hid + 1] = EXC
                    d.on_exception.append(hid + 1)
                if rng.random() < 0.2:
                    d.script[(hid, 0)] = ([], ('raise', 3, 2))
                    extra = 'handler-raises'
            if d.finalize and rng.random() < 0.2:
                f = rng.choice(d.finalize)
                for kk in range(8):
                    d.script.setdefault((f, kk), ([], ('raise', 4 if rng.random() < 0.5 else 3, 1)))
                extra = (extra + '+' if extra else '') + 'finalize-raises'
            yield d, {'pos': pos, 'slot': common.SLOTS[it[1]], 'handlers': handlers,
                      'exc': {3: 'User', 4: 'Base'}.get(kind, 'builtin-%d' % kind), 'extra': extra}


def nm_parse(ans):
    """`T <items> C <state values> Q <queue lengths>`"""
    if ans in ('oof', 'noinit'):
        return None
    if not ans.startswith('T '):
        raise common.MachineryError('driver answered %r' % ans[:200])
    t, rest = ans[2:].split(' C ')
    c, q = rest.split(' Q')
    nums = [int(x) for x in t.split()]
    items, pos = common.dec_items(nums)
    if pos != len(nums):
        raise common.MachineryError('trailing numbers in driver trace')
    return items, nested.dec_svals([int(x) for x in c.split()]), [int(x) for x in q.split()]


class NMRun(nested.NestedRun):
    """NestedRun that notes (for the evidence only) when a callback triggers an event on an unqueued machine while
    (a) the naming scope of some state is set (`NestedState._scope` non-empty: that state's scoped_enter / scoped_exit
    is in progress) or (b) the machine is inside a nested scope (`prefix_path` non-empty: a callback of a locally
    declared transition) — the two corners in which this stream found the defects fixed by 4b06f60 and 84867c8
    (`NestedState._scope` and the scope stack are not part of the engine model; the comparison is strict everywhere)"""

    def __init__(self, *a, **kw):
        self.depth = 0
        self.scope_live = []
        self.scoped_reentry = 0
        self.residue = []           # what a top-level call left behind: naming scopes, scope stack, queue content
        nested.NestedRun.__init__(self, *a, **kw)

    def _scoped_states(self):
        out = []

        def rec(states, pre):
            for name, st in states.items():
                if getattr(st, '_scope', None):
                    out.append('_'.join(pre + [name]))
                rec(st.states, pre + [name])
        # `machine.states` is the dictionary of the scope the machine is in right now: start from the root scope
        rec(self.machine._stack[0][1] if self.machine._stack else self.machine.states, [])
        return out

    def trigger(self, ev):
        if self.depth > 0 and not self.d.queued:
            live = self._scoped_states()
            if live:
                self.scope_live.append((self.next_tag, live))
            if getattr(self.machine, 'prefix_path', None):
                self.scoped_reentry += 1
        self.depth += 1
        try:
            return nested.NestedRun.trigger(self, ev)
        finally:
            self.depth -= 1
            if self.depth == 0:
                self._check_residue()

    def _check_residue(self):
        """the machine is idle again: "nothing - scope, queue content, state names - is left behind" read directly"""
        m = self.machine
        if getattr(m, '_stack', None) or getattr(m, 'prefix_path', None):
            self.residue.append(('scope-stack', repr(getattr(m, 'prefix_path', None))))
        if len(getattr(m, '_transition_queue', ())):
            self.residue.append(('queue-content', len(m._transition_queue)))

        def rec(states):
            for name, st in states.items():
                if st.name != name:
                    self.residue.append(('state-name', '%s is called %s' % (name, st.name)))
                rec(st.states)
        if not getattr(m, '_stack', None):
            rec(m.states)


def nm_run(d, cls, cont=None, place=None):
    """(run, error): history of `d` (then `cont`) on class `cls`; `place` = (state value, counts, next tag) to start from"""
    import signal
    old = signal.signal(signal.SIGALRM, nested._on_alarm)
    signal.alarm(30)
    r = None
    try:
        r = NMRun(d, cls)
        if place is not None:
            stv, counts, tag = place
            r.machine.set_state(stv, r.model)
            r.counts = dict(counts)
            r.next_tag = tag
            r.states_after.append(r.state_value())
        else:
            r.run()
        r.n0 = len(r.items)
        for ev in cont or ():
            try:
                r.trigger(ev)
            except BaseException as e:
                if isinstance(e, (common.MachineryError, KeyboardInterrupt, nested.CaseTimeout)):
                    raise
            r.states_after.append(r.state_value())
        return r, None
    except nested.CaseTimeout:
        return r, 'hang'
    except common.MachineryError:
        raise
    except BaseException as e:
        return None, '%s: %s' % (type(e).__name__, str(e)[:200])
    finally:
        signal.alarm(0)
        signal.signal(signal.SIGALRM, old)


def nm_requests(d, runs):
    """driver requests for one variant: the model run over history + continuation, one monitor per recorded run"""
    hist = list(d.history) + list(d.cont)
    reqs = [('nested4', d.enc_cfg4() + d.enc_script() + nested._l(hist))]
    ncmds = sum(len(v[0]) for v in d.script.values())
    bounds = [(len(hist) + ncmds + 2) * 8, ncmds + 2]        # as `nested4Case` computes them
    for r in runs:
        reqs.append(('c04n', bounds + d.enc_cfg4() + nested.enc_sval(r.states_after[0]) + common.enc_items(r.items)))
    return reqs


def nm_judge(case, d, hm, err, other, oerr, fresh, ferr, answers):
    out = []
    info = case.get('info')

    def fail(kind, what, details, sig=None, cls=None):
        out.append(Failure(kind, what, dict(case, cls=cls) if cls else case, dict(details, crash=info), signature=sig))
    if err or hm is None:
        fail('monitor' if err == 'hang' else 'correspondence', 'nested-' + (err or 'no-run').split(':')[0], {'error': err},
             sig='C04.nested.hang' if err == 'hang' else None)
        return out
    if hm.bad:
        fail('monitor', 'nested-recorder:' + hm.bad[0][0], {'bad': hm.bad[:4]}, sig='C04.nested.' + hm.bad[0][0])
    for r, c in ((hm, None), (other, case.get('cls'))):
        if r is not None and r.residue:
            fail('monitor', 'nested-left-behind:' + r.residue[0][0], {'class': c or 'HierarchicalMachine', 'left_behind': r.residue[:4],
                                                                     'impl_trace': [common.show_item(i) for i in r.items[:80]]},
                 sig='C04.nested.left-behind', cls=c)
    m = nm_parse(answers[0])
    if m is not None:
        items, vals, _q = m
        if items != hm.items or vals != hm.states_after:
            k = next((i for i, (x, y) in enumerate(zip(items, hm.items)) if x != y), min(len(items), len(hm.items)))
            fail('correspondence', 'nested_trace_eq', {
                'first_difference_at': k, 'model': [common.show_item(i) for i in items[max(0, k - 4):k + 3]],
                'impl': [common.show_item(i) for i in hm.items[max(0, k - 4):k + 3]],
                'model_states': vals, 'impl_states': hm.states_after})
    elif answers[0] == 'noinit':
        fail('correspondence', 'nested_model_noinit', {})
    if answers[1] != 'ok':
        if not answers[1].startswith('reject'):
            raise common.MachineryError('monitor answered %r' % answers[1][:200])
        fail('monitor', 'nested-containment-monitor', {
            'monitor': answers[1], 'class': 'HierarchicalMachine',
            'impl_trace': [common.show_item(i) for i in hm.items[:120]], 'states': hm.states_after},
            sig='C04.nested.monitor')
    if other is not None or oerr:
        cls = case['cls']
        if oerr or other is None:
            fail('monitor' if oerr == 'hang' else 'correspondence', 'nested-' + (oerr or 'no-run').split(':')[0] + ':' + cls,
                 {'error': oerr}, sig='C04.nested.hang' if oerr == 'hang' else None, cls=cls)
        else:
            if other.items != hm.items or other.states_after != hm.states_after:
                k = next((i for i, (x, y) in enumerate(zip(other.items, hm.items)) if x != y), min(len(other.items), len(hm.items)))
                fail('correspondence', 'nested_class_differential:' + cls, {
                    'first_difference_at': k, 'reference': [common.show_item(i) for i in hm.items[max(0, k - 4):k + 3]],
                    'observed': [common.show_item(i) for i in other.items[max(0, k - 4):k + 3]]}, cls=cls)
            if answers[2] != 'ok':
                fail('monitor', 'nested-containment-monitor', {
                    'monitor': answers[2], 'class': cls, 'impl_trace': [common.show_item(i) for i in other.items[:120]]},
                    sig='C04.nested.monitor', cls=cls)
    # survivor vs fresh
    if ferr == 'hang':
        fail('monitor', 'nested-fresh-hangs', {}, sig='C04.nested.hang')
    elif ferr:
        fail('monitor', 'nested-state-after-failure-not-usable', {'error': ferr, 'state': hm.states_after[len(d.history)]},
             sig='C04.nested.state')
    elif fresh is not None:
        a, b = hm.items[hm.n0:], fresh.items
        sa, sb = hm.states_after[len(d.history):], fresh.states_after
        if a != b or sa != sb:
            k = next((i for i, (x, y) in enumerate(zip(a, b)) if x != y), min(len(a), len(b)))
            fail('monitor', 'nested-survivor-differs-from-fresh', {
                'first_difference_at': k, 'survivor': [common.show_item(i) for i in a[max(0, k - 3):k + 4]],
                'fresh': [common.show_item(i) for i in b[max(0, k - 3):k + 4]], 'survivor_states': sa, 'fresh_states': sb},
                sig='C04.nested.survivor')
    return out


def nm_eval(cases):
    """cases: list of dicts {'nm': True, 'desc', 'cont', 'cls', 'info'}; returns list of (failures, hm run)"""
    prepared = []
    reqs = []
    for case in cases:
        d = nested.NDesc.from_json(case['desc'])
        d.cont = list(case['cont'])
        hm, err = nm_run(d, 'HierarchicalMachine', cont=d.cont)
        other, oerr = (None, None)
        runs = []
        fresh, ferr = None, None
        if hm is not None and not err:
            runs.append(hm)
            if case.get('cls'):
                other, oerr = nm_run(d, case['cls'], cont=d.cont)
                if other is not None and not oerr:
                    runs.append(other)
            k = len(d.history)
            # the machine is idle between calls: the fresh machine starts from the recorded state value
            pre = nested.NestedRun(d, 'HierarchicalMachine')
            pre.run()
            fresh, ferr = nm_run(d, 'HierarchicalMachine', cont=d.cont,
                                 place=(hm.states_after[k], pre.counts, pre.next_tag))
        n = len(reqs)
        if runs:
            reqs += nm_requests(d, runs)
        prepared.append((case, d, hm, err, other, oerr, fresh, ferr, n, len(reqs) - n))
    answers = common.batch_driver(reqs) if reqs else []
    out = []
    for case, d, hm, err, other, oerr, fresh, ferr, n, k in prepared:
        ans = answers[n:n + k]
        if k == 2:
            ans = ans + ['ok']
        out.append((nm_judge(case, d, hm, err, other, oerr, fresh, ferr, ans) if k else
                    nm_judge(case, d, hm, err or 'no-run', None, None, None, None, []), hm))
    return out


def nm_chunk(seed, idx, nbase, tier):
    rng = random.Random('C04/nested-model/%d/%d' % (seed, idx))
    ex = Exploration()
    cases = []
    for b in range(nbase):
        base = nm_gen(rng)
        clean, err = nested.run_guarded(base, 'HierarchicalMachine')
        if err or clean is None:
            continue
        known = sorted(set([e for e, _ in base.events] + [e for _p, n in base.walk() for e, _ts in n['local']])) or [0]
        k = 0
        for d, info in nm_variants(base, clean.items, rng, tier == 'thorough'):
            cont = [rng.choice(known) for _ in range(3)]
            cls = NM_OTHERS[(idx + b + k) % len(NM_OTHERS)] if (tier == 'thorough' or k % 2 == 0) else None
            k += 1
            cases.append({'nm': True, 'desc': d.to_json(), 'cont': cont, 'cls': cls, 'info': info})
    for i in range(0, len(cases), 60):
        part = cases[i:i + 60]
        for case, (fs, hm) in zip(part, nm_eval(part)):
            ex.evaluations += 1
            ex.traces_validated += 1 + (1 if case['cls'] else 0)
            d = nested.NDesc.from_json(case['desc'])
            ex.nontrivial.add('nm' + nestedcheck.fingerprint(d))
            info = case['info']
            for key, val in (('crash_slot', info['slot']), ('class', 'nested-model:HierarchicalMachine'),
                             ('class', 'nested-model:' + str(case['cls'])), ('handlers', str(info['handlers'])),
                             ('exc', info['exc']), ('second_fault', str(info['extra'])), ('queued', str(d.queued)),
                             ('nested_reentrant', str(any(v[0] for v in d.script.values()))),
                             ('nested_reentrant_with_live_naming_scope', str(bool(hm is not None and hm.scope_live))),
                             ('nested_reentrant_inside_nested_scope', str(bool(hm is not None and hm.scoped_reentry)))):
                h = ex.stats.setdefault(key, {})
                h[val] = h.get(val, 0) + 1
            if hm is not None:
                shape = 'single'
                for v in hm.states_after:
                    if isinstance(v, list):
                        shape = 'parallel-in-parallel' if any(isinstance(x, list) for x in v) else \
                            ('parallel' if shape == 'single' else shape)
                h = ex.stats.setdefault('nested_configuration_shape', {})
                h[shape] = h.get(shape, 0) + 1
                if len(ex.samples) < 1:
                    ex.samples.append({'stream': 'nested-model', 'crash': info, 'history': d.history,
                                       'states': hm.states_after[:6], 'trace': [common.show_item(i) for i in hm.items[:40]]})
            ex.failures += fs
        if any(f.what.startswith('nested-hang') for f in ex.failures):
            break
    return ex


def nm_shrink_steps(case):
    for c in nestedcheck.shrink_steps(case):
        yield c
    for i in range(len(case['cont'])):
        c = copy.deepcopy(case)
        del c['cont'][i]
        yield c
    if case.get('cls'):
        yield dict(case, cls=None)


def nm_fails_like(kind, what):
    def f(case):
        return any(x.kind == kind and x.what == what for x in nm_eval([case])[0][0])
    return f


# ---------------------------------------------------------------------------------------------
# the verified acceptor on the cases of the oracle stream above (hierarchical synchronous setups)
# ---------------------------------------------------------------------------------------------

def na_to_ndesc(d):
    """the tree-imposed flat description of the oracle stream as an `NDesc` (segment id of a state = its index)"""
    nd = nested.NDesc()

    def path(i):
        p = []
        while i is not None:
            p.append(i)
            i = d.states[i]['parent']
        return list(reversed(p))

    def trans(t, rel):
        f = (lambda i: [i]) if rel else path
        return {'source': f(t['source']), 'dest': None if t['dest'] is None else f(t['dest']),
                'prepare': list(t['prepare']), 'conds': [tuple(c) for c in t['conds']], 'before': list(t['before']),
                'after': list(t['after'])}

    def node(i):
        s = d.states[i]
        local = []
        for ev, ts in d.events:
            l = [trans(t, True) for t in ts if t.get('local') == i]
            if l:
                local.append((ev, l))
        return {'name': i, 'children': [node(c) for c in s['children']],
                'initial': list(s['children']) if s['parallel'] else ([s['init_child']] if s['children'] else []),
                'pkey': bool(s['parallel']), 'ignore': s['ignore'], 'on_enter': list(s['on_enter']),
                'on_exit': list(s['on_exit']), 'local': local, 'final': bool(s['final']), 'on_final': []}
    nd.roots = [node(i) for i, s in enumerate(d.states) if s['parent'] is None]
    nd.events = [(ev, l) for ev, l in ((ev, [trans(t, False) for t in ts if t.get('local') is None]) for ev, ts in d.events) if l]
    nd.prepare_event, nd.before_sc, nd.after_sc = list(d.prepare_event), list(d.before_sc), list(d.after_sc)
    nd.finalize, nd.on_exception, nd.on_final = list(d.finalize), list(d.on_exception), list(d.on_final)
    nd.ignore, nd.queued, nd.initial = d.ignore, bool(d.qmode), path(d.initial)
    return nd


def na_monitor_requests(d, setup, items):
    """one `c04n` request per model: the trace of the oracle stream projected to that model, state values as masks.
    None when the case is outside the acceptor's vocabulary (callbacks that trigger events across models)."""
    import ast
    if any(v[0] for v in d.script.values()):
        return None
    nd = na_to_ndesc(d)
    index = {nested.pname(p): i for i, (p, _n) in enumerate(nd.walk())}
    probe = anested.NRun7(d, na_cls(setup[1]), False)

    def mask(text):
        return sum(2 ** index[name] for name in nested.flatten(ast.literal_eval(text)))
    reqs = []
    for m in d.models:
        out, tags, keep = [], set(), False
        for it in items:
            if it[0] == 'api':
                if it[3] == m:
                    out.append((it[0], it[1], it[2], 0, it[4]))
                    tags.add(it[2])
            elif it[0] == 'call':
                keep = it[3] == m
                if keep:
                    out.append(('call', it[1], it[2], 0, it[4], mask(it[5])))
            elif it[0] == 'done':
                if keep:
                    out.append(it)
            elif it[1] in tags:
                out.append(it)
        ncalls = sum(1 for it in out if it[0] == 'api')
        reqs.append(('c04n', [(ncalls + 2) * 8, 2] + nd.enc_cfg4() + nested.enc_sval(getattr(probe.model_objs[m], 'state'))
                     + common.enc_items(out)))
    return reqs


_na_oracle = na_oracle


def na_oracle_and_monitor(d, setup, clean, X, cid, k, handlers):
    out = _na_oracle(d, setup, clean, X, cid, k, handlers)
    if setup[2] and not setup[3]:
        try:
            reqs = na_monitor_requests(d, setup, X)
        except (ValueError, KeyError, SyntaxError) as e:     # a state value that names no registered state
            return out + [('state-value-not-understood', {'error': repr(e)[:200]})]
        if reqs:
            for m, ans in zip(d.models, common.batch_driver(reqs)):
                if ans != 'ok':
                    if not ans.startswith('reject'):
                        raise common.MachineryError('monitor answered %r' % ans[:200])
                    out.append(('verified-containment-monitor', {'model': m, 'monitor': ans,
                                                                 'trace': [common.show_item(i) for i in X[:80]]}))
    return out


na_oracle = na_oracle_and_monitor


_explore2 = C04.explore
_replay2 = C04.replay
_search2 = C04.search


def nm_corpus():
    """regression cases of this stream (corpus/C04/*.json): witnesses of the two repaired re-entrancy defects"""
    import glob
    import json
    import os
    out = []
    for path in sorted(glob.glob(os.path.join(common.CORPUS, 'C04', '*.json'))):
        with open(path) as fh:
            payload = json.load(fh)
        if payload.get('case', {}).get('nm'):
            out.append(payload['case'])
    return out


def _explore_nm(self, tier, seed):
    ex = _explore2(self, tier, seed)
    corpus = nm_corpus()
    for case, (fs, _hm) in zip(corpus, nm_eval(corpus)):
        ex.evaluations += 1
        ex.traces_validated += 1
        ex.failures += fs
    nch, per = (16, 10) if tier == 'quick' else (32, 16)
    part_ex = Exploration()
    for part in runner.parallel(nm_chunk, [(seed, i, per, tier) for i in range(nch)]):
        part_ex.merge(part)
    done = set()
    known = set(k.get('signature') for k in self.known())
    for f in part_ex.failures:
        key = (f.kind, f.what)
        if key in done or (f.kind == 'monitor' and f.signature in known):
            continue        # a listed finding needs no shrinking: its minimal witness is in proposed_fixes/C04N_1.md
        done.add(key)
        try:
            f.case = runner.shrink(f.case, nm_fails_like(f.kind, f.what), nm_shrink_steps,
                                   budget=10 if 'hang' in f.what else 200)
        except common.MachineryError:
            raise
        except BaseException:
            pass
    ex.merge(part_ex)
    return ex


def _search_nm(self, tier, seed, failures):
    found = _search2(self, tier, seed, failures)
    if found:
        return found
    for part in runner.parallel(nm_chunk, [(seed + 7919, i, 10, 'thorough') for i in range(32)]):
        found += [f for f in part.failures if f.kind == 'monitor']
    for f in found[:1]:
        f.case = runner.shrink(f.case, nm_fails_like(f.kind, f.what), nm_shrink_steps, budget=200)
    return found


def _replay_nm(self, path):
    import json
    with open(path) as fh:
        payload = json.load(fh)
    case = payload.get('case')
    if case and case.get('nm'):
        d = nested.NDesc.from_json(case['desc'])
        print('class:', case.get('cls') or 'HierarchicalMachine', ' initial:', nested.pname(d.initial), ' queued:', d.queued,
              ' history:', d.history, ' continuation:', case['cont'], ' crash:', case.get('info'))
        (fs, hm), = nm_eval([case])
        if hm is not None:
            print('states after each call:', hm.states_after)
            for i in hm.items:
                print('   ', common.show_item(i))
        for f in fs:
            print('FAIL', f.kind, f.what, json.dumps(f.details, default=str)[:3000])
        return 1 if fs else 0
    return _replay2(self, path)


C04.explore = _explore_nm
C04.search = _search_nm
C04.replay = _replay_nm
