"""C11 — the helpers on a model always mirror the machine and the model's state.

Streams (all on the real classes, `harness/helpers11.py` and `harness/hsm11.py`):
  * flat          `Machine`: custom model_attribute, Enum or string states, auto transitions on/off,
                  model_override on/off, 1-2 models whose classes / instances predefine clashing names
                  (methods, plain values, None), the machine as its own model; histories of add_states /
                  add_transition / remove_transition / add_model / initial / events.  After EVERY step:
                  equality with the Lean model's snapshot (`c11flat`: states, events table, every model's instance
                  namespace and state, what each event method / trigger(name) / is_ helper does, get_triggers,
                  get_transitions sizes) + the property's clauses stated directly (`helpers11.Oracle`).
  * flat-clash    the same with clashing names and removals turned up.
  * hsm           `HierarchicalMachine` with the default and custom separators (FunctionWrapper chains),
                  parallel states, transitions declared locally in nested scopes, states / transitions added later:
                  oracle of the clauses (is_<state>() and is_<state>(allow_substates=True) for EVERY state, event
                  method vs trigger on twins, to_<state>() / to(<state>), get_triggers vs really firing every event
                  from every state on twins, get_transitions vs the transition objects) + equality with the Lean
                  model (`c11hsm`: isStateH, getTriggersH, firesIn, helper access paths; `c11trans`: get_nested_transitions as
                  coded; `c11wrap`: outcome of the FunctionWrapper binding steps of add_model).
"""
import copy
import hashlib
import json
import random

from .. import common, runner, helpers11, hsm11
from ..runner import Exploration, Failure


STREAMS = {
    'flat': lambda: helpers11.Knobs(),
    'flat-clash': lambda: helpers11.Knobs(p_clash=0.9, p_remove=0.25, p_override=0.4, p_odd_event=0.15, max_models=2),
    'hsm': lambda: hsm11.HKnobs(),
    'hsm-remove': lambda: hsm11.HKnobs(p_remove=0.5, p_local=0.9, p_custom_sep=0.2, p_embed=0.3),
    'hsm-custom-sep': lambda: hsm11.HKnobs(p_custom_sep=1.0, p_clash=0.35, p_override=0.25),
    'hsm-enum': lambda: hsm11.HKnobs(p_enum=1.0, p_clash=0.2, p_override=0.1, p_children=0.6),
}
BUDGET = {   # stream -> (quick: chunks, per chunk), (thorough: chunks, per chunk)
    'flat': ((12, 60), (48, 190)),
    'flat-clash': ((4, 60), (16, 130)),
    'hsm': ((12, 12), (48, 40)),
    'hsm-custom-sep': ((4, 10), (16, 28)),
    'hsm-remove': ((4, 12), (16, 26)),
    'hsm-enum': ((4, 10), (16, 22)),
}


def fingerprint(case):
    return hashlib.sha1(json.dumps(case, sort_keys=True).encode()).hexdigest()[:16]


def bump(d, k, n=1):
    d[k] = d.get(k, 0) + n


# ---------------------------------------------------------------------------------------------
# evaluation of cases
# ---------------------------------------------------------------------------------------------

def eval_flat(cases):
    """[(failures, facts)] for flat cases: one driver batch for all of them"""
    reqs = [('c11flat', helpers11.FlatRun(c).enc_request()) for c in cases]
    answers = common.batch_driver(reqs) if reqs else []
    return [helpers11.run_case(c, a) for c, a in zip(cases, answers)]


def eval_hsm(cases):
    out = []
    pend = []
    for c in cases:
        fails, facts, pending = hsm11.run_case(c)
        out.append([fails, facts])
        pend.append(pending)
    reqs = [(kind, req) for p in pend for (kind, req, _obs) in p]
    answers = common.batch_driver(reqs) if reqs else []
    pos = 0
    for (fails, facts), p in zip(out, pend):
        for kind, _req, obs in p:
            r = hsm11.correspond(kind, obs, answers[pos])
            pos += 1
            if r and not any(f[0] == 'correspondence' for f in fails):
                fails.append(('correspondence', r[0], r[1], None))
        facts['driver_requests'] = len(p)
    return [tuple(x) for x in out]


def evaluate(stream, cases):
    return eval_hsm(cases) if stream.startswith('hsm') else eval_flat(cases)


def nontrivial(stream, case, facts):
    if stream.startswith('hsm'):
        return facts.get('steps', 0) >= 2 and facts.get('fired', 0) >= 1 and any(n['children'] for n in case['tree'])
    later = False
    seen_model = False
    for op in case['ops']:
        if op[0] == 'model':
            seen_model = True
        elif seen_model and op[0] in ('state', 'trans', 'remove'):
            later = True
    return later and facts.get('fired', 0) >= 1


def chunk(stream, seed, idx, n):
    rng = random.Random('C11/%s/%d/%d' % (stream, seed, idx))
    kn = STREAMS[stream]()
    gen = hsm11.gen_case if stream.startswith('hsm') else helpers11.gen_case
    cases = [gen(rng, kn) for _ in range(n)]
    ex = Exploration()
    st = ex.stats
    for case, (fails, facts) in zip(cases, evaluate(stream, cases)):
        ex.evaluations += 1
        ex.traces_validated += facts.get('steps', 0)
        if nontrivial(stream, case, facts):
            ex.nontrivial.add(fingerprint(case))
            if len(ex.samples) < 1:
                ex.samples.append({'stream': stream, 'case': case})
        bump(st.setdefault('cases_per_stream', {}), stream)
        bump(st.setdefault('steps_introspected', {}), stream, facts.get('steps', 0))
        cfg = st.setdefault('configuration', {})
        bump(cfg, 'override' if case['override'] else 'no-override')
        bump(cfg, 'auto' if case['auto'] else 'no-auto')
        bump(cfg, 'attr:' + case['attr'])
        if stream.startswith('hsm'):
            bump(cfg, 'separator:' + case['sep'])
            bump(cfg, 'models-with-clashing-names', sum(1 for m in case['models'] if m))
            bump(cfg, 'local-transitions', sum(1 for p in hsm11.all_paths(case['tree']) if hsm11.node_at(case['tree'], p)['local']))
            bump(cfg, 'parallel-states', sum(1 for p in hsm11.all_paths(case['tree']) if hsm11.node_at(case['tree'], p)['parallel']))
        else:
            bump(cfg, 'enum-states' if case['enum'] else 'string-states')
            bump(cfg, 'models-with-clashing-names', sum(1 for m in case['models'] if m and m != 'self'))
            bump(cfg, 'machine-as-own-model', sum(1 for m in case['models'] if m == 'self'))
            st['helper_calls_compared'] = st.get('helper_calls_compared', 0) + facts.get('helpers_called', 0)
        ops = st.setdefault('history_ops', {})
        for op in case['ops']:
            bump(ops, op[0])
        for kind, what, details, sig in fails:
            bump(st.setdefault('failures', {}), '%s:%s' % (kind, sig or what))
            ex.failures.append(Failure(kind, what, {'stream': stream, 'case': case}, details, signature=sig))
    return ex


# ---------------------------------------------------------------------------------------------
# shrinking
# ---------------------------------------------------------------------------------------------

def shrink_steps(payload):
    case = payload['case']

    def mk(c):
        return {'stream': payload['stream'], 'case': c}
    for i in range(len(case['ops']) - 1, -1, -1):
        c = copy.deepcopy(case)
        del c['ops'][i]
        if c['ops']:
            yield mk(c)
    for mi, spec in enumerate(case['models']):
        if spec == 'self':
            continue
        for j in range(len(spec)):
            c = copy.deepcopy(case)
            del c['models'][mi][j]
            yield mk(c)
    if case['kind'] == 'hsm':
        for i in range(len(case['transitions'])):
            c = copy.deepcopy(case)
            del c['transitions'][i]
            yield mk(c)
        for p in hsm11.all_paths(case['tree']):
            node = hsm11.node_at(case['tree'], p)
            for j in range(len(node['local'])):
                c = copy.deepcopy(case)
                del hsm11.node_at(c['tree'], p)['local'][j]
                yield mk(c)
            if not node['children'] and p != case['initial'][:len(p)]:
                c = copy.deepcopy(case)
                parent = hsm11.node_at(c['tree'], p[:-1])['children'] if len(p) > 1 else c['tree']
                if len(parent) > 1:
                    parent[:] = [n for n in parent if n['name'] != p[-1]]
                    pn = hsm11.node_at(c['tree'], p[:-1]) if len(p) > 1 else None
                    if pn is not None and pn['initial'] == p[-1]:
                        pn['initial'] = None
                    yield mk(c)
        if case['auto']:
            c = copy.deepcopy(case)
            c['auto'] = False
            yield mk(c)
    else:
        for key in ('auto', 'enum'):
            if case[key]:
                c = copy.deepcopy(case)
                c[key] = False
                yield mk(c)


def rejudge(payload):
    (fails, facts), = evaluate(payload['stream'], [payload['case']])
    return fails, facts


class C11(runner.Check):
    prop = 'C11'
    level = 'proof'
    manifest = dict(
        level='proof', design='DESIGN.md 4/C11; design_notes/C11.md',
        text="Lean 4 theorems about lean/Model/Helpers.lean (the model object's namespace as a finite map in two "
             "layers, _checked_assignment exactly as coded, helper naming with the model_attribute infix, binding on "
             "add_model / later add_states / later add_transition, remove_transition with its delattr loop, "
             "get_triggers, get_transitions, the hierarchical is_state tree walk and get_triggers/get_nested_triggers): "
             "for EVERY history of reconfigurations and events exactly one is_<state>() answers True, an event method "
             "is trigger(name), to_<state> exists iff auto transitions and ends in its state, get_triggers / "
             "get_transitions equal the events table, a model's own attributes are never replaced (with "
             "model_override only those are), an event cannot be named like the state attribute, helper names are "
             "injective; all clauses are proved at full strength for the repaired code (fixes 78d98e1, 6de1ae6, b3feefd, "
             "0b25ad6), the former witnesses are regression cases. Tied to /repo by comparing, after every step of generated histories on the real "
             "Machine / HierarchicalMachine, the model's snapshot with full introspection of every model, and judged "
             "on the implementation by an oracle that states the clauses directly (every is_* called, event method vs "
             "trigger and to_* on deep-copied twins, get_triggers against really firing every event from every state).",
        note="Trusted: Lean kernel, hand-written Model/Helpers.lean (flat: whole history modelled; hierarchical: "
             "is_state, get_triggers, helper access paths on the machine's introspected tables), harness/helpers11.py "
             "and harness/hsm11.py (introspection, twins, oracle). Hierarchical machines are modelled on the tables "
             "introspected from the real machine (is_state, get_triggers, get_nested_transitions, helper access paths, "
             "the wrapper binding steps of add_model); their construction and event dispatch are C13 / C02 / C03.",
        technique="Lean 4 proof (invariants over all histories of reconfigurations) + differential correspondence "
                  "after every step + property oracle on the implementation")
    theorems = ('TM.Helpers.C11_exactly_one_is', 'TM.Helpers.C11_is_helper_answers_current',
                'TM.Helpers.C11_exactly_one_is_engine', 'TM.Helpers.C11_is_state_nested',
                'TM.Helpers.C11_event_method_eq_trigger', 'TM.Helpers.C11_event_method_exists',
                'TM.Helpers.C11_trigger_exists',
                'TM.Helpers.C11_to_iff_auto', 'TM.Helpers.C11_get_triggers_exact', 'TM.Helpers.C11_get_transitions_exact',
                'TM.Helpers.C11_get_triggers_nested', 'TM.Helpers.C11_fires_known', 'TM.Helpers.C11_to_fires_everywhere', 'TM.Helpers.C11_get_transitions_nested',
                'TM.Helpers.C11_no_overwrite', 'TM.Helpers.C11_override_only_replaces',
                'TM.Helpers.C11_checked_assignment', 'TM.Helpers.C11_wrapper_binding',
                'TM.Helpers.C11_trigger_ne_attribute', 'TM.Helpers.C11_names_injective')
    rule = ('flat: random model_attribute / model_override / auto_transitions / Enum-or-string states, 1-2 model classes '
            'predefining up to 4 clashing names as methods, class values, instance values, falsy values (False, 0, "", (), []) '
            'or None (or the machine as '
            'its own model), histories of 4-20 calls (initial, add_states, add_transition incl. "*", "=", internal, '
            'blocked by a condition, named like the state attribute or like a helper; remove_transition with '
            'selectors; add_model early/late/twice; events incl. to_<state>); hierarchical: trees of depth <= 3 with '
            'parallel states, initial children, transitions declared in nested scopes, children given as an embedded '
            'HierarchicalMachine with its own auto_transitions flag, nested Enum classes, default or custom separator, '
            'states / root / local transitions / models added later. Every step of every case is introspected. '
            'Non-trivial (flat) = a reconfiguration after a model was registered and an executed transition; '
            '(hierarchical) = nested states, >= 2 steps and an executed transition; distinct = different case JSON')
    trusted = ('hand-written model lean/Model/Helpers.lean, tied to /repo by snapshot equality after every step of every '
               'generated flat history and by get_triggers / is_state / access-path equality on hierarchical machines',
               'harness/helpers11.py, harness/hsm11.py: classification of the real attributes (partial -> helper kind), '
               'deep-copied twins, the oracle clauses')

    def explore(self, tier, seed):
        payloads = []
        for s, (q, t) in BUDGET.items():
            nch, per = q if tier == 'quick' else t
            payloads += [(s, seed, i, per) for i in range(nch)]
        ex = self.corpus()
        for part in runner.parallel(chunk, payloads):
            ex.merge(part)
        known = set(k.get('signature') for k in self.known())
        for pick in (lambda f: f.kind == 'monitor' and f.signature not in known, lambda f: f.kind != 'monitor'):
            cands = [f for f in ex.failures if pick(f)]
            if cands:
                first = cands[0]
                ex.failures.remove(first)
                ex.failures.insert(0, first)
                self.shrink_failure(first)
        return ex

    def corpus(self):
        """the minimised witnesses under corpus/C11 run first on every run"""
        import glob
        import os
        ex = Exploration()
        for path in sorted(glob.glob(os.path.join(common.CORPUS, 'C11', '*.json'))):
            with open(path) as fh:
                payload = json.load(fh)
            fails, facts = rejudge(payload)
            ex.evaluations += 1
            ex.traces_validated += facts.get('steps', 0)
            bump(ex.stats.setdefault('cases_per_stream', {}), 'corpus')
            for kind, what, details, sig in fails:
                bump(ex.stats.setdefault('failures', {}), '%s:%s' % (kind, sig or what))
                ex.failures.append(Failure(kind, what, payload, dict(details, corpus=os.path.basename(path)), signature=sig))
        return ex

    def shrink_failure(self, f):
        def fails(payload):
            return any(k == f.kind and w == f.what and sig == f.signature for k, w, _d, sig in rejudge(payload)[0])
        f.case = runner.shrink(f.case, fails, shrink_steps, budget=150)
        for k, w, d, sig in rejudge(f.case)[0]:
            if k == f.kind and w == f.what:
                f.details = d
                break

    def search(self, tier, seed, failures):
        found = []
        payloads = [(s, seed + 7919, i, 60 if s.startswith('hsm') else 200) for s in STREAMS for i in range(8)]
        for part in runner.parallel(chunk, payloads):
            found += [f for f in part.failures if f.kind == 'monitor']
        known = set(k.get('signature') for k in self.known())
        found.sort(key=lambda f: f.signature in known)
        for f in found[:1]:
            self.shrink_failure(f)
        return found

    def replay(self, path):
        with open(path) as fh:
            payload = json.load(fh)
        if 'case' not in payload:
            print('no concrete input in this replay file: broken obligation', payload.get('broken_obligation'))
            return 1
        p = payload if 'stream' in payload else payload['case']      # a corpus witness or a replay file
        case = p['case']
        print('stream:', p['stream'])
        print('machine:', json.dumps({k: v for k, v in case.items() if k not in ('ops',)}, sort_keys=True))
        for i, op in enumerate(case['ops']):
            print('  step %d: %s' % (i, json.dumps(op)))
        fails, _facts = rejudge(p)
        for kind, what, details, sig in fails:
            print('FAIL', kind, what, 'signature=%s' % sig, json.dumps(details, default=str)[:900])
        return 1 if fails else 0

    def assumptions(self):
        return [
            'an attribute a model defines with the value None is not judged: `getattr(model, name, None) is None` '
            'cannot tell it from a missing one, so the machine binds its helper there (modelled: Binding.userNone)',
            'a helper name is judged by the oracle only when exactly one helper ever wanted it in that history (name '
            'hygiene: no event named like is_<state> / to_<state> / may_<event> / trigger); clashing names are still '
            'compared with the Lean model, which follows the code; C11_names_injective states the hygiene',
            'the state attribute itself is excepted from "never overwritten" (set_state assigns it unconditionally); '
            'model_attribute is not named trigger / may_* (AttrOK)',
            'under model_override a replaced attribute disappears together with its event when remove_transition '
            'deletes the event; afterwards the name counts as not defined by the model',
            'to_<state> "ends in that state": for a compound or parallel hierarchical state the model ends inside it '
            '(is_<state>(allow_substates=True)); sources of the to_* probes are single (non-parallel) configurations',
            'hierarchical helper names do not carry the model_attribute infix (is_<path>, to_<path>): the property names '
            'the helpers is_<state> / to_<state>, so this is not counted',
            '"has a transition from that state" is decided by firing on a twin with ignore_invalid_triggers off: anything '
            'but MachineError("Can\'t trigger event ...") counts as a transition (blocked conditions, internal '
            'transitions, unregistered destinations included)',
            'remove_model is not part of the histories (C10); a removed model keeps stale helpers by design',
            'only one-character state separators; Enum states on flat machines only; histories add and never remove '
            'transitions on to_<state> events (theorem hypothesis UserEvents)',
            'one machine per model object (two machines on one model: C10 two-machines stream)',
        ]


CHECK = C11()
