"""C01 — flat machine: every event step follows the documented execution order."""
import hashlib
import random

from .. import common, flat, runner
from ..runner import Exploration, Failure

PROP = 'C01'


def knobs(stream):
    if stream == 'main':
        # the domain of theorem C01_history: no raising callbacks, no re-entrant calls, unqueued, known events
        return flat.Knobs(max_models=2, p_unknown_event=0.0, max_history=10)
    # malformed / neighbouring stream: correspondence only
    return flat.Knobs(max_models=2, p_unknown_event=0.2, p_bad_dest=0.1, p_raise=0.05, p_on_exception=0.3,
                      max_history=8)


def fingerprint(desc):
    return hashlib.sha1(repr(desc.enc_case()).encode()).hexdigest()[:16]


def judge(desc, model_ans, monitor_ans, run):
    """returns list of Failure for one case"""
    out = []
    case = desc.to_json()
    if run.bad:
        out.append(Failure('monitor', 'arguments', case, {'bad': run.bad[:5]}, signature='C01.args'))
    if monitor_ans is not None and monitor_ans != 'ok':
        out.append(Failure('monitor', 'documented-order', case,
                           {'monitor': monitor_ans, 'impl_trace': [common.show_item(i) for i in run.items]},
                           signature='C01.order'))
    m = flat.parse_model_answer(model_ans)
    if m is not None:
        items, models, st = m
        if items != run.items or (models, st) != run.final():
            k = next((i for i, (a, b) in enumerate(zip(items, run.items)) if a != b), min(len(items), len(run.items)))
            out.append(Failure('correspondence', 'trace_eq', case, {
                'first_difference_at': k,
                'model': [common.show_item(i) for i in items[max(0, k - 4):k + 3]],
                'impl': [common.show_item(i) for i in run.items[max(0, k - 4):k + 3]],
                'model_final': [models, sorted(st.items())], 'impl_final': [run.final()[0], sorted(run.final()[1].items())]}))
    return out


def run_cases(descs, monitor):
    """model answers + implementation runs + verified monitor on the implementation traces"""
    ans = common.batch_driver([('flat', d.enc_case()) for d in descs])
    runs = [flat.FlatRun(d).run() for d in descs]
    mon = [None] * len(descs)
    if monitor:
        reqs = []
        for d, r in zip(descs, runs):
            ms = []
            for m in d.models:
                ms += [m, d.initial]
            reqs.append(('c01', d.enc_cfg() + [len(d.models)] + ms + common.enc_items(r.items)))
        mon = common.batch_driver(reqs)
    return ans, runs, mon


def chunk(seed, idx, n, stream):
    rng = random.Random('%s/%s/%d/%d' % (PROP, stream, seed, idx))
    kn = knobs(stream)
    descs = [flat.gen_flat(rng, kn) for _ in range(n)]
    ans, runs, mon = run_cases(descs, stream == 'main')
    ex = Exploration()
    st = ex.stats
    for d, a, r, mo in zip(descs, ans, runs, mon):
        ex.evaluations += 1
        if a == 'oof':
            ex.oof += 1
        rets = [i for i in r.items if i[0] in ('ret', 'raised')]
        executed = sum(1 for i in rets if i[0] == 'ret' and i[2] == 1)
        not_exec = len(rets) - executed
        blocked = sum(1 for i in r.items if i[0] == 'done' and i[2] == 0 and i[3] == 0)
        if executed and not_exec:
            ex.nontrivial.add(fingerprint(d))
        if stream == 'main':
            ex.traces_validated += 1
        o = st.setdefault('outcomes', {})
        for i in rets:
            key = 'executed' if (i[0] == 'ret' and i[2] == 1) else ('false' if i[0] == 'ret' else 'raised:' + common.EXC_NAMES[i[2]])
            o[key] = o.get(key, 0) + 1
        sl = st.setdefault('slot_calls', {})
        for i in r.items:
            if i[0] == 'call':
                sl[common.SLOTS[i[1]]] = sl.get(common.SLOTS[i[1]], 0) + 1
        sz = st.setdefault('states', {})
        sz[str(len(d.states))] = sz.get(str(len(d.states)), 0) + 1
        st['blocked_conditions'] = st.get('blocked_conditions', 0) + blocked
        st['send_event_cases'] = st.get('send_event_cases', 0) + int(d.send_event)
        if len(ex.samples) < 2 and executed and not_exec:
            ex.samples.append({'history': d.history, 'trace': [common.show_item(i) for i in r.items[:40]]})
        ex.failures += judge(d, a, mo, r)
    return ex


def fails_like(kind, what):
    def f(case):
        d = flat.FlatDesc.from_json(case)
        ans, runs, mon = run_cases([d], True)
        fs = judge(d, ans[0], mon[0], runs[0])
        return any(x.kind == kind and x.what == what for x in fs)
    return f


def shrink_steps(case):
    import copy
    # drop history items, script entries, callbacks, transitions
    for i in range(len(case['history'])):
        c = copy.deepcopy(case)
        del c['history'][i]
        if c['history']:
            yield c
    for i in range(len(case['script'])):
        c = copy.deepcopy(case)
        del c['script'][i]
        yield c
    for ei, (_ev, ts) in enumerate(case['events']):
        for ti in range(len(ts)):
            if len(ts) > 1:
                c = copy.deepcopy(case)
                del c['events'][ei][1][ti]
                yield c
            for key in ('prepare', 'conds', 'before', 'after'):
                for ci in range(len(ts[ti][key])):
                    c = copy.deepcopy(case)
                    del c['events'][ei][1][ti][key][ci]
                    yield c
    for key in ('prepare_event', 'before_sc', 'after_sc', 'finalize', 'on_exception', 'on_final'):
        for ci in range(len(case[key])):
            c = copy.deepcopy(case)
            del c[key][ci]
            yield c
    for si, s in enumerate(case['states']):
        for key in ('on_enter', 'on_exit'):
            for ci in range(len(s[key])):
                c = copy.deepcopy(case)
                del c['states'][si][key][ci]
                yield c


class C01(runner.Check):
    prop = PROP
    level = 'proof'
    theorems = ('TM.C01_step', 'TM.C01_history')
    rule = ('random flat configurations (1-5 states, 1-3 events, <=3 candidates per source, <=3 conditions/unless, '
            'callbacks in every slot, ignore flags on machine and states, send_event on/off, internal/reflexive '
            'transitions) x histories of 1-10 triggers x scripted condition valuations; a case is non-trivial when '
            'its trace contains an executed transition and a trigger that did not execute; distinct = different '
            'protocol encoding')
    trusted = ('hand-written model lean/Model/Core.lean tied to /repo by trace equality on every generated case',
               'acceptor lean/Model/Spec/C01.lean read as the documented order',
               'harness/flat.py recorders (argument checks are done by the harness, not in Lean)')

    def assumptions(self):
        return ['theorems assume scripts that neither raise nor re-enter the API (C04/C05 cover those) and '
                'registered source/destination states',
                'resolve_callable (name -> attribute) and *args/**kwargs mechanics are exercised, not modelled']

    def budgets(self, tier):
        return (16, 150, 16, 40) if tier == 'quick' else (64, 900, 32, 300)

    def explore(self, tier, seed):
        nchunks, per, mchunks, mper = self.budgets(tier)
        payloads = [(seed, i, per, 'main') for i in range(nchunks)] + [(seed, i, mper, 'malformed') for i in range(mchunks)]
        ex = Exploration()
        for part in runner.parallel(chunk, payloads):
            ex.merge(part)
        # shrink the first failure of each kind
        done = set()
        for f in ex.failures:
            key = (f.kind, f.what)
            if key in done:
                continue
            done.add(key)
            f.case = runner.shrink(f.case, fails_like(f.kind, f.what), shrink_steps)
            d = flat.FlatDesc.from_json(f.case)
            ans, runs, mon = run_cases([d], True)
            f.details['shrunk_impl_trace'] = [common.show_item(i) for i in runs[0].items]
            m = flat.parse_model_answer(ans[0])
            if m:
                f.details['shrunk_model_trace'] = [common.show_item(i) for i in m[0]]
        return ex

    def search(self, tier, seed, failures):
        """correspondence broke but no monitor failure yet: spend an extra budget of main-stream cases
        (the only ones the monitor judges) with fresh seeds, looking for a rejected implementation trace."""
        payloads = [(seed + 7919, i, 300, 'main') for i in range(32)]
        found = []
        for part in runner.parallel(chunk, payloads):
            found += [f for f in part.failures if f.kind == 'monitor']
        return found

    def replay(self, path):
        import json
        with open(path) as fh:
            payload = json.load(fh)
        d = flat.FlatDesc.from_json(payload['case'])
        ans, runs, mon = run_cases([d], True)
        print('implementation trace:')
        for i in runs[0].items:
            print('   ', common.show_item(i))
        m = flat.parse_model_answer(ans[0])
        print('model trace:')
        for i in (m[0] if m else []):
            print('   ', common.show_item(i))
        print('monitor C01.checkTrace on implementation trace:', mon[0])
        fs = judge(d, ans[0], mon[0], runs[0])
        for f in fs:
            print('FAIL', f.kind, f.what)
        return 1 if fs else 0


CHECK = C01()
