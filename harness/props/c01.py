"""C01 — flat machine: every event step follows the documented execution order."""
from .. import common, flat, flatcheck


def monitor(d, r):
    ms = []
    for m in d.models:
        ms += [m, d.initial]
    return ('c01', d.enc_cfg() + [len(d.models)] + ms + common.enc_items(r.items))


def monitor_without_may(d, r):
    """may_ has no side effects: with the may_ segments cut out, the rest must be a documented-order trace"""
    items, skip = [], None
    for it in r.items:
        if skip is not None:
            if it[0] in ('ret', 'raised') and it[1] == skip:
                skip = None
            continue
        if it[0] == 'api' and it[1] == flat.MAY:
            skip = it[2]
            continue
        items.append(it)
    ms = []
    for m in d.models:
        ms += [m, d.initial]
    return ('c04', d.enc_cfg() + [len(d.models)] + ms + common.enc_items(items))


def async_oracle(d, r):
    from .. import asynctwin
    return [(w, det, 'C01.' + w) for w, det in asynctwin.twin_failures(d, flatcheck.fingerprint(d), qmode=0)]


def nontrivial(d, r):
    rets = [i for i in r.items if i[0] in ('ret', 'raised')]
    executed = sum(1 for i in rets if i[0] == 'ret' and i[2] == 1)
    return bool(executed and len(rets) - executed)


class C01(flatcheck.FlatCheck):
    prop = 'C01'
    manifest = dict(
        level='proof', design='DESIGN.md 4/C01',
        text="Lean 4 theorems C01_step / C01_history: every trace of the flat engine model, for all configurations, histories and condition valuations, is accepted by the documented-order acceptor; the model is tied to /repo by trace equality on generated cases and the same compiled acceptor judges the implementation's traces (also with may_ calls interleaved, which must leave no trace); the asyncio class is compared stage by stage with the synchronous one on the same descriptions (plain / coroutine / suspending callbacks).",
        note="Trusted: Lean kernel (+propext, Quot.sound), hand-written model Model/Core.lean, acceptor Model/Spec/C01.lean, harness recorders; theorem hypotheses NoRaise/NoCmds/WF (raising callbacks and re-entrancy are C04/C05).",
        technique="Lean 4 proof (induction over histories) + differential correspondence + verified trace monitor")
    level = 'proof'
    theorems = ('TM.C01_step', 'TM.C01_history')
    streams = (
        # the domain of theorem C01_history: no raising callbacks, no re-entrant calls, unqueued, known events
        flatcheck.Stream('main', lambda: flat.Knobs(max_models=2, p_unknown_event=0.0, max_history=10, p_custom_attr=0.15, p_ignore_flip=0.2, p_tuple_cbs=0.25),
                         monitor=monitor, nontrivial=nontrivial, quick=(16, 400), thorough=(64, 2500)),
        # malformed / neighbouring stream: correspondence only
        flatcheck.Stream('malformed', lambda: flat.Knobs(max_models=2, p_unknown_event=0.2, p_bad_dest=0.1, p_custom_attr=0.15, p_ignore_flip=0.2,
                                                         p_raise=0.05, p_on_exception=0.3, max_history=8),
                         nontrivial=nontrivial, quick=(16, 60), thorough=(32, 600)),
    )
    streams = streams + (
        # may_ calls interleaved: they must leave no trace in what later triggers do (e.g. no phantom source entries)
        flatcheck.Stream('with-may', lambda: flat.Knobs(max_models=2, p_unknown_event=0.0, max_history=10,
                                                        hist_kinds=(flat.TRIGGER, flat.TRIGGER, flat.MAY)),
                         monitor=monitor_without_may, nontrivial=nontrivial, quick=(16, 120), thorough=(32, 800)),
        # callbacks that trigger further events (no queue: processed inside the callback, possibly moving the very
        # model whose transition is in progress): the engine model is the reference (correspondence only — the
        # acceptor of C01 speaks about one event at a time)
        flatcheck.Stream('reentrant', lambda: flat.Knobs(max_models=2, p_unknown_event=0.0, max_history=6, p_cmds=0.35,
                                                         p_custom_attr=0.1),
                         nontrivial=nontrivial, quick=(16, 80), thorough=(32, 600)),
        # the asyncio class: same documented order (stage by stage) as the synchronous one
        flatcheck.Stream('async-order', lambda: flat.Knobs(max_models=2, p_unknown_event=0.0, max_history=6, p_share_cb=0.0),
                         oracle=async_oracle, nontrivial=nontrivial, quick=(16, 40), thorough=(32, 300)),
    )
    rule = ('random flat configurations (1-5 states, 1-3 events, <=3 candidates per source, <=3 conditions/unless, '
            'callbacks in every slot, ignore flags on machine and states, send_event on/off, internal/reflexive '
            'transitions) x histories of 1-10 triggers x scripted condition valuations; a case is non-trivial when '
            'its trace contains an executed transition and a trigger that did not execute; distinct = different '
            'protocol encoding')
    trusted = ('hand-written model lean/Model/Core.lean tied to /repo by trace equality on every generated case',
               'acceptor lean/Model/Spec/C01.lean read as the documented order',
               'harness/flat.py recorders (argument checks are done by the harness, not in Lean)')

    def assumptions(self):
        return ['theorems assume scripts that neither raise nor re-enter the API (C04/C05 cover those) and '
                'registered source/destination states',
                'resolve_callable (name -> attribute) and *args/**kwargs mechanics are exercised, not modelled']


CHECK = C01()
