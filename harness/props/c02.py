"""C02 — HSM: active configuration stays well-formed; enter/exit stay balanced.

Random state trees (depth <= 4, branching <= 4, exclusive / parallel / parallel inside parallel, `initial` present /
absent / nested), globally and locally declared transitions (reflexive, internal, cross-branch, to ancestors /
descendants, "wildcard" = from every root state), scripted conditions, histories <= 15 events, direct and
`queued=True` (callbacks then trigger further events), run on `HierarchicalMachine` (trace equality with the Lean
model of the hierarchical engine + `model.state` after every call) and on the other five hierarchical classes,
every trace judged by the verified ghost-bookkeeping monitor `C02.check` (Lean) and by a Python oracle that states
the second sentence of the property directly.  Thorough tier adds the small scope: EVERY tree with <= 4 states x
compound kinds x one transition (global or local) x every state as initial (9 848 cases), a quarter of the 5-state layer
and a 1/100 sample of the 6-state layer (the residue classes rotate with the seed)."""
from .. import nested, nestedcheck
from ..nestedcheck import NStream


def knobs():
    return nested.NKnobs(p_suspend=0.25)


def knobs_small():
    return nested.NKnobs(max_states=6, max_depth=3, max_branch=3, max_history=8, p_suspend=0.4)


def knobs_models():
    # several models on one machine, some of them falsy (always, or during every other call of theirs)
    return nested.NKnobs(max_models=3, p_falsy=0.6, max_states=9, max_history=12, p_suspend=0.2, p_mops=0.6)


def knobs_enum():
    # Enum states: one Enum class per sibling group; segment names are re-used on different levels so that
    # two classes share member names; the machine's initial state is a root state
    return nested.NKnobs(p_collide=0.35, p_deep_initial=0.0, max_states=9)


def knobs_global():
    return nested.NKnobs(p_local=0.0, p_collide=0.0)


def enum_le4(idx, nchunks, limit, seed):
    return nestedcheck.enum_single(4, idx, nchunks, limit)


def layer(nstates, stride):
    """the trees with exactly `nstates` states: every `stride`-th residue class, rotated by the seed"""
    def enum(idx, nchunks, limit, seed):
        def gen():
            n = 0
            for d in nestedcheck.enum_single(nstates, (idx * stride + seed) % (nchunks * stride), nchunks * stride, 10 ** 9):
                if len(d.walk()) == nstates:
                    n += 1
                    if n > limit:
                        return
                    yield d
        return gen()
    return enum


class C02(nestedcheck.NestedCheck):
    prop = 'C02'
    level = 'proof'
    monitor_kind = 'c02m'
    streams = (
        NStream('random', knobs=knobs, quick=(16, 60), thorough=(48, 250)),
        NStream('random-small', knobs=knobs_small, quick=(8, 60), thorough=(24, 250)),
        NStream('multi-model', knobs=knobs_models, quick=(8, 40), thorough=(16, 150)),
        NStream('enum-states', knobs=knobs_enum, quick=(8, 40), thorough=(16, 150), enum_states=True,
                pool=('LockedHierarchicalMachine', 'HierarchicalAsyncMachine')),   # the Mermaid graph classes reject Enum children
        NStream('global-only', knobs=knobs_global, quick=(8, 50), thorough=(24, 200)),
        NStream('exhaustive<=4', enum=enum_le4, thorough=(32, 400), others=1, tiers=('thorough',)),
        NStream('5-states', enum=layer(5, 4), thorough=(64, 420), others=1, tiers=('thorough',)),
        NStream('6-states', enum=layer(6, 100), thorough=(64, 210), others=1, tiers=('thorough',)),
    )
    theorems = ('TM.C02_inv_of_check', 'TM.C02_init', 'TM.C02_step_partial', 'TM.C02_step_clean', 'TM.C02_regression_stale_source', 'TM.C02_step_counterexample_run', 'TM.C02_step_counterexample', 'TM.C02_history', 'TM.C02_history_queued', 'TM.C02_step_exclusive', 'TM.C02_step_regions', 'TM.C02_step_global', 'TM.C02_history_regions', 'TM.C02_resolve_order', 'TM.C02_exit_children_first', 'TM.C02_enter_parents_first', 'TM.C02_entered_part_closed', 'TM.C02_new_configuration', 'TM.C02_state_value_roundtrip', 'TM.C02_monitor_accepts_model', 'TM.C02_nesting_model', 'TM.C02_models_frame', 'TM.C02_models_history', 'TM.C02_add_models_frame', 'TM.C02_add_models_new', 'TM.C02_add_models_unnamed', 'TM.C02_remove_models_frame')
    rule = ('a case = (state tree, transition set, script, history); non-trivial iff at least one transition with a '
            'state change executed on HierarchicalMachine; distinct by the hash of the encoded case')
    trusted = (
        'hand-written Lean model of nesting.py (Model/Tree, Nested, NestedDispatch), tied to the code by trace equality',
        'projection of recorder calls to enter/exit/offer/execute events (C02.project in Lean; first recorder of every '
        'state / transition is unique)',
        'harness: generator, runner on the six hierarchical classes (asyncio.run_until_complete per call)',
    )
    manifest = dict(
        level='proof', design='DESIGN.md 4/C02 + design_notes/C02.md',
        technique='Lean 4 proof (executable model of the hierarchical engine, invariant + ghost bookkeeping) + '
                  'differential correspondence with the real classes + verified monitor on implementation traces',
        text="Lean 4 proofs on a model that follows the repaired nesting.py, for ALL state definitions / transition sets (global and local) / non-raising scripts / histories (direct, queued, queued with callbacks that trigger further events): the invariant (admissible configuration, single root, states entered-and-not-exited = active states and their ancestors) holds initially and is carried by every trigger call; no state is entered while active, exited while inactive, entered before its parent or exited before an active descendant; the entered part is closed under initial descent; resolve_order and _enter_nested terminate; the state value round-trips. 'Entered and afterwards exited within one event' is proved for machine-level declarations up to the one remaining open finding (C02_step_global: only a transition that targets another region of an active parallel state can cause it), for any declarations under 'every executing transition is local at its moment' (C02_step_regions), and refuted in general (decide witness c02Cross; three open findings with narrow signatures). Tie to the code: trace equality model = HierarchicalMachine, verified ghost monitor + Python oracle on all six hierarchical classes (string and Enum states), small-scope enumeration; the projection of the model's item log is proved equal to its ghost log.",
        note="Model is hand-written (tied by correspondence); callbacks do not raise and, on unqueued machines, do not trigger events; no final states (C18); open findings: no conflict resolution between regions (cross-region@global/@local) and separate passes per scope for locally declared events (related-sources@local); the sub-classification of the monitor clause 'source-active' is done on the harness side.")

    def assumptions(self):
        return (
            'single active root; every `initial` is empty, one child or all children (the property\'s quantifier); no '
            'state is final (on_final is C18\'s business); callbacks do not raise',
            'an event that a queued machine processes later is judged when its finalize_event callbacks run',
            'direct (unqueued) machines: callbacks do not trigger events (events are issued one at a time)',
        )


CHECK = C02()
