"""C05 — queued processing is run-to-completion, FIFO and exactly-once.

Flat synchronous engine: streams `queued`, `unqueued`, `queued-classes`, `async-queued` (flatcheck machinery).
Transports (theorems in lean/Props/C05N.lean, C05A.lean, C05M.lean):
  `nested-queued`, `nested-unqueued`   hierarchical classes, harness/nested5.py
  `async-monitor`                      AsyncMachine with queued=True (acceptor `C05.idle`) and queued='model' on
                                       several models (acceptor `C05M.accept`, one queue per model)"""
import json
import random

from .. import common, flat, flatcheck, runner, nested5
from ..common import SLOT
from ..flat import TRIGGER, REMOVE
from ..runner import Exploration, Failure


def add_marker(d, rng):
    """visibility: a fresh finalize callback at the head of the list (see Model/Spec/C05.lean)"""
    f0 = (max(d.cb_slot) + 1) if d.cb_slot else 0
    d.cb_slot[f0] = SLOT['finalize_event']
    d.finalize = [f0] + d.finalize


def monitor(d, r):
    if not d.queued:
        return None
    return ('c05', [d.finalize[0]] + common.enc_items(r.items))


def nontrivial(d, r):
    # at least one deferred trigger (an `api trigger` issued while a callback is running)
    depth = 0
    for i in r.items:
        if i[0] == 'call':
            depth += 1
        elif i[0] == 'done':
            depth -= 1
        elif i[0] == 'api' and i[1] == 0 and depth > 0:
            return True
    return False


def knobs_q():
    return flat.Knobs(foreign_models=True, p_raise=0.06, p_cmds=0.35, p_on_exception=0.3, p_queued=1.0,
                      max_models=3, p_bad_dest=0.03, cmd_kinds=(TRIGGER, TRIGGER, TRIGGER, REMOVE),
                      hist_kinds=(TRIGGER, TRIGGER, TRIGGER, TRIGGER, REMOVE), p_unknown_event=0.05,
                      p_custom_attr=0.1, p_ignore_flip=0.15)


def knobs_u():
    k = knobs_q()
    k.p_queued = 0.0
    return k


def knobs_q_classes():
    k = knobs_q()
    k.p_unknown_event = 0.0      # unknown names are handled differently by the hierarchical classes (outside C05/C09)
    k.p_bad_dest = 0.0           # so are unregistered destinations (resolved before the exit callbacks there)
    return k


def run_on_class(d):
    """the queued programs on the other synchronous classes (they share Machine._process)"""
    from .c04 import get_cls, SYNC_CLASSES
    pool = [c for c in SYNC_CLASSES[1:] if 'Graph' not in c]     # graph classes refuse to re-add a removed model
    name = pool[int(flatcheck.fingerprint(d), 16) % len(pool)]
    cls, kw = get_cls(name)
    return flat.FlatRun(d, machine_cls=cls, extra_kwargs=kw)


def knobs_async():
    k = knobs_q()
    k.p_unknown_event = 0.0
    k.p_bad_dest = 0.0
    k.p_share_cb = 0.0
    k.max_history = 8
    return k


def async_oracle(d, r):
    """the asyncio classes: queued=True (one queue) and queued='model' (judged on one model, where it must coincide
    with the synchronous queue) follow the same discipline as the synchronous machine"""
    from .. import asynctwin
    fp = int(flatcheck.fingerprint(d), 16)
    out = []
    qmode = fp % 3          # 0: no queue (nested events run inside the awaiting callback), 1: one queue, 2: per model
    dd = asynctwin.clone(d)
    if qmode == 2:
        # per-model queues: comparable with the synchronous queue on a single model
        keep = dd.models[:1]
        dd.models = keep
        # (no remove_model here: a trigger on a REMOVED model finds its per-model queue gone — outside the property)
        dd.history = [c for c in dd.history if c[1] in keep and c[0] == TRIGGER]
        dd.script = {k: ([c for c in cmds if c[1] in keep and c[0] == TRIGGER], o) for k, (cmds, o) in dd.script.items()}
        if not dd.history:
            return out
    for w, det in asynctwin.twin_failures(dd, fp, qmode=qmode):
        out.append((w, det, 'C05.' + w))
    return out


# ---------------------------------------------------------------------------------------------
# async-monitor: the verified acceptors on implementation traces of AsyncMachine
# ---------------------------------------------------------------------------------------------

ASYNC_MONITOR = dict(quick=(8, 60), thorough=(32, 400))


def knobs_async_monitor():
    k = knobs_async()
    k.max_models = 3
    k.p_cmds = 0.4
    return k


def gen_permodel_scenario(rng):
    """a structured two-/three-model case for the per-model clauses: while model 0 processes `e0`, one of its
    callbacks (the carrier) defers events to model 0 itself and awaits a trigger on model 1, whose queue is idle — a
    nested draining session — in which callbacks defer further events to BOTH models and (often) raise, with or
    without `on_exception` handlers; afterwards the deferred events of model 0 must still be processed, in order"""
    d = flat.FlatDesc()
    nxt = [0]

    def new(slot):
        c = nxt[0]
        nxt[0] += 1
        d.cb_slot[c] = SLOT[slot]
        return c
    p, b, a = new('prepare'), new('before'), new('after')
    x0, n1 = new('on_exit'), new('on_enter')
    b1 = new('before')
    d.states = [{'name': 0, 'on_enter': [], 'on_exit': [x0], 'ignore': None, 'final': False},
                {'name': 1, 'on_enter': [n1], 'on_exit': [], 'ignore': None, 'final': False}]
    t01 = {'source': 0, 'dest': 1, 'prepare': [p], 'conds': [], 'before': [b], 'after': [a]}
    t10 = {'source': 1, 'dest': 0, 'prepare': [], 'conds': [], 'before': [], 'after': []}
    d.events = [(0, [t01, t10]),
                (1, [{'source': s, 'dest': None, 'prepare': [], 'conds': [], 'before': [b1], 'after': []} for s in (0, 1)])]
    d.finalize = [new('finalize_event')] + ([new('finalize_event')] if rng.random() < 0.3 else [])
    if rng.random() < 0.7:
        d.on_exception = [new('on_exception')]
    if rng.random() < 0.3:
        d.prepare_event = [new('prepare_event')]
    d.ignore = rng.choice([None, True])
    d.queued = True
    d.send_event = rng.random() < 0.3
    d.models = list(range(rng.choice((2, 2, 3))))
    order = [p, b, x0, n1, a]
    i = rng.randrange(len(order))
    carrier = order[i]
    T = lambda m, e: (TRIGGER, m, e)
    cmds = [T(0, 1)] * rng.randint(0, 2) + [T(1, 0)] + [T(0, 1)] * rng.randint(0, 2)
    if len(d.models) > 2 and rng.random() < 0.5:
        cmds.insert(rng.randrange(len(cmds) + 1), T(2, rng.choice((0, 1))))
    d.script[(carrier, 0)] = (cmds, ('ret', True))
    # invocation index of a callback inside the nested session of model 1
    def k_nested(j):
        return 1 if j <= i else 0
    j = rng.randrange(len(order))
    inner = []
    if rng.random() < 0.6:
        inner = [T(rng.choice((0, 1)), 1) for _ in range(rng.randint(1, 2))]
    out = ('raise', 4 if rng.random() < 0.25 else 3, 0) if rng.random() < 0.7 else ('ret', True)
    if inner or out != ('ret', True):
        key = (order[j], k_nested(j))
        if key not in d.script:
            d.script[key] = (inner, out)
        # the only way a nested session can RAISE while the enclosing event survives: the exception escapes the nested
        # event because its on_exception handler raises itself (first invocation), and the enclosing event's handler
        # (second invocation) returns — the enclosing session must then go on with ITS pending events
        if d.on_exception and out[0] == 'raise' and rng.random() < 0.6:
            d.script[(d.on_exception[0], 0)] = ((), ('raise', 3, 1))
    d.history = [T(0, 0)] + [T(rng.randrange(len(d.models)), rng.choice((0, 1))) for _ in range(rng.randint(0, 3))]
    return d


def gen_async_monitor(rng):
    from .. import aflat
    qm = rng.choice((1, 2, 2))
    if rng.random() < 0.35:
        d = gen_permodel_scenario(rng)
    else:
        d = flat.gen_flat(rng, knobs_async_monitor())
        add_marker(d, rng)
    # (decorate with qmode=1: all models are kept; a callback that awaits triggers sits alone in its stage)
    aflat.decorate(d, rng, qmode=1, raise_in_stage=True, keep_kinds=(TRIGGER,))
    d.qmode = qm
    return d


def async_monitor_judge(d, model_ans=None):
    """-> (failures, run)"""
    from .. import aflat
    from transitions.extensions.asyncio import AsyncMachine
    r = aflat.Run7(d, AsyncMachine, True).run()
    case = {'stream': 'async-monitor', 'desc': aflat.to_json(d), 'qmode': d.qmode}
    out = []
    # the Lean async engine (the object of C05A_queued_history / C05M_permodel_history) on the same case: C07's check
    # ties it to AsyncMachine on ITS generator; here on the per-model scenarios (nested sessions, raises inside them)
    if aflat.is_solo(d):
        if model_ans is None:
            model_ans = common.batch_driver([('aflat', aflat.enc_aflat(d))])[0]
        m = flat.parse_model_answer(model_ans)
        if m is not None:
            items, models, st = m
            if items != r.items or (models, st) != r.final():
                k = next((i for i, (x, y) in enumerate(zip(items, r.items)) if x != y), min(len(items), len(r.items)))
                out.append(Failure('correspondence', 'async_trace_eq', case, {
                    'first_difference_at': k,
                    'model': [common.show_item(i) for i in items[max(0, k - 4):k + 3]],
                    'impl': [common.show_item(i) for i in r.items[max(0, k - 4):k + 3]]}))
    # neither the engine nor a scripted callback raises anything but MachineError / AttributeError / ValueError /
    # the two scripted kinds: an escaping exception of another kind comes from the queue handling itself
    odd = [common.show_item(i) for i in r.items if i[0] == 'raised' and i[2] in (5, 6)]
    if odd:
        out.append(Failure('monitor', 'unexpected-exception-from-queue-handling', case,
                           {'items': odd[:3], 'impl_trace': [common.show_item(i) for i in r.items]},
                           signature='C05.unexpected-exception'))
    if r.bad:
        out.append(Failure('monitor', 'async-arguments', case, {'bad': r.bad[:5]}, signature='C05.args'))
    kind = 'c05' if d.qmode == 1 else 'c05m'
    a = common.batch_driver([(kind, [d.finalize[0]] + common.enc_items(r.items))])[0]
    if a != 'ok':
        out.append(Failure('monitor', 'verified-monitor:AsyncMachine:queued=%r' % (aflat.QMODES[d.qmode],), case,
                           {'monitor': a, 'impl_trace': [common.show_item(i) for i in r.items]},
                           signature='C05.monitor'))
    return out, r


def nested_sessions(items):
    """number of trigger calls that opened a draining session while another one was in progress (per-model queues)"""
    depth = n = 0
    for i, it in enumerate(items):
        if it[0] == 'call':
            depth += 1
        elif it[0] == 'done':
            depth -= 1
        elif it[0] == 'api' and depth > 0 and i + 1 < len(items) and items[i + 1][0] == 'call':
            n += 1
    return n


def async_monitor_chunk(seed, idx, n):
    from .. import aflat
    rng = random.Random('C05/async-monitor/%d/%d' % (seed, idx))
    ex = Exploration()
    descs = [gen_async_monitor(rng) for _ in range(n)]
    tied = [i for i, d in enumerate(descs) if aflat.is_solo(d)]
    answers = dict(zip(tied, common.batch_driver([('aflat', aflat.enc_aflat(descs[i])) for i in tied])))
    for i, d in enumerate(descs):
        fs, r = async_monitor_judge(d, answers.get(i))
        if answers.get(i) == 'oof':
            ex.oof += 1
        ex.evaluations += 1
        ex.traces_validated += 1
        if nontrivial(d, r):
            ex.nontrivial.add(flatcheck.fingerprint(d) + str(d.qmode))
        st = ex.stats.setdefault('async_monitor', {})
        key = 'queued=%r models=%d' % (aflat.QMODES[d.qmode], len(d.models))
        st[key] = st.get(key, 0) + 1
        if d.qmode == 2:
            st['nested_sessions'] = st.get('nested_sessions', 0) + nested_sessions(r.items)
        ex.failures += fs
    return ex


MULTI_CLASSES = ('Machine', 'LockedMachine', 'GraphMachine', 'HierarchicalMachine', 'LockedHierarchicalMachine',
                 'HierarchicalGraphMachine')


def multi_remove_failures(case):
    """queued machine, several models: a callback queues events for the other models and then removes SEVERAL of them
    in ONE remove_model([...]) call (any order) — 'removing a model discards exactly that model's pending events and
    leaves every other event, including the one in progress, to be processed exactly once' (scenario shared with C10)"""
    from . import c10
    res = c10.queued_remove_case(case['cls'], random.Random(case['sub']))
    return [Failure('monitor', w, case, d, signature='C05.multi-remove') for w, d, _sig in res]


def multi_remove_chunk(seed, idx, n):
    rng = random.Random('C05/multi-remove/%d/%d' % (seed, idx))
    ex = Exploration()
    for _ in range(n):
        case = {'stream': 'multi-remove', 'cls': rng.choice(MULTI_CLASSES), 'sub': rng.randrange(1 << 30)}
        ex.evaluations += 1
        ex.traces_validated += 1
        ex.nontrivial.add('multi-remove/%s/%d' % (case['cls'], case['sub']))
        h = ex.stats.setdefault('multi_remove_class', {})
        h[case['cls']] = h.get(case['cls'], 0) + 1
        ex.failures += multi_remove_failures(case)
        if ex.failures:
            break
    return ex


BURST_CLASSES = ('Machine', 'LockedMachine', 'HierarchicalMachine', 'AsyncMachine', 'HierarchicalAsyncMachine')
BURST_SIZES = (1, 7, 300, 1100, 2600)


def burst_failures(case):
    """the model's queue is an unbounded list (the theorems hold for every length): ONE callback of a queued machine
    defers `n` further events at once, across two models; every deferred call returns True at once, and afterwards every
    one of them has been processed exactly once, in arrival order, after the event in progress — for sizes far beyond
    what the random programs reach"""
    import asyncio
    from transitions.extensions import MachineFactory
    from transitions.extensions.asyncio import AsyncMachine, HierarchicalAsyncMachine
    n, cls_name, qmode = case['n'], case['cls'], case['qmode']
    is_async = 'Async' in cls_name
    cls = {'AsyncMachine': AsyncMachine, 'HierarchicalAsyncMachine': HierarchicalAsyncMachine}.get(cls_name) or \
        MachineFactory.get_predefined(locked='Locked' in cls_name, nested='Hierarchical' in cls_name)
    log, rets = [], []

    class M(object):
        pass
    models = [M(), M()]
    holder = {}
    if is_async:
        async def burst(k, m):
            log.append(('start', k, m))
            for i in range(n):
                rets.append(await models[i % 2].tick(i, i % 2))
            log.append(('burst-done', k, m))
    else:
        def burst(k, m):
            log.append(('start', k, m))
            for i in range(n):
                rets.append(models[i % 2].tick(i, i % 2))
            log.append(('burst-done', k, m))

    def ticked(k, m):
        log.append(('tick', k, m))

    def fin(k, m):
        log.append(('fin', k, m))
    machine = cls(model=models, states=['A', 'B'], initial='A', queued=qmode, finalize_event=[fin], transitions=[
        {'trigger': 'go', 'source': 'A', 'dest': 'B', 'after': [burst]},
        {'trigger': 'tick', 'source': '*', 'dest': '=', 'after': [ticked]}])
    holder['m'] = machine
    try:
        if is_async:
            r0 = asyncio.run(models[0].go(-1, 0))
        else:
            r0 = models[0].go(-1, 0)
    except BaseException as e:      # noqa: BLE001
        return [Failure('monitor', 'burst-raised', case, {'error': '%s: %s' % (type(e).__name__, str(e)[:200])},
                        signature='C05.burst')]
    bad = []
    if r0 is not True or not all(r is True for r in rets) or len(rets) != n:
        bad.append(('burst-return-values', {'first': repr(r0), 'deferred_calls': len(rets),
                                            'not_true': sum(1 for r in rets if r is not True)}))
    ticks = [it[1] for it in log if it[0] == 'tick']
    if qmode == 'model' and is_async:
        # per-model queues: model 0's own events wait for `go`, model 1's run when they arrive; per model in order
        per = [[it[1] for it in log if it[0] == 'tick' and it[2] == j] for j in (0, 1)]
        want = [[i for i in range(n) if i % 2 == j] for j in (0, 1)]
        if per != want:
            bad.append(('burst-not-exactly-once-in-order', {'n': n, 'processed': [len(x) for x in per],
                        'first_missing': [sorted(set(w) - set(p))[:5] for w, p in zip(want, per)]}))
        done = next((i for i, it in enumerate(log) if it == ('fin', -1, 0)), None)
        first0 = next((i for i, it in enumerate(log) if it[0] == 'tick' and it[2] == 0), None)
        if n and per[0] and (done is None or first0 < done):
            bad.append(('burst-not-run-to-completion', {'n': n}))
    else:
        if ticks != list(range(n)):
            bad.append(('burst-not-exactly-once-in-order', {'n': n, 'processed': len(ticks),
                        'first_missing': sorted(set(range(n)) - set(ticks))[:5],
                        'first_out_of_order': next((i for i, (a, b) in enumerate(zip(ticks, range(n))) if a != b), None)}))
        done = next((i for i, it in enumerate(log) if it == ('fin', -1, 0)), None)
        first = next((i for i, it in enumerate(log) if it[0] == 'tick'), None)
        if n and ticks and (done is None or first < done):
            bad.append(('burst-not-run-to-completion', {'n': n}))
    return [Failure('monitor', w, case, dict(d, cls=cls_name, qmode=qmode), signature='C05.burst') for w, d in bad]


def burst_chunk(seed, idx, n):
    rng = random.Random('C05/burst/%d/%d' % (seed, idx))
    ex = Exploration()
    for k in range(n):
        cls = BURST_CLASSES[(idx + k) % len(BURST_CLASSES)]
        case = {'stream': 'burst', 'cls': cls, 'n': rng.choice(BURST_SIZES),
                'qmode': (rng.choice([True, 'model']) if 'Async' in cls else True)}
        ex.evaluations += 1
        ex.traces_validated += 1
        ex.nontrivial.add('burst/%s/%s/%d' % (case['cls'], case['qmode'], case['n']))
        h = ex.stats.setdefault('burst_size', {})
        h[str(case['n'])] = h.get(str(case['n']), 0) + 1
        ex.failures += burst_failures(case)
        if ex.failures:
            break
    return ex


def any_chunk(kind, *args):
    """one worker entry point for the kinds of streams"""
    if kind == 'multi-remove':
        return multi_remove_chunk(*args)
    if kind == 'burst':
        return burst_chunk(*args)
    if kind == 'flat':
        return flatcheck.chunk(*args)
    if kind == 'nested':
        return nested5.chunk(*args)
    return async_monitor_chunk(*args)


class C05(flatcheck.FlatCheck):
    prop = 'C05'
    manifest = dict(
        level='proof', design='DESIGN.md 4/C05 + design_notes/C05N.md',
        text="Lean 4 theorem C05_queued_history: for every queued configuration, every script whose callbacks trigger events / remove models / raise arbitrarily, and every history, the engine model's trace follows the abstract FIFO queue (run-to-completion incl. finalize, arrival order, at most once, deferred calls return True, discard on escape, remove_model drops exactly that model's pending entries, drain returns only when empty). Proved by simulation; the same acceptor judges implementation traces of Machine and of the other synchronous classes; unqueued immediacy by model equality. Transports, all by simulation on generic skeletons and for EVERY script without side conditions: C05N_queued_history (hierarchical engine nmachineProcess/ndrain/ntriggerEvent, any state tree, same acceptor, no projection), C05N_deferred_trigger, C05N_unqueued_nested_immediate/_complete; C05A_queued_history (async engine, queued=True, any callback kinds, no staging hypothesis), C05A_queued_history_partial (transport through C07's Agree; acceptor proved insensitive to what obsC07 removes, C05_idle_filter); C05M_permodel_history (queued='model': a stack of per-model sessions, acceptor Model/Spec/C05M.lean). Tie: trace equality model = HierarchicalMachine (queued, and unqueued at root scope) incl. raising callbacks and on_exception, verified acceptors on traces of HierarchicalMachine / LockedHierarchicalMachine / HierarchicalAsyncMachine / AsyncMachine (queued=True and 'model' on 1-3 models), an immediacy oracle on unqueued hierarchical traces, the sync-vs-async twin.",
        note="Trusted: Lean kernel, Model/Core.lean (_process, remove_model), Model/NestedDispatch.lean, Model/Async.lean tied by trace equality, acceptors Model/Spec/C05.lean and Model/Spec/C05M.lean, visibility marker (first finalize callback). The hierarchical model has one model (no remove_model clause there) and does not model the machine's dynamic scope (unqueued triggers from on_enter/on_exit or from callbacks of events declared inside states are judged by the oracle only). Async: triggers awaited one at a time.",
        technique="Lean 4 proof (simulation with an abstract queue; generic skeletons for the hierarchical and the async engine) + differential correspondence + verified trace monitors")
    level = 'proof'
    theorems = ('TM.C05_top_trigger', 'TM.C05_queued_history', 'TM.C05_unqueued_nested_immediate',
                # hierarchical engine (lean/Props/C05N.lean)
                'TM.C05N_deferred_trigger', 'TM.C05N_top_trigger', 'TM.C05N_queued_history',
                'TM.C05N_unqueued_nested_immediate', 'TM.C05N_unqueued_nested_complete',
                # async engine, queued=True (lean/Props/C05A.lean)
                'TM.C05A_top_trigger', 'TM.C05A_queued_history', 'TM.C05A_queued_history_obs',
                'TM.C05A_queued_history_partial',
                'TM.C05_idle_filter', 'TM.C05_idle_obsC07',
                # async engine, queued='model' (lean/Props/C05M.lean)
                'TM.C05M_top_trigger', 'TM.C05M_permodel_history')
    streams = (
        flatcheck.Stream('queued', knobs_q, monitor=monitor, prepare=add_marker, nontrivial=nontrivial,
                         quick=(16, 300), thorough=(64, 2000)),
        flatcheck.Stream('unqueued', knobs_u, prepare=add_marker, nontrivial=nontrivial,
                         quick=(16, 100), thorough=(32, 1000)),
        flatcheck.Stream('async-queued', knobs_async, prepare=add_marker, nontrivial=nontrivial, oracle=async_oracle,
                         quick=(16, 40), thorough=(32, 400)),
        flatcheck.Stream('queued-classes', knobs_q_classes, monitor=monitor, prepare=add_marker, nontrivial=nontrivial,
                         run_factory=run_on_class, quick=(16, 100), thorough=(32, 800)),
    )
    rule = ('random callback programs: scripts in which callbacks at any stage trigger events on the same or other '
            'models (registered or not), call remove_model, or raise (Exception and BaseException), nested through '
            'the queue, on flat machines with 1-3 models, queued (judged by the verified abstract-queue monitor) '
            'and unqueued (model equality); hierarchical machines (random trees with compound / parallel states, depth <= 3, '
            'machine-level and state-level declarations) with callbacks at every stage triggering events and raising, with '
            'and without on_exception handlers, queued and direct, on HierarchicalMachine / LockedHierarchicalMachine / '
            'HierarchicalAsyncMachine; AsyncMachine with queued=True and queued=\'model\' on 1-3 models incl. structured '
            'nested-session scenarios; a burst stream: one callback defers 1 / 7 / 300 / 1100 / 2600 events at once across two '
            'models (sync, locked, hierarchical and async classes; queued True and \'model\') — the model\'s queue is an unbounded '
            'list, the implementation\'s must be as well; non-trivial = at least one trigger issued from inside a callback')
    trusted = ('hand-written model lean/Model/Core.lean (Machine._process, remove_model) tied to /repo by trace equality',
               'hand-written models lean/Model/NestedDispatch.lean (nested-queued / nested-unqueued streams) and '
               'lean/Model/Async.lean (C07 check + async-monitor stream), tied by trace equality',
               'abstract queue acceptors lean/Model/Spec/C05.lean (machine-wide) and lean/Model/Spec/C05M.lean (per model)',
               'visibility assumption: a distinguished first finalize_event callback marks completion of an event')

    def assumptions(self):
        return ['the theorem covers re-entrant trigger and remove_model commands; dispatch/may/add_model from '
                'callbacks are exercised by C10/C12 correspondence only',
                'flat unqueued immediacy is decided by model equality (the model nests by construction)',
                'hierarchical engine: the model has ONE model, so the remove_model clause is not expressible there '
                '(flat engine + class streams cover it); unknown event names go through the queue like any other event '
                '(HierarchicalMachine.trigger_event), which is what the model does',
                'hierarchical engine, unqueued: the model tie is claimed when no on_enter / on_exit callback triggers '
                'events (those callbacks run while the machine is scoped into their state and the nested event is '
                'dispatched relative to that scope; NestedState._scope is not modelled) - the immediacy oracle still judges '
                'the implementation traces of such runs',
                'async classes: triggers are awaited one at a time and a callback that awaits triggers sits alone in its '
                "stage (the regime of C07); queued='model' on several models is judged by the per-model acceptor "
                'C05M.accept; remove_model under the async queues is covered by the sync-vs-async twin only']

    # -- streams of three kinds in one worker pool ----------------------------------------------------
    def explore(self, tier, seed):
        payloads = []
        for s in self.streams:
            nch, per = s.quick if tier == 'quick' else s.thorough
            payloads += [('flat', self.prop, seed, i, per, s.name) for i in range(nch)]
        for name, cf in nested5.STREAMS.items():
            nch, per = cf['quick' if tier == 'quick' else 'thorough']
            payloads += [('nested', seed, i, per, name) for i in range(nch)]
        nch, per = ASYNC_MONITOR['quick' if tier == 'quick' else 'thorough']
        payloads += [('async-monitor', seed, i, per) for i in range(nch)]
        payloads += [('multi-remove', seed, i, 12 if tier == 'quick' else 120) for i in range(4)]
        payloads += [('burst', seed, i, 5 if tier == 'quick' else 15) for i in range(4)]
        ex = Exploration()
        for part in runner.parallel(any_chunk, payloads):
            ex.merge(part)
        done = set()
        for f in ex.failures:
            key = (f.kind, f.what)
            if key in done:
                continue
            done.add(key)
            try:
                f.case = runner.shrink(f.case, self.fails_like(f.kind, f.what), self.steps_for(f.case),
                                       budget=20 if 'hang' in f.what else 300)
                self.annotate(f)
            except common.MachineryError:
                raise
            except BaseException:
                pass
        return ex

    @staticmethod
    def kind_of(case):
        if case['stream'] == 'multi-remove':
            return 'multi-remove'
        if case['stream'] == 'burst':
            return 'burst'
        if case['stream'] in nested5.STREAMS:
            return 'nested'
        if case['stream'] == 'async-monitor':
            return 'async-monitor'
        return 'flat'

    def steps_for(self, case):
        k = self.kind_of(case)
        if k in ('multi-remove', 'burst'):
            return lambda c: iter(())
        if k == 'nested':
            return nested5.shrink_steps
        if k == 'async-monitor':
            def steps(c):
                for x in flatcheck.shrink_steps(c):
                    yield dict(c, desc=x['desc'])
            return steps
        return flatcheck.shrink_steps

    def failures_of(self, case):
        k = self.kind_of(case)
        if k == 'multi-remove':
            return multi_remove_failures(case)
        if k == 'burst':
            return burst_failures(case)
        if k == 'nested':
            return nested5.rejudge(case)[0]
        if k == 'async-monitor':
            from .. import aflat
            d = aflat.from_json(case['desc'])
            d.qmode = case['qmode']
            return async_monitor_judge(d)[0]
        return self.rejudge(case)[4]

    def fails_like(self, kind, what):
        def f(case):
            return any(x.kind == kind and x.what == what for x in self.failures_of(case))
        return f

    def annotate(self, f):
        k = self.kind_of(f.case)
        if k == 'flat':
            return flatcheck.FlatCheck.annotate(self, f)
        for x in self.failures_of(f.case):
            if x.kind == f.kind and x.what == f.what:
                f.details['shrunk'] = x.details

    def search(self, tier, seed, failures):
        payloads = []
        for s in self.streams:
            if s.monitor or s.oracle:
                payloads += [('flat', self.prop, seed + 7919, i, 250, s.name) for i in range(24)]
        for name in nested5.STREAMS:
            payloads += [('nested', seed + 7919, i, 120, name) for i in range(16)]
        payloads += [('async-monitor', seed + 7919, i, 150) for i in range(8)]
        found = []
        for part in runner.parallel(any_chunk, payloads):
            found += [f for f in part.failures if f.kind == 'monitor']
        for f in found[:1]:
            f.case = runner.shrink(f.case, self.fails_like(f.kind, f.what), self.steps_for(f.case))
            self.annotate(f)
        return found

    def replay(self, path):
        with open(path) as fh:
            payload = json.load(fh)
        if 'case' not in payload:
            print('no concrete input in this replay file: broken obligation', payload.get('broken_obligation'))
            return 1
        case = payload['case']
        k = self.kind_of(case)
        if k in ('multi-remove', 'burst'):
            fs = multi_remove_failures(case) if k == 'multi-remove' else burst_failures(case)
            for f in fs:
                print('FAIL', f.what, json.dumps(f.details, default=str)[:1200])
            return 1 if fs else 0
        if k == 'flat':
            return flatcheck.FlatCheck.replay(self, path)
        if k == 'nested':
            return nested5.replay(case)
        from .. import aflat
        d = aflat.from_json(case['desc'])
        d.qmode = case['qmode']
        fs, r = async_monitor_judge(d)
        print('AsyncMachine queued=%r models=%r' % (aflat.QMODES[d.qmode], d.models))
        for i in r.items:
            print('   ', common.show_item(i))
        for f in fs:
            print('FAIL', f.kind, f.what)
        return 1 if fs else 0

    def leanchecker(self):
        import subprocess
        mods = ['Props.C05', 'Props.C05N', 'Props.C05A', 'Props.C05M']
        p = subprocess.run(['lake', 'env', 'leanchecker'] + mods, cwd=common.LEAN, stdout=subprocess.PIPE,
                           stderr=subprocess.STDOUT, text=True)
        if p.returncode != 0:
            raise common.MachineryError('leanchecker failed: %s' % p.stdout[-1500:])


CHECK = C05()
