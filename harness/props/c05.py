"""C05 — queued processing is run-to-completion, FIFO and exactly-once."""
from .. import common, flat, flatcheck
from ..common import SLOT
from ..flat import TRIGGER, REMOVE


def add_marker(d, rng):
    """visibility: a fresh finalize callback at the head of the list (see Model/Spec/C05.lean)"""
    f0 = (max(d.cb_slot) + 1) if d.cb_slot else 0
    d.cb_slot[f0] = SLOT['finalize_event']
    d.finalize = [f0] + d.finalize


def monitor(d, r):
    if not d.queued:
        return None
    return ('c05', [d.finalize[0]] + common.enc_items(r.items))


def nontrivial(d, r):
    # at least one deferred trigger (an `api trigger` issued while a callback is running)
    depth = 0
    for i in r.items:
        if i[0] == 'call':
            depth += 1
        elif i[0] == 'done':
            depth -= 1
        elif i[0] == 'api' and i[1] == 0 and depth > 0:
            return True
    return False


def knobs_q():
    return flat.Knobs(foreign_models=True, p_raise=0.06, p_cmds=0.35, p_on_exception=0.3, p_queued=1.0,
                      max_models=3, p_bad_dest=0.03, cmd_kinds=(TRIGGER, TRIGGER, TRIGGER, REMOVE),
                      hist_kinds=(TRIGGER, TRIGGER, TRIGGER, TRIGGER, REMOVE), p_unknown_event=0.05,
                      p_custom_attr=0.1, p_ignore_flip=0.15)


def knobs_u():
    k = knobs_q()
    k.p_queued = 0.0
    return k


def knobs_q_classes():
    k = knobs_q()
    k.p_unknown_event = 0.0      # unknown names are handled differently by the hierarchical classes (outside C05/C09)
    k.p_bad_dest = 0.0           # so are unregistered destinations (resolved before the exit callbacks there)
    return k


def run_on_class(d):
    """the queued programs on the other synchronous classes (they share Machine._process)"""
    from .c04 import get_cls, SYNC_CLASSES
    pool = [c for c in SYNC_CLASSES[1:] if 'Graph' not in c]     # graph classes refuse to re-add a removed model
    name = pool[int(flatcheck.fingerprint(d), 16) % len(pool)]
    cls, kw = get_cls(name)
    return flat.FlatRun(d, machine_cls=cls, extra_kwargs=kw)


def knobs_async():
    k = knobs_q()
    k.p_unknown_event = 0.0
    k.p_bad_dest = 0.0
    k.p_share_cb = 0.0
    k.max_history = 8
    return k


def async_oracle(d, r):
    """the asyncio classes: queued=True (one queue) and queued='model' (judged on one model, where it must coincide
    with the synchronous queue) follow the same discipline as the synchronous machine"""
    from .. import asynctwin
    fp = int(flatcheck.fingerprint(d), 16)
    out = []
    qmode = fp % 3          # 0: no queue (nested events run inside the awaiting callback), 1: one queue, 2: per model
    dd = asynctwin.clone(d)
    if qmode == 2:
        # per-model queues: comparable with the synchronous queue on a single model
        keep = dd.models[:1]
        dd.models = keep
        # (no remove_model here: a trigger on a REMOVED model finds its per-model queue gone — outside the property)
        dd.history = [c for c in dd.history if c[1] in keep and c[0] == TRIGGER]
        dd.script = {k: ([c for c in cmds if c[1] in keep and c[0] == TRIGGER], o) for k, (cmds, o) in dd.script.items()}
        if not dd.history:
            return out
    for w, det in asynctwin.twin_failures(dd, fp, qmode=qmode):
        out.append((w, det, 'C05.' + w))
    return out


class C05(flatcheck.FlatCheck):
    prop = 'C05'
    manifest = dict(
        level='proof', design='DESIGN.md 4/C05',
        text="Lean 4 theorem C05_queued_history: for every queued configuration, every script whose callbacks trigger events / remove models / raise arbitrarily, and every history, the engine model's trace follows the abstract FIFO queue (run-to-completion incl. finalize, arrival order, at most once, deferred calls return True, discard on escape, remove_model drops exactly that model's pending entries, drain returns only when empty). Proved by simulation; the same acceptor judges implementation traces of Machine and of the other synchronous classes; unqueued immediacy by model equality; the asyncio classes (queued=True, queued='model') by a sync-vs-async twin on the same programs (incl. remove_model from callbacks).",
        note="Trusted: Lean kernel, Model/Core.lean (_process, remove_model) tied by trace equality, acceptor Model/Spec/C05.lean, visibility marker (first finalize callback). Hierarchical machines share Machine._process; their queue behaviour is exercised by the nested correspondence.",
        technique="Lean 4 proof (simulation with an abstract queue) + differential correspondence + verified trace monitor")
    level = 'proof'
    theorems = ('TM.C05_top_trigger', 'TM.C05_queued_history', 'TM.C05_unqueued_nested_immediate')
    streams = (
        flatcheck.Stream('queued', knobs_q, monitor=monitor, prepare=add_marker, nontrivial=nontrivial,
                         quick=(16, 300), thorough=(64, 2000)),
        flatcheck.Stream('unqueued', knobs_u, prepare=add_marker, nontrivial=nontrivial,
                         quick=(16, 100), thorough=(32, 1000)),
        flatcheck.Stream('async-queued', knobs_async, prepare=add_marker, nontrivial=nontrivial, oracle=async_oracle,
                         quick=(16, 40), thorough=(32, 400)),
        flatcheck.Stream('queued-classes', knobs_q_classes, monitor=monitor, prepare=add_marker, nontrivial=nontrivial,
                         run_factory=run_on_class, quick=(16, 100), thorough=(32, 800)),
    )
    rule = ('random callback programs: scripts in which callbacks at any stage trigger events on the same or other '
            'models (registered or not), call remove_model, or raise (Exception and BaseException), nested through '
            'the queue, on flat machines with 1-3 models, queued (judged by the verified abstract-queue monitor) '
            'and unqueued (model equality); non-trivial = at least one trigger issued from inside a callback')
    trusted = ('hand-written model lean/Model/Core.lean (Machine._process, remove_model) tied to /repo by trace equality',
               'abstract queue acceptor lean/Model/Spec/C05.lean',
               'visibility assumption: a distinguished first finalize_event callback marks completion of an event')

    def assumptions(self):
        return ['the theorem covers re-entrant trigger and remove_model commands; dispatch/may/add_model from '
                'callbacks are exercised by C10/C12 correspondence only',
                'unqueued immediacy is decided by model equality (the model nests by construction); hierarchical '
                'machines share Machine._process and are covered by the C02/C03 correspondence']


CHECK = C05()
