"""C13 — equivalent ways of building a machine yield equivalent machines."""
import copy
import hashlib
import json
import random

from .. import common, runner, build13, hsm13
from ..runner import Exploration, Failure



KNOWN_EMBED_AUTO_SIG = 'C13.nested.embed.nested-auto-transitions-copied'


def fingerprint(case):
    return hashlib.sha1(json.dumps([case['ops'], case['history'], case['opts']], sort_keys=True).encode()).hexdigest()[:16]


def variants_of(case):
    if 'variants' in case:          # corpus cases pin their scripts
        return case['variants']
    return [build13.derive(case, 0, identity=True)] + [build13.derive(case, s) for s in case['vseeds']]


def evaluate(cases):
    """Run every variant of every case on the real classes and through the Lean build; returns per case
    (variants, runs, intros, lean builds, lean equiv answers)."""
    reqs = []
    per = []
    for case in cases:
        vs = variants_of(case)
        runs = [build13.Run13(case, v).run() for v in vs]
        intros = [None if r.error else r.introspect() for r in runs]
        per.append((vs, runs, intros))
        for v in vs:
            reqs.append(('c13build', build13.enc_variant(case, v)))
        for i in range(1, len(vs)):
            if intros[0] is not None and intros[i] is not None:
                reqs.append(('c13equiv', build13.enc_intro_cfg(case, intros[0]) + build13.enc_intro_cfg(case, intros[i])))
    ans = common.batch_driver(reqs) if reqs else []
    out = []
    pos = 0
    for case, (vs, runs, intros) in zip(cases, per):
        builds = []
        for _ in vs:
            builds.append(ans[pos])
            pos += 1
        eq = {}
        for i in range(1, len(vs)):
            if intros[0] is not None and intros[i] is not None:
                eq[i] = ans[pos]
                pos += 1
        out.append((vs, runs, intros, builds, eq))
    return out


def judge(case, vs, runs, intros, builds, eq):
    fails = []

    def fail(kind, what, details, sig=None):
        fails.append(Failure(kind, what, case, details, signature=sig or ('C13.flat.' + what)))

    # correspondence: the Lean `build` of each script against the machine the real classes built from it
    for i, (v, r, intro, b) in enumerate(zip(vs, runs, intros, builds)):
        if b == 'bad-input':
            raise common.MachineryError('c13build rejected its input: %r' % (build13.enc_variant(case, v)[:60],))
        lean = build13.parse_build_answer(b)
        if (lean is None) != (intro is None):
            fail('correspondence', 'build_raises', {'variant': i, 'model_raises': lean is None, 'impl_error': r.error,
                                                    'script': v['steps']})
            continue
        if lean is None:
            continue
        for key in ('states', 'events', 'init'):
            # the key order of `Event.transitions` (a dict per source) is not part of `Cfg`
            if key == 'events':
                same = [(e, dict(p)) for e, p in lean[key]] == [(e, dict(p)) for e, p in intro[key]]
            else:
                same = lean[key] == intro[key]
            if not same:
                fail('correspondence', 'build_eq', {'variant': i, 'field': key, 'model': lean[key], 'impl': intro[key],
                                                    'script': v['steps']})
                break
    # the property: all scripts of one description give the same machine
    for i in range(1, len(vs)):
        sig = None
        a, b = runs[0], runs[i]
        if (a.error is None) != (b.error is None):
            fail('monitor', 'variant_raises', {'variant': i, 'errors': [a.error, b.error], 'scripts': [vs[0]['steps'], vs[i]['steps']]}, sig)
            continue
        if a.error is not None:
            continue
        na, nb = build13.normal_form(intros[0]), build13.normal_form(intros[i])
        if na != nb:
            diff = [k for k in na if na[k] != nb[k]]
            fail('monitor', 'variant_structure', {'variant': i, 'differs_in': diff, 'canonical': {k: na[k] for k in diff},
                                                  'variant_machine': {k: nb[k] for k in diff},
                                                  'scripts': [vs[0]['steps'], vs[i]['steps']]}, sig)
        elif eq.get(i) != 'ok':
            fail('monitor', 'verified_equiv', {'variant': i, 'answer': eq.get(i)}, sig)
        if a.items != b.items or a.final() != b.final():
            k = next((j for j, (x, y) in enumerate(zip(a.items, b.items)) if x != y), min(len(a.items), len(b.items)))
            fail('monitor', 'variant_trace', {
                'variant': i, 'first_difference_at': k,
                'canonical': [common.show_item(x) for x in a.items[max(0, k - 4):k + 3]],
                'variant_trace': [common.show_item(x) for x in b.items[max(0, k - 4):k + 3]],
                'scripts': [vs[0]['steps'], vs[i]['steps']]}, sig)
    for i, r in enumerate(runs):
        if r.bad:
            fail('monitor', 'arguments', {'variant': i, 'bad': r.bad[:5]})
    return fails


def nontrivial(case, vs, runs):
    if any(r.error for r in runs):
        return False
    distinct = len(set(json.dumps(v['steps'], sort_keys=True) for v in vs))
    executed = any(i[0] == 'ret' and i[2] == 1 for i in runs[0].items)
    return distinct >= 3 and executed


def step_stats(st, vs):
    h = st.setdefault('script_steps', {})
    reps = st.setdefault('representations', {})

    def bump(d, k):
        d[k] = d.get(k, 0) + 1
    for v in vs[1:]:
        for s in v['steps']:
            bump(h, s['k'])
            if s['k'] == 'ctor':
                for key in ('states', 'initial', 'transitions'):
                    if s[key] is not None:
                        bump(h, 'ctor.' + key)
                if s['model']:
                    bump(h, 'ctor.model')
            ts = [s['t']] if s['k'] == 'trans' else s.get('ts', []) if s['k'] == 'transs' else (s.get('transitions') or []) if s['k'] == 'ctor' else []
            for t in ts:
                bump(reps, 'transition.' + t['form'])
                bump(reps, 'source.' + t['src'][0])
                bump(reps, 'dest.' + t['dst'][0])
                for r in t['srcrep']:
                    bump(reps, 'name.' + r)
            for sp in (s.get('states') or []) if s['k'] in ('ctor', 'states') else []:
                bump(reps, 'state.' + sp['rep'] + ('+call' if s.get('call') else ''))
        for _c, r in v['cbrep']:
            bump(reps, 'callback.' + r)


def chunk(stream, seed, idx, n):
    rng = random.Random('C13/%s/%d/%d' % (stream, seed, idx))
    kn = STREAMS[stream]()
    cases = [build13.gen_case(rng, kn) for _ in range(n)]
    ex = Exploration()
    for case, (vs, runs, intros, builds, eq) in zip(cases, evaluate(cases)):
        ex.evaluations += 1
        ex.traces_validated += sum(1 for r in runs if not r.error)
        if nontrivial(case, vs, runs):
            ex.nontrivial.add(fingerprint(case))
            if len(ex.samples) < 1:
                ex.samples.append({'stream': stream, 'ops': case['ops'], 'variant_script': vs[1]['steps'][:6],
                                   'trace': [common.show_item(i) for i in runs[0].items[:25]]})
        step_stats(ex.stats, vs)
        o = ex.stats.setdefault('outcomes', {})
        for i in runs[0].items:
            if i[0] in ('ret', 'raised'):
                key = 'true' if (i[0] == 'ret' and i[2] == 1) else ('false' if i[0] == 'ret' else 'raised:' + common.EXC_NAMES[i[2]])
                o[key] = o.get(key, 0) + 1
        ex.stats['auto_transition_cases'] = ex.stats.get('auto_transition_cases', 0) + int(case['opts']['auto'])
        ex.stats['scripts_raising'] = ex.stats.get('scripts_raising', 0) + sum(1 for r in runs if r.error)
        for f in judge(case, vs, runs, intros, builds, eq):
            f.case = {'stream': stream, 'case': case}
            ex.failures.append(f)
    return ex


# ---------------------------------------------------------------------------------------------
# hierarchical machines (differential only)
# ---------------------------------------------------------------------------------------------

def hvariants_of(case):
    if 'variants' in case:
        return case['variants']
    return [hsm13.derive_h(case, 0, identity=True)] + [hsm13.derive_h(case, s) for s in case['vseeds']]


def hevaluate(case):
    vs = hvariants_of(case)
    runs = [hsm13.RunH(case, v).run() for v in vs]
    intros = [None if r.error else r.introspect() for r in runs]
    return vs, runs, intros


def hjudge(case, vs, runs, intros):
    fails = []

    def fail(what, details, sig=None):
        fails.append(Failure('monitor', what, case, details, signature=sig or ('C13.nested.' + what)))
    if runs[0].error:
        fail('canonical_raises', {'error': runs[0].error})
        return fails
    for i in range(1, len(vs)):
        a, b = runs[0], runs[i]
        if b.error:
            fail('variant_raises', {'variant': i, 'error': b.error, 'plan': vs[i]})
            continue
        sig = None
        if intros[0] != intros[i]:
            # open finding F-C13-embedded-nested-auto-transitions: an embedded machine with auto transitions and
            # nested states, and nothing differs but local to_<…> events
            if (hsm13.embeds_auto_machine_with_nested_states(case, vs[i])
                    and hsm13.strip_local_auto(intros[0]) == hsm13.strip_local_auto(intros[i])):
                sig = KNOWN_EMBED_AUTO_SIG
            fail('variant_structure', {'variant': i, 'canonical': intros[0], 'variant_machine': intros[i],
                                       'plan': vs[i]}, sig)
        if a.items != b.items or a.final() != b.final():
            k = next((j for j, (x, y) in enumerate(zip(a.items, b.items)) if x != y), min(len(a.items), len(b.items)))
            fail('variant_trace', {'variant': i, 'first_difference_at': k,
                                   'canonical': [common.show_item(x) for x in a.items[max(0, k - 4):k + 3]],
                                   'variant_trace': [common.show_item(x) for x in b.items[max(0, k - 4):k + 3]],
                                   'plan': vs[i]})
    for i, r in enumerate(runs):
        # (argument passing on hierarchical machines is C03's business: finalize callbacks of an event that no
        # state handles see `event_data.event is None`; only unexpected state values are reported here)
        odd = [x for x in r.bad if x[0] == 'odd-state']
        if odd:
            fail('state_value', {'variant': i, 'bad': odd[:5]})
    return fails


def hchunk(stream, seed, idx, n):
    rng = random.Random('C13/%s/%d/%d' % (stream, seed, idx))
    kn = STREAMS[stream]()
    ex = Exploration()
    for _ in range(n):
        case = hsm13.gen_hcase(rng, kn)
        vs, runs, intros = hevaluate(case)
        ex.evaluations += 1
        ex.traces_validated += sum(1 for r in runs if not r.error)
        distinct = len(set(json.dumps(v, sort_keys=True) for v in vs))
        if distinct >= 3 and not any(r.error for r in runs) and any(i[0] == 'ret' and i[2] == 1 for i in runs[0].items):
            ex.nontrivial.add(hashlib.sha1(json.dumps([case['top'], case['transitions'], case['history']],
                                                      sort_keys=True).encode()).hexdigest()[:16])
            if not ex.samples:
                ex.samples.append({'stream': stream, 'top': case['top'], 'plan': vs[1]['plan'][:6],
                                   'trace': [common.show_item(i) for i in runs[0].items[:20]]})
        h = ex.stats.setdefault('nested_forms', {})
        emb = set(n_['id'] for n_ in case['top'] if n_['embed'])
        for v in vs[1:]:
            if v.get('enum_tree'):
                h['tree:enum-classes'] = h.get('tree:enum-classes', 0) + 1
                for r in v['tnames']:
                    for x in r:
                        h['endpoint:' + x] = h.get('endpoint:' + x, 0) + 1
                continue
            for k_, p in v['plan']:
                keys = ['rep:' + p['rep'], 'key:' + p['key'], 'deferred' if p['defer_from'] is not None else 'inline']
                if k_ in emb:
                    keys.append('embed:' + p['embed'])
                for key in keys:
                    h[key] = h.get(key, 0) + 1
        ex.stats['embedded_machine_cases'] = ex.stats.get('embedded_machine_cases', 0) + int(
            any(n_['embed'] for n_ in case['top']))
        for f in hjudge(case, vs, runs, intros):
            f.case = {'stream': stream, 'case': case}
            ex.failures.append(f)
    return ex


# ---------------------------------------------------------------------------------------------
# joined names vs nested dict chains (Model/NestedNames.lean)
# ---------------------------------------------------------------------------------------------

def names_case(rng):
    setup = [[rng.randrange(3) for _ in range(rng.randint(1, 3))] for _ in range(rng.randint(0, 3))]
    return {'setup': setup, 'segs': [rng.randrange(4) for _ in range(rng.randint(1, 4))]}


def names_real(case, mode):
    """(registered paths before, outcome) of add_states(<joined name> | <dict chain>) on a real HierarchicalMachine"""
    from transitions.extensions.nesting import HierarchicalMachine
    m = HierarchicalMachine(model=None, initial=None, auto_transitions=False)
    for p in case['setup']:
        try:
            m.add_states('_'.join('n%d' % k for k in p))
        except ValueError:
            pass
    before = [[int(x[1:]) for x in n.split('_')] for n in m.get_nested_state_names()]
    segs = case['segs']
    if mode == 0:
        arg = '_'.join('n%d' % k for k in segs)
    else:
        arg = 'n%d' % segs[-1]
        for k in reversed(segs[:-1]):
            arg = {'name': 'n%d' % k, ('children' if k % 2 else 'states'): [arg]}
        if isinstance(arg, str):
            arg = {'name': arg}
    try:
        m.add_states(arg)
    except ValueError:
        return before, 'raises'
    after = sorted([int(x[1:]) for x in n.split('_')] for n in m.get_nested_state_names())
    return before, after


def names_judge(case):
    fails = []
    reqs, real = [], []
    for mode in (0, 1):
        before, out = names_real(case, mode)
        real.append((before, out))
        reqs.append(('c13names', [mode, 0] + [len(case['segs'])] + case['segs'] + [len(before)] +
                     sum(([len(p)] + p for p in before), [])))
    ans = common.batch_driver(reqs)
    for mode, ((before, out), a) in enumerate(zip(real, ans)):
        if a.startswith('ok '):
            nums = [int(x) for x in a[3:].split()]
            paths, pos = [], 1
            for _ in range(nums[0]):
                paths.append(nums[pos + 1:pos + 1 + nums[pos]])
                pos += 1 + nums[pos]
            model = sorted(paths)
        else:
            model = a
        # `replaces`: the dict form overwrote a registered state without raising (the model stops there)
        same = (out != 'raises' and case['segs'][:1] in before) if model == 'replaces' else model == out
        if mode == 1 and len(case['segs']) > 1 and model == 'replaces':
            same = out != 'raises'
        if not same:
            fails.append(Failure('correspondence', 'names_eq', case, {'mode': mode, 'model': model, 'impl': out,
                                                                      'registered': before}))
    fresh = not any(p[:1] == case['segs'][:1] for p in real[0][0])
    if fresh and real[0][1] != real[1][1]:
        fails.append(Failure('monitor', 'joined_vs_dict', case, {'joined': real[0][1], 'dict_chain': real[1][1],
                                                                 'registered': real[0][0]},
                             signature='C13.nested.joined_vs_dict'))
    return fails, fresh


def nchunk(stream, seed, idx, n):
    rng = random.Random('C13/%s/%d/%d' % (stream, seed, idx))
    ex = Exploration()
    for _ in range(n):
        case = names_case(rng)
        fs, fresh = names_judge(case)
        ex.evaluations += 1
        ex.traces_validated += 2
        if fresh and len(case['segs']) > 1:
            ex.nontrivial.add('names:' + json.dumps(case, sort_keys=True))
        ex.stats['names_fresh'] = ex.stats.get('names_fresh', 0) + int(fresh)
        for f in fs:
            f.case = {'stream': stream, 'case': case}
            ex.failures.append(f)
    return ex


def hshrink_steps(payload):
    case = payload['case']

    def mk(c):
        return {'stream': payload['stream'], 'case': c}
    for i in range(len(case['vseeds'])):
        if len(case['vseeds']) > 1:
            c = copy.deepcopy(case)
            del c['vseeds'][i]
            yield mk(c)
    for key in ('history', 'transitions', 'script'):
        for i in range(len(case[key])):
            if key != 'history' or len(case[key]) > 1:
                c = copy.deepcopy(case)
                del c[key][i]
                yield mk(c)
    for i, n in enumerate(case['top']):
        if n['id'] != case['initial'] and len(case['top']) > 1:
            c = copy.deepcopy(case)
            del c['top'][i]
            yield mk(c)
        if n['embed']:
            c = copy.deepcopy(case)
            c['top'][i]['embed'] = None
            yield mk(c)
            for key in ('local', 'exits'):
                for j in range(len(n['embed'][key])):
                    c = copy.deepcopy(case)
                    del c['top'][i]['embed'][key][j]
                    yield mk(c)
    for s in range(1, 6):
        c = copy.deepcopy(case)
        c['vseeds'] = [s]
        if c['vseeds'] != case['vseeds']:
            yield mk(c)


def rejudge(payload):
    if payload['stream'] == 'nested-names':
        return [], [], names_judge(payload['case'])[0]
    if payload['stream'].startswith('nested'):
        vs, runs, intros = hevaluate(payload['case'])
        return vs, runs, hjudge(payload['case'], vs, runs, intros)
    case = payload['case']
    (vs, runs, intros, builds, eq), = evaluate([case])
    return vs, runs, judge(case, vs, runs, intros, builds, eq)


def shrink_steps(payload):
    case = payload['case']

    def mk(c):
        return {'stream': payload['stream'], 'case': c}
    for i in range(len(case['vseeds'])):
        if len(case['vseeds']) > 1:
            c = copy.deepcopy(case)
            del c['vseeds'][i]
            yield mk(c)
    for i in range(len(case['history'])):
        if len(case['history']) > 1:
            c = copy.deepcopy(case)
            del c['history'][i]
            yield mk(c)
    for i in range(len(case['ops']) - 1, 1, -1):
        c = copy.deepcopy(case)
        del c['ops'][i]
        yield mk(c)
    for i in range(len(case['script'])):
        c = copy.deepcopy(case)
        del c['script'][i]
        yield mk(c)
    for i, op in enumerate(case['ops']):
        if op['op'] == 'trans':
            for k in build13.SLOT_KEYS:
                if op['cb'][k]:
                    c = copy.deepcopy(case)
                    c['ops'][i]['cb'][k] = []
                    yield mk(c)
    for key in ('prepare_event', 'before_sc', 'after_sc', 'finalize', 'on_exception', 'on_final'):
        if case['opts'][key]:
            c = copy.deepcopy(case)
            c['opts'][key] = []
            yield mk(c)
    # other variant seeds often give a much shorter failing script
    for s in range(1, 6):
        c = copy.deepcopy(case)
        c['vseeds'] = [s]
        if c['vseeds'] != case['vseeds']:
            yield mk(c)


def any_chunk(stream, seed, idx, n):
    if stream == 'nested-names':
        return nchunk(stream, seed, idx, n)
    return (hchunk if stream.startswith('nested') else chunk)(stream, seed, idx, n)


STREAMS = {
    'flat': lambda: build13.Knobs(),
    # the documented selectors of Machine.remove_transition (str, Enum or State) in remove detours
    'flat-remove-selectors': lambda: build13.Knobs(remove_reps=('enum', 'obj'), max_items=4),
    'nested': lambda: hsm13.HKnobs(),
    # add-then-remove detours on hierarchical machines
    'nested-remove': lambda: hsm13.HKnobs(detours=True, max_transitions=4),
    'nested-names': None,
    # state names repeated across levels; the tree as nested Enum classes; transitions by member or joined name
    'nested-enum': lambda: hsm13.HKnobs(enum=True, max_transitions=5),
}
BUDGET = {   # stream -> (quick: chunks, per chunk), (thorough: chunks, per chunk)
    'flat': ((16, 200), (64, 600)),
    'flat-remove-selectors': ((4, 15), (8, 60)),
    'nested': ((16, 80), (64, 250)),
    'nested-remove': ((4, 15), (8, 60)),
    'nested-names': ((4, 40), (8, 200)),
    'nested-enum': ((8, 40), (32, 150)),
}


class C13(runner.Check):
    prop = 'C13'
    level = 'proof'
    manifest = dict(
        level='proof', design='DESIGN.md 4/C13; design_notes/C13.md',
        text="Lean 4 theorems about Model/Build.lean (add_states, add_transition, add_ordered_transitions, "
             "remove_transition, initial setter written after core.py): wildcard / '=' / source-list / ordered-helper "
             "shorthands equal their expansion over the states existing at that time, any split of a batch gives the "
             "same machine, removing transitions (any selector representation, earlier removals allowed) equals "
             "never having added them, and equivalent configurations "
             "(same states, same ordered candidate list per event and source) run identically on every history and "
             "script. Tied to /repo by building every generated construction script on the real Machine and "
             "comparing the introspected result with Build.build; the property itself is judged on the "
             "implementation by pairwise comparison (structure via a verified checker, recorder traces) of k "
             "scripts realising one description.",
        note="Trusted: Lean kernel, hand-written Model/Build.lean + Model/Core.lean, harness/build13.py variant "
             "generator and introspection. Representation choices (str/dict/State/Enum, list/dict transitions, "
             "callbacks by name/reference/import path/property) and hierarchical machines (children/states key, "
             "embedded machine with remap, nested remove_transition) are covered by the differential only; joined "
             "names vs nested dict chains have a small Lean model (Model/NestedNames.lean) and theorem.",
        technique="Lean 4 proof (rewrite algebra of construction scripts + behavioural congruence) + differential "
                  "correspondence + verified equivalence checker on implementation structures")
    theorems = ('TM.C13_wildcard_expand', 'TM.C13_source_list_expand', 'TM.C13_source_list_split',
                'TM.C13_same_expand', 'TM.C13_ordered_eq_ring', 'TM.C13_batching', 'TM.C13_batching_states',
                'TM.C13_ctor_eq_later_adds', 'TM.C13_remove_as_never_added', 'TM.C13_equiv_behaviour',
                'TM.C13_equiv_behaviour_init', 'TM.C13_equivCheck_sound',
                'TM.C13_joined_names_eq_nested_dict', 'TM.C13_joined_name_existing_parent')
    rule = ('random abstract constructions (2-5 states arriving in 1-3 phases, 1-3 events, <=7 transition items with '
            "'*' / list / single sources, '=' / internal / named destinations, ordered helper with loop options and "
            'per-edge arguments, auto transitions on/off, callbacks in every slot) x 4 construction scripts each '
            '(canonical + 3 random rewrites: representation per state/name/callback, constructor vs add_* calls, '
            'batching, shorthand expansion, add-then-remove detours) x histories of 2-10 triggers with scripted '
            'condition outcomes; plus hierarchical descriptions (2-4 top states, depth <=3, compounds with local '
            'transitions and exits) x 4 scripts (children/states key, NestedState objects, bare names, joined names '
            'created later, embedded machine with remap vs explicit form; the machine-level family "every nested state -> itself" spelled out / '
            "as add_transition(ev, '*', '=') / with the shorthand on a subclass that renames wildcard_all and wildcard_same); non-trivial = at least 3 distinct scripts "
            'and an executed transition; distinct = different (ops or tree, history, options)')
    trusted = ('hand-written model lean/Model/Build.lean tied to /repo by structural equality on every generated script',
               'harness/build13.py: variant generator (its expansions are re-checked by the model and the real classes), '
               'introspection of Machine.states / events[*].transitions, recorders')

    def explore(self, tier, seed):
        payloads = []
        for s, (q, t) in BUDGET.items():
            nch, per = q if tier == 'quick' else t
            payloads += [(s, seed, i, per) for i in range(nch)]
        ex = self.run_corpus()
        for part in runner.parallel(any_chunk, payloads):
            ex.merge(part)
        # shrink what will be reported: the first property failure that is not a listed finding, and the
        # first correspondence failure
        known = set(k.get('signature') for k in self.known())
        for pick in (lambda f: f.kind == 'monitor' and f.signature not in known, lambda f: f.kind != 'monitor'):
            cands = [f for f in ex.failures if pick(f)]
            if cands:
                first = cands[0]
                ex.failures.remove(first)
                ex.failures.insert(0, first)
                self.shrink_failure(first)
        return ex

    def run_corpus(self):
        """corpus/C13/*.json: past witnesses with pinned scripts; run first, every one must pass"""
        import glob
        import os
        ex = Exploration()
        for path in sorted(glob.glob(os.path.join(common.CORPUS, 'C13', '*.json'))):
            with open(path) as fh:
                payload = json.load(fh)
            vs, runs, fs = rejudge(payload)
            ex.evaluations += 1
            ex.traces_validated += sum(1 for r in runs if not r.error)
            ex.stats['corpus_cases'] = ex.stats.get('corpus_cases', 0) + 1
            for f in fs:
                f.what = 'corpus:%s:%s' % (os.path.basename(path), f.what)
                f.case = payload
                ex.failures.append(f)
        return ex

    def shrink_failure(self, f):
        if 'variants' in f.case['case']:
            return                      # pinned corpus case: already minimal
        def fails(payload):
            return any(x.kind == f.kind and x.what == f.what and x.signature == f.signature for x in rejudge(payload)[2])
        if f.case['stream'] == 'nested-names':
            return
        steps = hshrink_steps if f.case['stream'].startswith('nested') else shrink_steps
        f.case = runner.shrink(f.case, fails, steps, budget=120)
        for x in rejudge(f.case)[2]:
            if x.kind == f.kind and x.what == f.what:
                f.details = x.details
                break

    def search(self, tier, seed, failures):
        found = []
        payloads = [('flat', seed + 7919, i, 150) for i in range(24)] + [('nested', seed + 7919, i, 100) for i in range(8)]
        for part in runner.parallel(any_chunk, payloads):
            found += [f for f in part.failures if f.kind == 'monitor']
        for f in found[:1]:
            self.shrink_failure(f)
        return found

    def replay(self, path):
        with open(path) as fh:
            payload = json.load(fh)
        if 'case' not in payload:
            print('no concrete input in this replay file: broken obligation', payload.get('broken_obligation'))
            return 1
        vs, runs, fs = rejudge(payload['case'])
        nested = payload['case']['stream'].startswith('nested')
        if nested:
            print('state tree:', json.dumps(payload['case']['case']['top']))
            print('global transitions:', json.dumps(payload['case']['case']['transitions']))
        for i, (v, r) in enumerate(zip(vs, runs)):
            print('--- script %d%s' % (i, ' (canonical)' if i == 0 else ''))
            if nested:
                print('    plan:', json.dumps(v, sort_keys=True))
            else:
                for st in v['steps']:
                    print('   ', json.dumps(st, sort_keys=True))
            if r.error:
                print('    raises', r.error)
            else:
                intro = r.introspect()
                print('    machine:', json.dumps(intro if nested else build13.normal_form(intro), sort_keys=True, default=str))
                print('    trace:', '; '.join(common.show_item(x) for x in r.items))
        for f in fs:
            print('FAIL', f.kind, f.what, json.dumps(f.details, default=str)[:600])
        return 1 if fs else 0

    def assumptions(self):
        return [
            'equivalence is `Build.Equiv`: the key order of machine.events (hence the order of get_triggers) and the '
            'raw per-state ignore_invalid_triggers (None vs the inherited machine value) are not compared; '
            'machine.ignore_invalid_triggers is not mutated after construction',
            'shorthand theorems assume a non-empty expanded source list (a wildcard over zero states still creates '
            'the empty event); the removal theorem excludes an earlier remove_transition on the same event and '
            'identifies an event without transitions with a non-existent one',
            'state lists passed to add_ordered_transitions are names (its docstring); with Enum members the rotation '
            'to the initial state does not happen, which is not counted',
            'one model per machine; callbacks by reference are bound to it; a condition given as a property receives '
            'no arguments, the recorder takes the tag of the API call in progress (scripts issue no re-entrant calls)',
            'representation choices and hierarchical machines are decided by the differential only; nested stream: '
            'auto_transitions off, no parallel states, nested Enums only in the nested-enum stream (whole tree as Enum classes, no embedded machine there), children deferred to joined names only as a '
            'suffix of their siblings (sibling order kept), argument passing on nested machines is left to C03',
            'detour transitions point to a state that is never registered and are removed before any event is triggered',
        ]


CHECK = C13()
