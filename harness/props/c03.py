"""C03 — HSM: event dispatch and transition resolution follow hierarchical semantics.

Same generator and runner as C02 (trace equality with the Lean model on HierarchicalMachine; the other five
hierarchical classes through the sync/async-agnostic runner), every trace judged by the Lean monitor `C03.check`:
P1 precedence / P2 liveness of the source / P3 innermost-first + completeness / P4 effect / P5 result.
Thorough tier adds small-scope enumeration: EVERY tree with <= 4 states x one transition (9 848 cases), and trees
with <= 5 states that contain a parallel state x two transitions for one event (global / local placements) x the four
condition valuations (every 43-rd combination, the offset rotating with the seed)."""
from .. import nested, nestedcheck
from ..nestedcheck import NStream


def knobs():
    return nested.NKnobs(max_trans=5, p_cond_false=0.4, p_suspend=0.25)


def knobs_models():
    # several models on one machine, some of them falsy (always, or during every other call of theirs)
    return nested.NKnobs(max_models=3, p_falsy=0.6, max_states=9, max_history=12, p_suspend=0.2, p_mops=0.6)


def knobs_enum():
    # Enum states: one Enum class per sibling group; segment names are re-used on different levels so that
    # two classes share member names; the machine's initial state is a root state
    return nested.NKnobs(p_collide=0.35, p_deep_initial=0.0, max_states=9)


def knobs_global():
    return nested.NKnobs(p_local=0.0, p_collide=0.0, max_trans=5, p_queued=0.1)


def knobs_small():
    return nested.NKnobs(max_states=6, max_depth=3, max_branch=3, max_history=8, p_queued=0.1)


def enum_single(idx, nchunks, limit, seed):
    return nestedcheck.enum_single(4, idx, nchunks, limit)


def enum_pairs(idx, nchunks, limit, seed):
    # every 43-rd combination, the offset rotating with the seed
    return nestedcheck.enum_pairs(5, idx, nchunks, limit, 43, seed % 43)


class C03(nestedcheck.NestedCheck):
    prop = 'C03'
    level = 'proof'
    monitor_kind = 'c03m'
    streams = (
        NStream('random', knobs=knobs, quick=(16, 60), thorough=(48, 250)),
        NStream('multi-model', knobs=knobs_models, quick=(8, 40), thorough=(16, 150)),
        NStream('enum-states', knobs=knobs_enum, quick=(8, 40), thorough=(16, 150), enum_states=True,
                pool=('LockedHierarchicalMachine', 'HierarchicalAsyncMachine')),   # the Mermaid graph classes reject Enum children
        NStream('global-only', knobs=knobs_global, quick=(8, 60), thorough=(24, 250)),
        NStream('random-small', knobs=knobs_small, quick=(8, 50), thorough=(24, 200)),
        NStream('exhaustive-single<=4', enum=enum_single, thorough=(32, 400), others=1, tiers=('thorough',)),
        NStream('pairs<=5', enum=enum_pairs, thorough=(64, 420), others=1, tiers=('thorough',)),
    )
    theorems = ('TM.C03_P4_exits', 'TM.C03_P4_enters', 'TM.C03_P1_pass', 'TM.C03_P1', 'TM.C03_dispatch_global_only', 'TM.C03_P2', 'TM.C03_P3_pass', 'TM.C03_P3_complete_pass', 'TM.C03_P5_pass_result', 'TM.C03_P5', 'TM.C03_P5_unhandled_flat', 'TM.C03_exec_le_one_of_chain', 'TM.C03_regression_redispatch', 'TM.C03_regression_result_overwritten', 'TM.C03_regression_stale_source', 'TM.C03_regression_reentered_source', 'TM.C03_regression_nested_lists', 'TM.C03_regression_local_effect', 'TM.C03_counterexample_suppressed_region', 'TM.C03_counterexample_pass_order', 'TM.C03_counterexample_related_passes', 'TM.C03_counterexample_entered_during_event', 'TM.C03_full_counterexample')
    rule = ('a case = (state tree, placement of transitions, condition valuation, history); non-trivial iff at least '
            'one transition with a state change executed on HierarchicalMachine; distinct by the hash of the encoded case')
    trusted = (
        'hand-written Lean model of nesting.py (Model/Tree, Nested, NestedDispatch), tied to the code by trace equality',
        'projection of recorder calls to enter/exit/offer/execute events (C02.project in Lean; first recorder of every '
        'state / transition is unique)',
        'harness: generator, runner on the six hierarchical classes (asyncio.run_until_complete per call)',
    )
    manifest = dict(
        level='proof', design='DESIGN.md 4/C03 + design_notes/C03.md',
        technique='Lean 4 proof (executable model of hierarchical dispatch, predicates P1-P5 as decidable checkers) + '
                  'differential correspondence with the real classes + verified monitors on implementation traces',
        text='Lean 4 proofs on a model that follows the repaired nesting.py: P4 (exit set / enter set exactly as the statement prescribes) for EVERY transition, declared on the machine or inside a state, on every admissible configuration; for machines whose transitions are all declared on the machine: P1 (executed sources form an antichain), P2 both halves (source active when the event began, not exited since), P3 per pass (innermost first, nothing after an execution, completeness), P5 (True iff some transition executed; else False / MachineError / AttributeError by the flattened state value). P1-P5 are decidable checkers run as monitors on the traces of all six hierarchical classes (string and Enum states). The full statement is refuted for events declared inside state definitions, which are dispatched in separate passes per scope (four decide witnesses, replayed on the real classes, five open findings); the six defects closed by the adopted fixes are regression theorems and regression corpus cases.',
        note="partial where findings remain open: all open findings require an ACTIVE state that declares the event in its own definition (signatures '...@local'); the pass theorems are stated on projections of the ghost segment (sOffers, execSources), not on the monitor's internal offer list; P5 is judged on unqueued machines only; model hand-written, tied by correspondence.")

    def assumptions(self):
        return (
            'P5 (result) is judged on unqueued machines only: a queued trigger returns True before processing',
            'callbacks do not raise and do not trigger events on unqueued machines; no on_exception handlers',
            'the order in which sibling regions are offered is not constrained (the statement says "in whichever '
            'region and order")',
        )


CHECK = C03()
