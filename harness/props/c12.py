"""C12 — may_<event> predicts the trigger and has no side effects.

Streams
  * flat-model   histories mixing triggers and may_ calls (also from callbacks; raising callbacks, handlers,
                 unregistered destinations, unknown names) on `Machine`: equality with the Lean engine model
                 (`canTrigger`/`mayLoop`, for which C12_flat / C12_pure / routing theorems are proved);
  * predict      deterministic, non-raising descriptions on flat AND nested/parallel configurations, sync and async
                 classes: at EVERY prefix of the history, for every model and every event name (known and unknown),
                 `may_` on one run is compared with the real trigger on an identically prepared twin run;
                 plus purity of the may_ segment (slots, arguments, no state change of any model);
  * routing      raising prepare/condition callbacks with and without on_exception handlers on all those classes:
                 raised without handlers, handled (normal return, every handler called) with them.
  * nested-model (harness/nestedmay.py) generated hierarchical machines (compound / parallel states, local and global
                 transitions, transitions on ancestors, unresolvable destinations, raising prepare / condition callbacks
                 with and without on_exception, unknown event names, histories mixing triggers and may_ calls, also
                 re-entrant from callbacks): implementation trace == trace of the Lean model of
                 `HierarchicalMachine._can_trigger` / `_can_trigger_nested` (`Model/NestedMay.lean`, for which
                 C12_nested / C12_nested_pure / C12_nested_baddest / the routing theorems are proved), on
                 HierarchicalMachine and (single-callback stages) HierarchicalAsyncMachine; purity oracle on every
                 implementation trace; may-vs-trigger twin oracle on the deterministic descriptions.
"""
import asyncio
import inspect
import random

from .. import common, flat, flatcheck, runner, aflat, anested, nestedmay
from ..common import SLOT
from ..flat import TRIGGER, MAY, ename
from ..runner import Exploration, Failure

MAY_SLOTS = (SLOT['prepare_event'], SLOT['prepare'], SLOT['conditions'], SLOT['unless'], SLOT['on_exception'])

EXEC_SLOTS = (SLOT['before_state_change'], SLOT['before'], SLOT['on_exit'], SLOT['on_enter'], SLOT['on_final'],
              SLOT['after'], SLOT['after_state_change'])

REENTRANT_SLOTS = (SLOT['prepare'], SLOT['before'], SLOT['on_exit'], SLOT['on_enter'], SLOT['after'],
                   SLOT['after_state_change'], SLOT['before_state_change'])

SETUPS = [  # (name, class, nested, async)
    ('Machine', 'Machine', False, False), ('LockedMachine', 'LockedMachine', False, False),
    ('AsyncMachine', 'AsyncMachine', False, True),
    ('HierarchicalMachine', 'HierarchicalMachine', True, False),
    ('LockedHierarchicalMachine', 'LockedHierarchicalMachine', True, False),
    ('HierarchicalAsyncMachine', 'HierarchicalAsyncMachine', True, True),
    ('flat-on-HierarchicalMachine', 'HierarchicalMachine', False, False),
    ('flat-on-HierarchicalAsyncMachine', 'HierarchicalAsyncMachine', False, True),
]


def get_cls(name):
    import transitions
    import transitions.extensions as ext
    return transitions.Machine if name == 'Machine' else getattr(ext, name)


class MayMixin(object):
    def begin(self, model, slot, cid, args, kwargs):
        """order-sensitive conditions (`d.order_sensitive`): their outcome is inverted when the last prepare-stage
        callback started on behalf of the model was a machine-level `prepare_event` one. They are generated only on
        transitions that carry `prepare` callbacks of their own, so in the trigger AND in may_ the transition's own
        prepare callbacks come last — unless one of the two evaluates the prepare stage in another order."""
        cmds, out = super(MayMixin, self).begin(model, slot, cid, args, kwargs)
        last = self.__dict__.setdefault('last_prep', {})
        if slot in (SLOT['prepare_event'], SLOT['prepare']):
            last[model._mid] = slot
        elif cid in getattr(self.d, 'order_sensitive', ()) and out[0] == 'ret' \
                and last.get(model._mid) == SLOT['prepare_event']:
            out = ('ret', not out[1])
        # conditions that need what the machine-level prepare_event callbacks provide (`d.pe_sensitive`, only on machines
        # that HAVE such callbacks): inverted when none of them has run on behalf of this call
        seen = self.__dict__.setdefault('pe_seen', set())
        tag = self.items[-1][4] if self.items and self.items[-1][0] == 'call' else None
        if slot == SLOT['prepare_event']:
            seen.add((model._mid, tag))
        elif cid in getattr(self.d, 'pe_sensitive', ()) and out[0] == 'ret' and (model._mid, tag) not in seen:
            out = ('ret', not out[1])
        return cmds, out

    async def ado_cmd(self, c):
        kind, a, b = c
        if kind != MAY:
            return await aflat.Run7.ado_cmd(self, c)
        mo = self.model_objs[a]
        tag = self.next_tag
        self.next_tag += 1
        self.items.append(('api', kind, tag, a, b))
        self.tag_event[tag] = ename(b)
        try:
            if hasattr(mo, 'may_' + ename(b)) and (tag % 2 == 0):
                r = getattr(mo, 'may_' + ename(b))(tag, m=a)
            else:
                r = mo.may_trigger(ename(b), tag, m=a)
            if inspect.isawaitable(r):
                r = await r
        except BaseException as e:      # noqa
            if isinstance(e, common.MachineryError):
                raise
            self.items.append(('raised', tag) + flat.canon_exc(e))
            raise
        self.items.append(('ret', tag, int(bool(r))))
        return r


class FRun(MayMixin, aflat.Run7):
    pass


class NRun(MayMixin, anested.NRun7):
    pass


def make_run(d, setup):
    _n, clsname, nested, is_async = setup
    cls = get_cls(clsname)
    return (NRun if nested else FRun)(d, cls, is_async)


def prep(d, nested, rng):
    d.model_attr = 'state'
    d.qmode = 0
    d.queued = False
    d.kinds = {}
    d.const = {}
    if nested:
        anested.impose_tree(d, rng)
    return d


def knobs_predict():
    return flat.Knobs(max_models=2, p_unknown_event=0.0, max_history=5, deterministic=True, max_states=5, max_events=3,
                      p_cond_false=0.45, p_share_cb=0.0)


def knobs_routing():
    return flat.Knobs(max_models=1, p_unknown_event=0.0, max_history=4, p_raise=0.12, p_on_exception=0.5, max_states=4,
                      hist_kinds=(MAY, MAY, TRIGGER))


def knobs_flat_model():
    return flat.Knobs(max_models=2, p_unknown_event=0.1, max_history=8, p_raise=0.06, p_on_exception=0.4,
                      p_cmds=0.15, cmd_kinds=(MAY, MAY, TRIGGER), hist_kinds=(MAY, MAY, TRIGGER), p_bad_dest=0.1)


def with_history(d, hist):
    j = aflat.to_json(d) if not getattr(d, 'nested', False) else anested.to_json(d)
    d2 = (anested.from_json if getattr(d, 'nested', False) else aflat.from_json)(j)
    for s_new, s_old in zip(d2.states, d.states):
        for k in ('parent', 'children', 'parallel', 'init_child'):
            if k in s_old:
                s_new[k] = s_old[k]
    d2.history = list(hist)
    d2.order_sensitive = getattr(d, 'order_sensitive', ())
    d2.pe_sensitive = getattr(d, 'pe_sensitive', ())
    d2.embed = getattr(d, 'embed', ())
    if hasattr(d, 'sep'):
        d2.sep = d.sep
    return d2


def baddest_case(case):
    """'transitions whose destination is not a registered state count as impossible': from the initial state,
    may_ must equal "some candidate with a registered (or no) destination passes its conditions" — computed from
    the description — and must not raise"""
    d = case['_d']
    setup = case['_setup']
    out = []
    names = set(st['name'] for st in d.states)
    n = trues = 0
    for ev, ts in d.events:
        m = d.models[0]
        expected = False
        for t in ts:
            if t['source'] != d.initial or not (t['dest'] is None or t['dest'] in names):
                continue
            if all(bool(d.script.get((c, 0), ((), ('ret', True)))[1][1]) == bool(tg) for c, tg in t['conds']):
                expected = True
                break
        r = make_run(with_history(d, [(MAY, m, ev)]), setup).run()
        o = last_outcome(r.items)
        n += 1
        trues += int(expected)
        got = (o[0] == 'ret' and o[2] == 1)
        if o[0] == 'raised' or got != expected:
            out.append(('may-wrong-with-unregistered-destinations',
                        {'setup': setup[0], 'event': ev, 'expected': expected, 'may': common.show_item(o),
                         'candidates': [(t['dest'], t['dest'] is None or t['dest'] in names) for t in ts
                                        if t['source'] == d.initial]}, 'C12.baddest:' + setup[0]))
            break
    # destinations registered LATER: an evaluation made while a destination was unknown must not be remembered —
    # once add_states has registered it the candidate counts like any other (and an earlier may_ leaves nothing behind)
    missing = sorted(set(t['dest'] for _ev, ts in d.events for t in ts if t['dest'] is not None and t['dest'] not in names))
    if missing and not out:
        m = d.models[0]
        r = make_run(with_history(d, [(MAY, m, ev) for ev, _ts in d.events]), setup)
        r.run()
        r.machine.add_states([flat.sname(x) for x in missing])
        for ev, ts in d.events:
            expected = False
            for t in ts:
                if t['source'] != d.initial:
                    continue
                if all(bool(d.script.get((c, 0), ((), ('ret', True)))[1][1]) == bool(tg) for c, tg in t['conds']):
                    expected = True
                    break
            r.d.history = [(MAY, m, ev)]
            r.run()
            o = last_outcome(r.items)
            n += 1
            trues += int(expected)
            got = (o[0] == 'ret' and o[2] == 1)
            if o[0] == 'raised' or got != expected:
                out.append(('may-wrong-after-the-destination-was-registered',
                            {'setup': setup[0], 'event': ev, 'expected': expected, 'may': common.show_item(o),
                             'registered_late': missing}, 'C12.baddest:' + setup[0]))
                break
    return out, n, trues


def last_outcome(items):
    for it in reversed(items):
        if it[0] in ('ret', 'raised'):
            return it
    return None


def may_segment(items):
    """items of the LAST api call (a top-level may_)"""
    idx = max(i for i, it in enumerate(items) if it[0] == 'api')
    return items[idx:]


def strip_api_call(items, pos):
    """the trace without the pos-th api call (all its items) and with the later call tags moved down by one"""
    apis = [it for it in items if it[0] == 'api']
    tag = apis[pos][2]
    at = {'api': 2, 'ret': 1, 'raised': 1, 'call': 4}
    out, skipping = [], False
    for it in items:
        if it[0] == 'api' and it[2] == tag:
            skipping = True
            continue
        if skipping:
            if it[0] in ('ret', 'raised') and it[1] == tag:
                skipping = False
            continue
        it = list(it)
        k = at.get(it[0])
        if k is not None and isinstance(it[k], int) and it[k] > tag:
            it[k] -= 1
        out.append(tuple(it))
    return out


def predict_case(case):
    """returns (failures, n_checks, n_true)"""
    d = case['_d']
    setup = case['_setup']
    out = []
    checks = trues = 0
    full0 = None
    evs = [e for e, _ in d.events] + [len(d.events) + 3]
    for i in range(len(d.history) + 1):
        prefix = d.history[:i]
        for m in d.models:
            for ev in evs:
                ra = make_run(with_history(d, prefix + [(MAY, m, ev)]), setup).run()
                rb = make_run(with_history(d, prefix + [(TRIGGER, m, ev)]), setup).run()
                checks += 1
                oa, ob = last_outcome(ra.items), last_outcome(rb.items)
                may_val = (oa[0] == 'ret' and oa[2] == 1)
                # "would execute a transition": the trigger got past the conditions of some candidate, i.e. a
                # transition-stage callback ran or it returned True (an engine failure AFTER that point — C03/C18's
                # business — does not make the prediction wrong)
                tseg = may_segment(rb.items)
                executed = (ob[0] == 'ret' and ob[2] == 1) or any(
                    it[0] == 'call' and it[1] in EXEC_SLOTS for it in tseg)
                trues += int(may_val)
                info = {'setup': setup[0], 'prefix_len': i, 'model': m, 'event': ev,
                        'may': common.show_item(oa), 'trigger': common.show_item(ob)}
                if oa[0] == 'raised':
                    out.append(('may-raised-without-a-raising-callback', info, 'C12.predict:' + setup[0]))
                elif may_val != executed:
                    out.append(('may-differs-from-trigger', info, 'C12.predict:' + setup[0]))
                # purity
                seg = may_segment(ra.items)
                badslot = [common.show_item(it) for it in seg if it[0] == 'call' and it[1] not in MAY_SLOTS]
                if badslot:
                    out.append(('may-ran-a-forbidden-callback', dict(info, calls=badslot[:4]), 'C12.pure:' + setup[0]))
                if ra.bad:
                    out.append(('may-arguments-not-passed', dict(info, bad=ra.bad[:3]), 'C12.args:' + setup[0]))
                rp = make_run(with_history(d, prefix), setup).run()
                if rp.final() != ra.final():
                    out.append(('may-changed-a-state', dict(info, before=str(rp.final()), after=str(ra.final())),
                                'C12.pure:' + setup[0]))
                # no side effect that shows LATER: the rest of the history behaves as if the may_ had not been issued
                if i < len(d.history):
                    if full0 is None:
                        full0 = make_run(with_history(d, d.history), setup).run()
                    rl = make_run(with_history(d, prefix + [(MAY, m, ev)] + d.history[i:]), setup).run()
                    got, want = strip_api_call(rl.items, i), [tuple(it) for it in full0.items]
                    if got != want or rl.final() != full0.final():
                        k = next((j for j, (x, y) in enumerate(zip(got, want)) if x != y), min(len(got), len(want)))
                        out.append(('may-changed-later-behaviour',
                                    dict(info, first_difference=k,
                                         with_may=[common.show_item(x) for x in got[k:k + 3]],
                                         without=[common.show_item(x) for x in want[k:k + 3]]),
                                    'C12.pure:' + setup[0]))
                if out:
                    return out, checks, trues
    # re-entrant calls: may_ / trigger issued from INSIDE a callback of the running event (the machine may be scoped
    # into a nested state at that moment)
    full = make_run(with_history(d, d.history), setup).run()
    seen, order = {}, []
    for it in full.items:
        if it[0] == 'call':
            k = seen.get(it[2], 0)
            seen[it[2]] = k + 1
            if it[1] in REENTRANT_SLOTS:
                order.append((it[2], k, it[3]))
    rng = random.Random(case['sub'] ^ 0x5A5A)
    rng.shuffle(order)
    for cid, k, m in order[:3]:
        ev = rng.choice(evs[:-1])
        res = {}
        for kind in (MAY, TRIGGER):
            dv = with_history(d, d.history)
            cmds, outv = dv.script.get((cid, k), ((), ('ret', True)))
            dv.script[(cid, k)] = (tuple(cmds) + ((kind, m, ev),), outv)
            dv.kinds[cid] = 1
            rv = make_run(dv, setup).run()
            # the re-entrant call is the api item of that kind issued while callback `cid` (k-th invocation) runs
            cnt, inside, seg = {}, False, None
            for idx, it in enumerate(rv.items):
                if it[0] == 'call' and it[2] == cid:
                    kk = cnt.get(cid, 0)
                    cnt[cid] = kk + 1
                    inside = (kk == k)
                elif it[0] == 'api' and inside and it[1] == kind and it[3] == m and it[4] == ev:
                    tag = it[2]
                    seg = []
                    for jt in rv.items[idx:]:
                        seg.append(jt)
                        if jt[0] in ('ret', 'raised') and jt[1] == tag:
                            break
                    break
            res[kind] = seg
        if not res[MAY] or not res[TRIGGER]:
            continue
        oa, ob = res[MAY][-1], res[TRIGGER][-1]
        if ob[0] == 'raised' and ob[2] == 2 and oa[0] == 'ret':
            # the re-entrant TRIGGER itself failed inside the engine with ValueError (e.g. a hierarchical machine
            # resolving the model's state while scoped into the state whose callback is running) before evaluating
            # anything: an engine limitation that C02/C05 judge; it says nothing about the prediction
            continue
        checks += 1
        may_val = (oa[0] == 'ret' and oa[2] == 1)
        executed = (ob[0] == 'ret' and ob[2] == 1) or any(it[0] == 'call' and it[1] in EXEC_SLOTS and it[4] == ob[1]
                                                          for it in res[TRIGGER])
        trues += int(may_val)
        info = {'setup': setup[0], 'reentrant_from_callback': cid, 'invocation': k, 'model': m, 'event': ev,
                'may': common.show_item(oa), 'trigger': common.show_item(ob)}
        if oa[0] == 'raised':
            out.append(('reentrant-may-raised-without-a-raising-callback', info, 'C12.predict:' + setup[0]))
        elif may_val != executed:
            out.append(('reentrant-may-differs-from-trigger', info, 'C12.predict:' + setup[0]))
        if out:
            return out, checks, trues
    return out, checks, trues


def routing_case(case):
    d = case['_d']
    setup = case['_setup']
    out = []
    r = make_run(d, setup).run()
    handlers = list(d.on_exception)
    # walk top-level may_ calls
    items = r.items
    i = 0
    n = 0
    while i < len(items):
        it = items[i]
        if it[0] == 'api' and it[1] == MAY:
            tag = it[2]
            j = i + 1
            seg = []
            while j < len(items) and not (items[j][0] in ('ret', 'raised') and items[j][1] == tag):
                seg.append(items[j])
                j += 1
            outcome = items[j] if j < len(items) else None
            raises = [s for s in seg if s[0] == 'done' and s[2] == 1]
            hcalls = [s for s in seg if s[0] == 'call' and s[1] == SLOT['on_exception']]
            hraise = [s for s in raises if s[1] in handlers]
            eval_raises = [s for s in raises if s[1] not in handlers]
            info = {'setup': setup[0], 'segment': [common.show_item(s) for s in seg[:30]],
                    'outcome': common.show_item(outcome) if outcome else None}
            n += 1
            if outcome is None:
                out.append(('may-call-without-outcome', info, 'C12.routing:' + setup[0]))
            elif eval_raises and not handlers and outcome[0] != 'raised':
                out.append(('exception-swallowed-without-handlers', info, 'C12.routing:' + setup[0]))
            elif eval_raises and handlers and not hraise:
                if outcome[0] == 'raised':
                    out.append(('exception-escaped-although-handlers-registered', info, 'C12.routing:' + setup[0]))
                elif len(hcalls) < len(handlers) or any(sum(1 for s in hcalls if s[2] == h) == 0 for h in handlers):
                    out.append(('handler-not-called', info, 'C12.routing:' + setup[0]))
            elif not eval_raises and outcome[0] == 'raised' and not hraise:
                out.append(('may-raised-without-a-raising-callback', info, 'C12.routing:' + setup[0]))
            badslot = [common.show_item(s) for s in seg if s[0] == 'call' and s[1] not in MAY_SLOTS]
            if badslot:
                out.append(('may-ran-a-forbidden-callback', dict(info, calls=badslot[:4]), 'C12.pure:' + setup[0]))
            i = j
        i += 1
    return out, n, len([1 for it in items if it[0] == 'done' and it[2] == 1])


def parallel_desc(rng):
    """a machine that starts in a parallel state with two compound regions; every event is declared on a random
    subset of leaves / regions / the parallel state with deterministic conditions — the configurations in which the
    four copies of `_can_trigger` have to look at EVERY region and at inherited transitions"""
    d = flat.FlatDesc()
    nxt = [0]

    def cb(slot):
        c = nxt[0]
        nxt[0] += 1
        d.cb_slot[c] = slot
        return c
    # 0 P (parallel) | regions 1 and 2, each a leaf, a compound (two leaves) or a compound whose first child is a
    # compound again: regions of DIFFERENT depth are the interesting case (a shorter path need not be an ancestor)
    parent = {0: None, 1: 0, 2: 0}
    kids = {0: [1, 2]}
    nxt_id = [3]

    def grow(r, depth):
        if depth == 0:
            return
        a, b = nxt_id[0], nxt_id[0] + 1
        nxt_id[0] += 2
        kids[r] = [a, b]
        parent[a] = parent[b] = r
        grow(a, depth - 1)
    grow(1, rng.choice([0, 1, 1, 2]))
    grow(2, rng.choice([0, 1, 1, 2]))
    names = list(range(nxt_id[0]))
    for i in names:
        d.states.append({'name': i, 'on_enter': [], 'on_exit': [], 'ignore': None, 'final': False, 'parent': parent[i],
                         'children': kids.get(i, []), 'parallel': i == 0,
                         'init_child': (kids[i][0] if (i != 0 and i in kids) else None)})
    d.initial = 0
    d.prepare_event = [cb(SLOT['prepare_event'])] if rng.random() < 0.5 else []
    for e in range(3):
        ts = []
        for src in rng.sample(names, rng.randint(1, 3)):
            sibs = [x for x in kids.get(parent[src], []) if parent[src] not in (None, 0)] if parent[src] is not None else []
            if sibs and src not in kids:
                dest = rng.choice(sibs + [None])       # a leaf inside a region: to a sibling leaf, or internal
            else:
                dest = rng.choice([None, src])
            conds = []
            for _ in range(rng.randint(0, 2)):
                tg = rng.random() < 0.5
                c = cb(SLOT['conditions'] if tg else SLOT['unless'])
                conds.append((c, tg))
                val = rng.random() < 0.5
                for k in range(flat.DET_DEPTH):
                    d.script[(c, k)] = ((), ('ret', val))
            # every transition carries a `before` recorder: execution is observed directly, whatever the hierarchical
            # engine then reports as the trigger's result (a later blocked region may overwrite it: C03's business)
            ts.append({'source': src, 'dest': dest, 'prepare': [], 'conds': conds, 'before': [cb(SLOT['before'])],
                       'after': [], 'local': None})
        d.events.append((e, ts))
    d.models = [0]
    d.history = [(TRIGGER, 0, rng.randrange(3)) for _ in range(rng.randint(0, 2))]
    d.nested = True
    d.qmode = 0
    d.queued = False
    d.kinds = {}
    d.const = {}
    return d


def selfmodel_case(case):
    """the machine acting as its OWN model (a subclass instance, model='self'), every queue mode the class has:
    may_<event> must equal 'the trigger issued right away executes a transition' there too"""
    setup = case['_setup']
    rng = random.Random(case['sub'])
    cls = get_cls(setup[1])
    is_async = setup[3]
    out, n, trues = [], 0, 0
    for queued in ([False, True, 'model'] if is_async else [False, True]):
        for passes in (True, False):
            log = []

            class SM(cls):
                def cond(self, *a, **k):
                    log.append('cond')
                    return passes

                def moved(self, *a, **k):
                    log.append('after')
            extra = {'graph_engine': 'mermaid'} if 'Graph' in setup[1] else {}
            states = ['A', 'B', 'C'] if not setup[2] else ['A', {'name': 'B', 'children': ['x', 'y'], 'initial': 'x'}, 'C']
            m = SM(states=states, transitions=[{'trigger': 'go', 'source': 'A', 'dest': 'B', 'conditions': 'cond',
                                                'after': 'moved'}, ['back', 'B', 'A']],
                   initial='A', queued=queued, auto_transitions=rng.random() < 0.5, **extra)

            def run(x):
                return asyncio.run(x) if inspect.isawaitable(x) else x
            info = {'setup': setup[0], 'queued': queued, 'condition': passes}
            try:
                if is_async:
                    async def both():
                        a = await m.may_go()
                        del log[:]
                        try:
                            b = await m.go()
                        except BaseException as e:      # noqa
                            b = e
                        return a, b
                    may, res = asyncio.run(both())
                else:
                    may = m.may_go()
                    del log[:]
                    try:
                        res = m.go()
                    except BaseException as e:      # noqa
                        res = e
            except BaseException as e:      # noqa
                out.append(('may-raised-without-a-raising-callback', dict(info, err=repr(e)[:120]), 'C12.selfmodel:' + setup[0]))
                return out, n, trues
            executed = 'after' in log
            n += 1
            trues += int(bool(may))
            if bool(may) != executed or bool(may) != passes:
                out.append(('may-differs-from-trigger', dict(info, may=bool(may), executed=executed, trigger=repr(res)[:120],
                                                              state=str(m.state)), 'C12.selfmodel:' + setup[0]))
                return out, n, trues
    if not setup[2] or True:
        o2, n2, t2 = reconf_case(case)
        return out + o2, n + n2, trues + t2
    return out, n, trues


def reconf_case(case):
    """several models, transitions removed and declared again at run time: for EVERY model may_<event> /
    may_trigger(name) still equals 'the trigger issued right away executes a transition'"""
    setup = case['_setup']
    cls = get_cls(setup[1])
    is_async = setup[3]
    out, n, trues = [], 0, 0
    extra = {'graph_engine': 'mermaid'} if 'Graph' in setup[1] else {}

    class PM(object):
        def __init__(self):
            self.log = []

        def moved(self, *a, **k):
            self.log.append('after')
    models = [PM() for _ in range(3)]
    m = cls(model=list(models), states=['A', 'B', 'C'],
            transitions=[{'trigger': 'go', 'source': 'A', 'dest': 'B', 'after': 'moved'}, ['back', '*', 'A']],
            initial='A', auto_transitions=False, **extra)

    def run(x):
        return asyncio.run(x) if inspect.isawaitable(x) else x

    async def arun(f):
        r = f()
        return (await r) if inspect.isawaitable(r) else r

    def probe(stage, expect):
        nonlocal n, trues
        for i, mo in enumerate(models):
            twin_state = mo.state
            try:
                may = run(arun(lambda: mo.may_trigger('go')))
            except BaseException as e:      # noqa
                may = repr(e)[:80]
            del mo.log[:]
            try:
                fn = getattr(mo, 'go', None)
                res = run(arun(fn)) if fn is not None else 'no-method'
            except BaseException as e:      # noqa
                res = type(e).__name__
            executed = 'after' in mo.log
            n += 1
            trues += int(may is True)
            if (may is True) != executed or executed != expect:
                out.append(('may-differs-from-trigger', {'setup': setup[0], 'stage': stage, 'model': i, 'may': str(may),
                                                         'executed': executed, 'trigger': str(res), 'expected': expect,
                                                         'state_before': str(twin_state)}, 'C12.reconf:' + setup[0]))
                return False
            try:
                run(arun(lambda: mo.back()))
            except BaseException:       # noqa
                pass
        return True
    if not probe('initial', True):
        return out, n, trues
    m.remove_transition('go')
    if not probe('after remove_transition', False):
        return out, n, trues
    m.add_transition('go', 'A', 'C', after='moved')
    probe('declared again', True)
    return out, n, trues


def build_case(kind, setup_idx, sub):
    rng = random.Random(sub)
    setup = SETUPS[setup_idx]
    if kind == 'parallel':
        return {'kind': kind, 'setup': setup_idx, 'sub': sub, '_d': parallel_desc(rng), '_setup': setup}
    if kind == 'selfmodel':
        return {'kind': kind, 'setup': setup_idx, 'sub': sub, '_d': None, '_setup': setup}
    kn = knobs_routing() if kind == 'routing' else knobs_predict()
    kn.p_bad_dest = 0.45 if kind == 'baddest' else 0.0
    d = flat.gen_flat(rng, kn)
    prep(d, setup[2], rng)
    if kind == 'predict':
        # conditions that read what the prepare stage left behind (see MayMixin.begin); drawn from an own generator so
        # that the rest of the description does not depend on them
        r2 = random.Random(sub ^ 0x0D0E)
        if not d.prepare_event and r2.random() < 0.5:
            c = max(list(d.cb_slot) + [-1]) + 1
            d.cb_slot[c] = SLOT['prepare_event']
            d.prepare_event = [c]
        sens = set()
        if d.prepare_event:
            for _e, ts in d.events:
                for t in ts:
                    if not t['prepare'] and t['conds'] and r2.random() < 0.4:
                        c = max(list(d.cb_slot) + [-1]) + 1
                        d.cb_slot[c] = SLOT['prepare']
                        t['prepare'] = [c]
                    if t['prepare']:
                        sens.update(c for c, _tg in t['conds'] if r2.random() < 0.6)
        d.order_sensitive = frozenset(sens)
        # compound states whose children and locally declared transitions arrive as an embedded machine instance;
        # conditions of such local transitions may depend on the embedding machine's prepare_event callbacks having run
        d.embed = frozenset(i for i, st in enumerate(d.states)
                            if st.get('children') and not st.get('parallel') and r2.random() < 0.5)
        pes = set()
        if d.prepare_event and d.embed:
            for _e, ts in d.events:
                for t in ts:
                    if t.get('local') in d.embed:
                        pes.update(c for c, _tg in t['conds'] if c not in sens and r2.random() < 0.7)
        d.pe_sensitive = frozenset(pes)
        if setup[2]:
            d.sep = r2.choice(['_', '_', '.', '/'])
    if kind == 'routing' and setup[3]:
        # async stages run as gather: keep every stage to one callback so that the routing clause is unambiguous
        for s in d.states:
            s['on_enter'] = s['on_enter'][:1]
            s['on_exit'] = s['on_exit'][:1]
        for _e, ts in d.events:
            for t in ts:
                t['prepare'] = t['prepare'][:1]
                t['conds'] = t['conds'][:1]
                t['before'] = t['before'][:1]
                t['after'] = t['after'][:1]
        for k in ('prepare_event', 'before_sc', 'after_sc', 'finalize', 'on_final'):
            setattr(d, k, getattr(d, k)[:1])
    return {'kind': kind, 'setup': setup_idx, 'sub': sub, '_d': d, '_setup': setup}


def judge_twin(case):
    c = build_case(case['kind'], case['setup'], case['sub'])
    if 'history' in case and c['_d'] is not None:
        c['_d'].history = [tuple(x) for x in case['history']]
    return {'predict': predict_case, 'parallel': predict_case, 'routing': routing_case,
            'baddest': baddest_case, 'selfmodel': selfmodel_case}[case['kind']](c)


def twin_chunk(seed, idx, n, kind):
    rng = random.Random('C12/%s/%d/%d' % (kind, seed, idx))
    ex = Exploration()
    for _j in range(n):
        # nested / parallel configurations get twice the share (that is where the copies of `_can_trigger` differ)
        setup_idx = rng.choice([i for i, st in enumerate(SETUPS) for _ in range(2 if st[2] else 1)])
        if kind == 'baddest':
            setup_idx = rng.choice([i for i, st in enumerate(SETUPS) if not st[2]])
        if kind == 'parallel':
            setup_idx = rng.choice([i for i, st in enumerate(SETUPS) if st[2]])
        if kind == 'selfmodel':
            setup_idx = _j % len(SETUPS)        # every class setup, every run
        sub = rng.randrange(1 << 30)
        case = {'kind': kind, 'setup': setup_idx, 'sub': sub}
        try:
            fs, nchk, ntrue = judge_twin(case)
        except common.MachineryError:
            raise
        ex.evaluations += 1
        ex.traces_validated += nchk
        if (kind in ('predict', 'baddest', 'parallel', 'selfmodel') and 0 < ntrue < nchk) or (kind == 'routing' and ntrue > 0 and nchk > 0):
            ex.nontrivial.add('%s/%d/%d' % (kind, setup_idx, sub))
        h = ex.stats.setdefault(kind + '_setup', {})
        h[SETUPS[setup_idx][0]] = h.get(SETUPS[setup_idx][0], 0) + 1
        ex.stats[kind + '_checks'] = ex.stats.get(kind + '_checks', 0) + nchk
        ex.stats[kind + '_true_or_raises'] = ex.stats.get(kind + '_true_or_raises', 0) + ntrue
        for what, details, sig in fs:
            ex.failures.append(Failure('monitor', what, case, details, signature=sig))
        if len(ex.failures) >= 2:
            break
    return ex


def shrink_twin(case):
    if case['kind'] in ('predict', 'parallel', 'selfmodel'):
        return      # the re-entrant comparisons depend on the whole history; the case is already small
    c = build_case(case['kind'], case['setup'], case['sub'])
    hist = case.get('history', [list(x) for x in c['_d'].history])
    for i in range(len(hist)):
        yield dict(case, history=hist[:i] + hist[i + 1:])


class C12(flatcheck.FlatCheck):
    prop = 'C12'
    level = 'proof'
    theorems = ('TM.C12_flat', 'TM.C12_pure', 'TM.C12_unregistered_dest_impossible',
                'TM.C12_exception_raised_without_handlers', 'TM.C12_exception_routed_with_handlers',
                # hierarchical engine (Props/C12N.lean)
                'TM.C12_nested', 'TM.C12_nested_api', 'TM.C12_nested_sound', 'TM.C12_nested_pairs', 'TM.C12_nested_may_spec',
                'TM.C12_nested_trigger_spec', 'TM.C12_nested_pure', 'TM.C12_nested_baddest', 'TM.C12_nested_baddest_all',
                'TM.C12_nested_raised_without_handlers', 'TM.C12_nested_routed_with_handlers',
                'TM.C12_nested_raise_reaches_caller', 'TM.C12_nested_wf_init', 'TM.C12_nested_wf_trigger',
                'TM.C12_nested_wf_may', 'TM.C12_nested_wf_history', 'TM.C12_nested_destsOK',
                'TM.C12_nested_global_dest_counterexample')
    manifest = dict(
        level='proof', design='DESIGN.md 4/C12',
        text="Lean 4 theorems on the flat engine model: with deterministic non-raising conditions may_<event> returns True exactly when the trigger issued right away executes a transition (C12_flat: both walk the same candidate list and agree on the first candidate whose conditions pass); for EVERY script without re-entrant commands a may_ evaluation leaves the model list, every model's state, the queue and the tag counter untouched and runs only prepare_event/prepare/conditions/unless (and on_exception) callbacks on behalf of that model with the call's arguments (C12_pure); candidates with unregistered destinations are skipped without running anything; exceptions are raised without handlers and routed to them otherwise. On the HIERARCHICAL engine model (Model/NestedMay.lean after HierarchicalMachine._can_trigger/_can_trigger_nested, against the dispatch model of C02/C03): for every configuration of states/transitions (compound, parallel, local and machine-level declarations, any handlers/ignore flags/queue), every admissible active configuration (C02's invariant, proved for every reachable configuration of mixed trigger/may_ histories), every deterministic non-raising script and every event whose destinations resolve, may_ returns a Boolean that is True EXACTLY WHEN _trigger_event issued in the same state gets some transition past its conditions (C12_nested; C12_nested_sound without the destination hypothesis); the evaluation and the dispatch visit the same SET of (scope, source) pairs in different orders (C12_nested_pairs) and none of the dispatch's skipping rules (done, exited_states, offered, res[key]) withholds a pair before something executed (ten_spec); the trigger never runs out of fuel; purity for ANY script (C12_nested_pure: configuration, queue, event bookkeeping, ghost log untouched; only evaluation slots); unresolvable destinations are skipped as if absent (C12_nested_baddest); routing theorems. 'Executes' in C12_nested means that the transition stage is entered: for a locally declared transition whose destination only resolves as a GLOBAL name the trigger then raises from _resolve_transition (witness C12_nested_global_dest_counterexample, decided in the kernel; stream nested-twin-globaldest ties the model to the code on such inputs and reports the listed finding F-C12-local-global-dest). Tied to /repo by trace equality on mixed may_/trigger histories (flat: Machine; nested: HierarchicalMachine and, for single-callback stages, HierarchicalAsyncMachine, incl. re-entrant calls from callbacks, raising callbacks, handlers, unresolvable destinations), and decided on the locked and async classes by a twin oracle: at every prefix of every generated history, for every model and event name, may_ on one run is compared with the real trigger on an identically prepared twin (flat and nested/parallel configurations), plus purity and routing oracles.",
        note="Trusted: Lean kernel, Model/Core.lean (canTrigger/mayLoop) and Model/NestedMay.lean + Model/NestedDispatch.lean tied by trace equality, harness twins. The async copies of _can_trigger have no model of their own: they differ from the sync code only inside a callback stage (gather; C07) and are compared with the sync model on single-callback stages and by the twin oracle.",
        technique="Lean 4 proof (induction over candidate lists / state trees; frame lemmas; blocked-run vs first-passing-candidate analysis of the hierarchical dispatch) + differential correspondence (flat and nested engine models) + may-vs-trigger twin oracle on 6 classes")
    streams = (
        flatcheck.Stream('flat-model', knobs_flat_model, quick=(16, 200), thorough=(64, 900)),
    )
    rule = ('flat-model: random flat configurations x histories mixing may_ and trigger calls (also from callbacks); '
            'predict: deterministic configurations (flat / with an imposed state tree incl. parallel states) on 8 class '
            'setups — every (history prefix, model, event name incl. one unknown) is one may-vs-trigger twin comparison; '
            'routing: raising prepare/condition callbacks with/without handlers; non-trivial predict case = both True and '
            'False answers occur; distinct = (stream, setup, sub-seed); nested-model*: generated hierarchical machines '
            '(harness/nested.py trees + unresolvable destinations, raising evaluation callbacks, handlers, re-entrant may_/trigger '
            'commands) x histories mixing may_ and trigger; non-trivial = both answers of may_ occur in the run; nested-twin*: '
            'deterministic such machines, every (prefix, event) one may-vs-trigger comparison; distinct by hash of the encoded case')
    trusted = ('hand-written model lean/Model/Core.lean (canTrigger, mayLoop) tied to /repo by trace equality',
               'hand-written model lean/Model/NestedMay.lean (ncanTrigger, ncanTriggerNested, nmayLoop) over Model/NestedDispatch.lean, '
               'tied to /repo by trace equality (stream nested-model, harness/nestedmay.py)',
               'twin oracle harness/props/c12.py: determinism of the generated callbacks makes re-running a prefix exact')

    def assumptions(self):
        return ['C12_flat assumes deterministic, non-raising conditions without re-entrant commands and registered '
                'sources/destinations (the statement\'s "with deterministic conditions")',
                'queued machines are not used for the twin comparison (a queued trigger always returns True)',
                'auto transitions are disabled in generated machines; to_<state> helpers are C11\'s business',
                'C12_nested: "executes a transition" = some transition of the call gets past its conditions (ghost event exec); '
                'destinations of the event\'s transitions resolve (unresolvable ones "count as impossible": C12_nested_baddest); '
                'admissible configuration (C02 invariant, proved for all reachable ones)',
                'nested stream: re-entrant may_ and trigger commands are issued from every callback except finalize_event '
                '(possible since the repairs 4b06f60 and 84867c8 made the engine re-entrant for triggers)']

    def explore(self, tier, seed):
        ex = flatcheck.FlatCheck.explore(self, tier, seed)
        np_, nr = ((16, 16), (16, 40)) if tier == 'quick' else ((64, 40), (32, 200))
        payloads = ([(seed, i, np_[1], 'predict') for i in range(np_[0])] + [(seed, i, nr[1], 'routing') for i in range(nr[0])]
                    + [(seed, i, nr[1], 'baddest') for i in range(8)] + [(seed, i, 8, 'selfmodel') for i in range(1)] + [(seed, i, np_[1] * 2, 'parallel') for i in range(16)])
        fails = []
        for part in runner.parallel(twin_chunk, payloads):
            fails += part.failures
            part.failures = []
            ex.merge(part)
        # the hierarchical engine model of may_ (Model/NestedMay.lean): correspondence + oracles
        nfails = []
        for part in runner.parallel(nestedmay.chunk, self.nested_payloads(tier, seed)):
            nfails += part.failures
            part.failures = []
            ex.merge(part)
        ndone = set()
        for f in nfails:
            key = (f.kind, f.what)
            if key not in ndone:
                ndone.add(key)
                try:
                    f.case = runner.shrink(f.case, self.nested_fails_like(f), nestedmay.shrink_steps,
                                           budget=12 if f.what.startswith('hang') else 200)
                except common.MachineryError:
                    raise
                except BaseException:
                    pass
            ex.failures.append(f)
        done = set()
        for f in fails:
            key = (f.kind, f.what)
            if key not in done:
                done.add(key)
                f.case = runner.shrink(f.case, lambda c, w=f.what: any(x[0] == w for x in judge_twin(c)[0]),
                                       shrink_twin, budget=40)
            ex.failures.append(f)
        return ex

    NESTED_STREAMS = (  # name, quick (chunks, per chunk), thorough
        ('nested-model', (16, 110), (24, 500)),
        ('nested-model-small', (8, 110), (12, 500)),
        ('nested-model-parallel', (8, 110), (12, 500)),
        ('nested-model-async', (8, 110), (8, 500)),
        ('nested-model-reentrant', (8, 110), (8, 500)),
        ('nested-twin', (16, 14), (16, 110)),
        ('nested-twin-parallel', (8, 14), (8, 110)),
        ('nested-twin-globaldest', (4, 12), (8, 60)),
    )

    def leanchecker(self):
        import subprocess
        p = subprocess.run(['lake', 'env', 'leanchecker', 'Props.C12', 'Props.C12N'], cwd=common.LEAN,
                           stdout=subprocess.PIPE, stderr=subprocess.STDOUT, text=True)
        if p.returncode != 0:
            raise common.MachineryError('leanchecker failed: %s' % p.stdout[-1500:])

    def nested_payloads(self, tier, seed):
        out = []
        for name, q, t in self.NESTED_STREAMS:
            nch, per = q if tier == 'quick' else t
            out += [(seed, i, per, name) for i in range(nch)]
        return out

    def nested_fails_like(self, f):
        def fn(case):
            return any(x.kind == f.kind and x.what == f.what for x in nestedmay.rejudge(case))
        return fn

    def search(self, tier, seed, failures):
        found = flatcheck.FlatCheck.search(self, tier, seed, failures)
        if found:
            return found
        # the nested model broke without a property failure in the regular run: the oracles of the nested streams,
        # fresh seeds, more budget
        payloads = [(seed + 7919, i, 60, name) for name in ('nested-twin', 'nested-twin-parallel') for i in range(16)]
        payloads += [(seed + 7919, i, 250, name) for name in ('nested-model', 'nested-model-parallel', 'nested-model-async') for i in range(16)]
        for part in runner.parallel(nestedmay.chunk, payloads):
            found += [f for f in part.failures if f.kind == 'monitor']
        for f in found[:1]:
            f.case = runner.shrink(f.case, self.nested_fails_like(f), nestedmay.shrink_steps, budget=200)
        return found

    def rejudge(self, case):
        if case.get('nested_may'):
            return None, None, None, None, nestedmay.rejudge(case)
        if 'kind' in case:
            fs = [Failure('monitor', w, case, d, signature=s) for w, d, s in judge_twin(case)[0]]
            return None, None, None, None, fs
        return flatcheck.FlatCheck.rejudge(self, case)

    def annotate(self, f):
        if 'kind' in f.case or f.case.get('nested_may'):
            return
        flatcheck.FlatCheck.annotate(self, f)

    def replay(self, path):
        import json
        with open(path) as fh:
            payload = json.load(fh)
        if 'case' in payload and payload['case'].get('nested_may'):
            return nestedmay.replay(payload['case'])
        if 'case' in payload and 'kind' in payload['case']:
            fs = judge_twin(payload['case'])[0]
            for w, d, s in fs:
                print('FAIL', w, json.dumps(d, default=str)[:1500])
            return 1 if fs else 0
        return flatcheck.FlatCheck.replay(self, path)


CHECK = C12()
