"""C15 — pickling preserves a machine and yields an independent copy.

Harness side.  For every generated case (one of the 12 predefined classes, by name or through
`MachineFactory.get_predefined`, flat or nested/parallel configuration, 1-3 models incl. the machine as its
own model, callbacks given by NAME on module-level recording classes, optional recording context managers
for the locked classes) the real machine `A` and a never-pickled control `B` are driven through a random
history.  At every prefix (quiescent point) `C = pickle.loads(pickle.dumps(A))` is taken and

  (a) structural introspection of `C` equals that of `A` (states, transitions, options, model states,
      convenience attributes, markup);
  (b) `C` and a fresh un-pickled control `K` (same configuration, same prefix) react identically to a random
      continuation (results, exceptions, states, callback recordings, contexts entered);
  (c) independence both ways: nothing the continuation did to `C` (events, add_states, add_transition,
      remove_model, held locks) shows on `A`, nothing `A` does afterwards shows on `C`, no mutable object
      is shared, a lock held on one never blocks the other while each copy still honours its own lock.

That Python oracle is the property monitor.  Correspondence: the id-keyed tables of `A` before and of `C`
after the round trip (`model_context_map`, `model_graphs`, `_transition_queue_dict`, keys translated through
the pickled object identity map) and the table part of the continuation are compared with the Lean model
`Model/Pickle.lean` (driver request `c15`).
"""
import asyncio
import copy
import hashlib
import inspect
import itertools
import json
import os
import pickle
import random
import sys
import threading

from .. import common, runner

SEP = '_'
SEQ = itertools.count()
MODREC = []          # recordings of the module-level (dotted path) callbacks

FLAGS = {  # name: (graph, nested, locked, asyncio)
    'Machine': (0, 0, 0, 0), 'LockedMachine': (0, 0, 1, 0), 'HierarchicalMachine': (0, 1, 0, 0),
    'LockedHierarchicalMachine': (0, 1, 1, 0), 'GraphMachine': (1, 0, 0, 0), 'LockedGraphMachine': (1, 0, 1, 0),
    'HierarchicalGraphMachine': (1, 1, 0, 0), 'LockedHierarchicalGraphMachine': (1, 1, 1, 0),
    'AsyncMachine': (0, 0, 0, 1), 'AsyncGraphMachine': (1, 0, 0, 1), 'HierarchicalAsyncMachine': (0, 1, 0, 1),
    'HierarchicalAsyncGraphMachine': (1, 1, 0, 1),
}
NAMES = list(FLAGS)


# ---------------------------------------------------------------------------------------------
# picklable module-level vocabulary: recording models, recording contexts, module functions
# ---------------------------------------------------------------------------------------------

def canon_state(st):
    """canonical, order-insensitive rendering of a model state (str, or nested lists for parallel states)"""
    out = []

    def walk(x):
        if isinstance(x, (list, tuple)):
            for y in x:
                walk(y)
        else:
            out.append(getattr(x, 'name', x) if not isinstance(x, str) else x)
    walk(st)
    return '|'.join(sorted(str(o) for o in out))


def _args_repr(a, kw):
    if len(a) == 1 and hasattr(a[0], 'event') and hasattr(a[0], 'machine'):
        ed = a[0]
        return ['ED', ed.event.name if ed.event is not None else None, list(ed.args), sorted(ed.kwargs.items())]
    return ['A', list(a), sorted(kw.items())]


class RecMixin(object):
    """callbacks addressed by name; every invocation is appended to the per-object list `rec`
    (an instance attribute, so it is pickled along)"""

    def _rec_init(self, tag, sched, attr='state'):
        self.tag = tag
        self.rec = []
        self.sched = sched
        self.cnt = {}
        self.attr_name = attr

    def _note(self, name, a, kw, extra=None):
        d = self.__dict__
        st = d.get(d.get('attr_name', 'state'), None)
        d['rec'].append([name, canon_state(st), _args_repr(a, kw), extra])


def _mk_cb(name):
    def f(self, *a, **kw):
        self._note(name, a, kw)
    f.__name__ = name
    return f


def _mk_cond(name):
    def f(self, *a, **kw):
        d = self.__dict__
        n = d['cnt'].get(name, 0)
        d['cnt'][name] = n + 1
        seq = d['sched'].get(name) or [True]
        v = seq[n % len(seq)]
        self._note(name, a, kw, v)
        return v
    f.__name__ = name
    return f


def _mk_acb(name):
    async def f(self, *a, **kw):
        self._note(name, a, kw)
        await asyncio.sleep(0)
    f.__name__ = name
    return f


CBS = ['cb%d' % i for i in range(8)]
CBX = 'cbx'          # used for on_exception only: its invocation reveals a swallowed exception
CONDS = ['cond%d' % i for i in range(4)]
ACBS = ['acb%d' % i for i in range(2)]
for _n in CBS + [CBX]:
    setattr(RecMixin, _n, _mk_cb(_n))
for _n in CONDS:
    setattr(RecMixin, _n, _mk_cond(_n))
for _n in ACBS:
    setattr(RecMixin, _n, _mk_acb(_n))

# cross-model re-entrant triggers: a callback of a running event on one model fires an event on ANOTHER model
# (attribute `peer`, pickled along) and then one on its own model; what it gets back and the states it sees are
# recorded.  Nesting is bounded by a process-global depth (deterministic per top-level call).
POKE_DEPTH = [0]
POKE_BUDGET = [0]    # pokes left for the current top-level history item (queued machines run deferred events at depth 0)
POKES = [0]          # number of pokes that actually fired (the Lean model has no re-entrancy: such steps are not sent)
POKE, APOKE = 'poke', 'apoke'


def _poke_targets(self):
    d = self.__dict__
    peer = d.get('peer')
    if peer is None or POKE_DEPTH[0] >= 2 or POKE_BUDGET[0] <= 0:
        return None
    POKE_BUDGET[0] -= 1
    return peer, d.get('poke_ev', 'e0'), d.get('self_ev', 'e0')


def _peer_state(peer):
    pd = peer.__dict__
    return canon_state(pd.get(pd.get('attr_name', 'state')))


def poke(self, *a, **kw):
    t = _poke_targets(self)
    if t is None:
        self._note(POKE, a, kw, 'skip')
        return
    peer, ev, own = t
    POKE_DEPTH[0] += 1
    POKES[0] += 1
    out = []
    try:
        for target, name in ((peer, ev), (self, own)):
            try:
                r = getattr(target, name)(7, k=1)
                if inspect.isawaitable(r):      # a sync callback cannot await: leave the coroutine unstarted
                    r.close()
                    r = 'coroutine'
                out.append(r if isinstance(r, str) else bool(r))
            except Exception as e:   # noqa: BLE001
                out.append(type(e).__name__)
            out.append(_peer_state(peer))
            self._note(POKE + ':' + ('peer' if target is peer else 'own'), a, kw, list(out))
    finally:
        POKE_DEPTH[0] -= 1


async def apoke(self, *a, **kw):
    t = _poke_targets(self)
    if t is None:
        self._note(APOKE, a, kw, 'skip')
        return
    peer, ev, own = t
    POKE_DEPTH[0] += 1
    POKES[0] += 1
    out = []
    try:
        for target, name in ((peer, ev), (self, own)):
            try:
                out.append(bool(await getattr(target, name)(7, k=1)))
            except Exception as e:   # noqa: BLE001
                out.append(type(e).__name__)
            out.append(_peer_state(peer))
            self._note(APOKE + ':' + ('peer' if target is peer else 'own'), a, kw, list(out))
    finally:
        POKE_DEPTH[0] -= 1


RecMixin.poke = poke
RecMixin.apoke = apoke

# snapshots taken WHILE AN EVENT IS BEING PROCESSED: the named callback `snap` (a persistence hook) pickles the machine it
# belongs to from inside the event; `aslow` suspends the event of one model so that the harness can pickle the
# machine from another coroutine meanwhile (async classes).  Only armed while the harness drives the original.
SNAP = {'armed': False, 'out': [], 'protocol': 4}
GATE = {'gate': None, 'reached': None}


def take_snapshot(mach, where):
    try:
        rig = Rig(mach, list(mach.models), [], [])
        attr = mach.model_attribute
        info = {'where': where, 'fp': fingerprint(rig), 'recs': recs(rig),
                'raw': [copy.deepcopy(getattr(m, attr, None)) for m in mach.models]}
        # the tables at this very instant (incl. IdentManager.current) for the correspondence with the Lean model
        numb, sti = Numbering(), StateIndex()
        objs = []
        for i, m in enumerate(mach.models):
            numb.add(m, 1 + i)
            objs.append(m)
        for j, c in enumerate(mach.__dict__.get('machine_context', [])):
            numb.add(c, 10 + j)
            objs.append(c)
        n = 20
        for l in mach.__dict__.get('model_context_map', {}).values():
            for c in l:
                if id(c) not in numb.by_id:
                    numb.add(c, n)
                    objs.append(c)
                    n += 1
        info.update(numb=numb, sti=sti, objs=objs, tab=tables_of(rig, numb, sti))
        info['blob'] = pickle.dumps((mach, objs), protocol=SNAP['protocol'])
        SNAP['out'].append(info)
    except Exception as e:   # noqa: BLE001 — judged by the harness afterwards, the event itself goes on
        SNAP['out'].append({'where': where, 'error': '%s: %s' % (type(e).__name__, e)})


def snap(self, *a, **kw):
    self._note('snap', a, kw)
    if SNAP['armed'] and len(SNAP['out']) < 2:
        mach = machine_of(self)
        if mach is not None:
            take_snapshot(mach, 'callback')


async def aslow(self, *a, **kw):
    self._note('aslow', a, kw)
    if GATE['gate'] is not None:
        GATE['reached'].set()
        await GATE['gate'].wait()
    else:
        await asyncio.sleep(0)


RecMixin.snap = snap
RecMixin.aslow = aslow

# a callback of one machine fires an event on a model of ANOTHER machine (another restored copy, or the original): the
# harness names the target while it drives a forwarding phase; idle otherwise
FORWARD = {'target': None, 'ev': 'e0'}


def _fwd_ready(self, a, kw, name):
    t = FORWARD['target']
    if t is None or POKE_BUDGET[0] <= 0:
        self._note(name, a, kw, 'idle')
        return None
    POKE_BUDGET[0] -= 1
    POKES[0] += 1
    return t


def fwd(self, *a, **kw):
    t = _fwd_ready(self, a, kw, 'fwd')
    if t is None:
        return
    try:
        r = getattr(t, FORWARD['ev'])(7, k=1)
        if inspect.isawaitable(r):
            r.close()
            r = 'coroutine'
        out = r if isinstance(r, str) else bool(r)
    except Exception as e:   # noqa: BLE001
        out = type(e).__name__
    self._note('fwd', a, kw, [out, _peer_state(t)])


async def afwd(self, *a, **kw):
    t = _fwd_ready(self, a, kw, 'afwd')
    if t is None:
        return
    try:
        out = bool(await getattr(t, FORWARD['ev'])(7, k=1))
    except Exception as e:   # noqa: BLE001
        out = type(e).__name__
    self._note('afwd', a, kw, [out, _peer_state(t)])


# queue an event for the peer model behind the running one, then remove the peer from the machine ("all queued events
# of that model will be removed"); on an unqueued machine the peer's event runs at once and the peer is removed after it
def _qrm_ready(self, a, kw, name):
    d = self.__dict__
    peer = d.get('peer')
    mach = machine_of(self) if peer is not None else None
    if peer is None or peer is self or mach is None or POKE_BUDGET[0] <= 0 or len(mach.models) <= 1 \
            or not any(m is peer for m in mach.models):
        self._note(name, a, kw, 'skip')
        return None
    POKE_BUDGET[0] -= 1
    POKES[0] += 1
    return peer, mach


def _qrm_remove(self, peer, mach, out):
    try:
        mach.remove_model(peer)
        out.append('removed')
    except Exception as e:   # noqa: BLE001
        out.append(type(e).__name__)
    for o in list(mach.models) + [self, peer]:
        if o.__dict__.get('peer') is peer:
            o.__dict__['peer'] = None
    peer.__dict__['peer'] = None
    out.append(_peer_state(peer))


def qrm(self, *a, **kw):
    t = _qrm_ready(self, a, kw, 'qrm')
    if t is None:
        return
    peer, mach = t
    out = []
    try:
        r = getattr(peer, self.__dict__.get('poke_ev', 'e0'))(7, k=1)
        if inspect.isawaitable(r):
            r.close()
            r = 'coroutine'
        out.append(r if isinstance(r, str) else bool(r))
    except Exception as e:   # noqa: BLE001
        out.append(type(e).__name__)
    _qrm_remove(self, peer, mach, out)
    self._note('qrm', a, kw, out)


async def aqrm(self, *a, **kw):
    t = _qrm_ready(self, a, kw, 'aqrm')
    if t is None:
        return
    peer, mach = t
    out = []
    try:
        out.append(bool(await getattr(peer, self.__dict__.get('poke_ev', 'e0'))(7, k=1)))
    except Exception as e:   # noqa: BLE001
        out.append(type(e).__name__)
    _qrm_remove(self, peer, mach, out)
    self._note('aqrm', a, kw, out)


RecMixin.fwd = fwd
RecMixin.afwd = afwd
RecMixin.qrm = qrm
RecMixin.aqrm = aqrm


class RecModel(RecMixin):
    def __init__(self, tag, sched, attr='state'):
        self._rec_init(tag, sched, attr)


def modfn0(*a, **kw):
    MODREC.append(['modfn0', _args_repr(a, kw)[:2]])


def modfn1(*a, **kw):
    MODREC.append(['modfn1', _args_repr(a, kw)[:2]])


MODFNS = [__name__ + '.modfn0', __name__ + '.modfn1']


class RecCtx(object):
    """a user context manager for `machine_context` / `model_context`: records enter/exit"""

    def __init__(self, name):
        self.name = name
        self.log = []

    def __enter__(self):
        self.log.append(('enter', next(SEQ)))

    def __exit__(self, *exc):
        self.log.append(('exit', next(SEQ)))


def _picklable_lock_base():
    from transitions.extensions.locking import PicklableLock
    return PicklableLock


class RLockCtx(_picklable_lock_base()):
    """a user context derived from the library's PicklableLock ("reinitialized unlocked when unpickled"): re-entrant,
    counting — the obvious picklable RLock: only __init__ is overridden"""

    def __init__(self):
        self.lock = threading.RLock()
        self.name = 'R'
        self.entered = 0

    def __enter__(self):
        self.lock.acquire()
        self.entered = getattr(self, 'entered', 0) + 1     # (never fail between acquire and release)

    def __exit__(self, *exc):
        self.lock.release()


def reenter(self, *a, **kw):
    """a callback that takes the machine's first lock context AGAIN while the event holds it (bounded wait instead of a
    hang: with a re-entrant lock it gets it at once, with a plain lock it cannot)"""
    mach = machine_of(self)
    ctx = next((c for c in (mach.__dict__.get('machine_context', []) if mach is not None else []) if hasattr(c, 'lock')), None)
    if ctx is None:
        self._note('reenter', a, kw, 'no-lock')
        return
    got = ctx.lock.acquire(timeout=0.25)
    if got:
        ctx.lock.release()
    self._note('reenter', a, kw, [type(ctx).__name__, bool(got)])


RecMixin.reenter = reenter

_SELF_CLASSES = {}


def get_class(name, via_factory):
    g, n, l, a = FLAGS[name]
    if via_factory:
        from transitions.extensions import MachineFactory
        return MachineFactory.get_predefined(graph=bool(g), nested=bool(n), locked=bool(l), asyncio=bool(a))
    import transitions
    import transitions.extensions as E
    import transitions.extensions.factory as F
    import transitions.extensions.asyncio as A
    for mod in (transitions, E, F, A):
        if hasattr(mod, name):
            return getattr(mod, name)
    raise common.MachineryError('class %s not found' % name)


def self_class(name, via_factory):
    """the predefined class with the recording callbacks mixed in (for `model='self'`); registered at module
    level so that pickle can find it by reference"""
    base = get_class(name, via_factory)
    key = 'Self_%s_%s' % (base.__name__, 'F' if via_factory else 'N')
    if key not in _SELF_CLASSES:
        cls = type(key, (RecMixin, base), {})
        cls.__module__ = __name__
        cls.__qualname__ = key
        _SELF_CLASSES[key] = cls
        globals()[key] = cls
    return _SELF_CLASSES[key]


# ---------------------------------------------------------------------------------------------
# generation
# ---------------------------------------------------------------------------------------------

def gen_states(rng, nested):
    """returns (state specs for the constructor, list of all state paths, leaves usable as initial)"""
    if not nested:
        n = rng.randint(2, 4)
        specs, paths = [], []
        for i in range(n):
            name = 'S%d' % i
            paths.append(name)
            specs.append(_state_dict(rng, name))
        return specs, paths
    specs, paths = [], []
    n = rng.randint(2, 4)
    has_compound = False
    for i in range(n):
        name = 'S%d' % i
        r = rng.random()
        if r < 0.35 or (i == n - 1 and not has_compound):
            has_compound = True
            if rng.random() < 0.45:
                regions = []
                for j in range(2):
                    rname = 'r%d' % j
                    kids = ['a', 'b'][:rng.randint(1, 2)]
                    regions.append({'name': rname, 'children': [_state_dict(rng, k) for k in kids], 'initial': kids[0]})
                    paths.append(SEP.join([name, rname]))
                    paths.extend(SEP.join([name, rname, k]) for k in kids)
                d = _state_dict(rng, name)
                d['parallel'] = regions
                specs.append(d)
                paths.append(name)
            else:
                kids = ['x', 'y', 'z'][:rng.randint(1, 3)]
                children = []
                for k in kids:
                    if rng.random() < 0.25:
                        gk = ['p', 'q'][:rng.randint(1, 2)]
                        cd = _state_dict(rng, k)
                        cd['children'] = []
                        for g in gk:
                            gd = _state_dict(rng, g)
                            if rng.random() < 0.35:         # one more level: a compound at depth 3
                                gd['children'] = [_state_dict(rng, 'u'), _state_dict(rng, 'v')]
                                gd['initial'] = 'u'
                                paths.extend(SEP.join([name, k, g, x]) for x in ('u', 'v'))
                            cd['children'].append(gd)
                        cd['initial'] = gk[0]
                        children.append(cd)
                        paths.append(SEP.join([name, k]))
                        paths.extend(SEP.join([name, k, g]) for g in gk)
                    else:
                        children.append(_state_dict(rng, k))
                        paths.append(SEP.join([name, k]))
                d = _state_dict(rng, name)
                d['children'] = children
                d['initial'] = kids[0]
                specs.append(d)
                paths.append(name)
        else:
            specs.append(_state_dict(rng, name))
            paths.append(name)
    return specs, paths


def add_locals(rng, specs, p_local):
    """transitions DECLARED INSIDE compound states (key 'transitions' of the state definition, names relative to that
    state); returns records {t: the transition dict, depth: nesting depth of the declaring state (1 = top level),
    src: global path of the source}"""
    out = []

    def walk(d, prefix, depth):
        kids = d.get('children')
        if kids:
            names = [k['name'] for k in kids]
            if rng.random() < p_local:
                for _ in range(rng.randint(1, 2)):
                    t = {'trigger': rng.choice(['e0', 'e0', 'l0']), 'source': rng.choice(names), 'dest': rng.choice(names)}
                    if rng.random() < 0.3:
                        t['before'] = [rng.choice(CBS)]
                    d.setdefault('transitions', []).append(t)
                    out.append({'t': t, 'depth': depth, 'src': SEP.join(prefix + [d['name'], t['source']])})
            for k in kids:
                walk(k, prefix + [d['name']], depth + 1)
        for r in d.get('parallel', []):
            walk(r, prefix + [d['name']], depth + 1)
    for d in specs:
        walk(d, [], 1)
    return out


def _state_dict(rng, name):
    d = {'name': name}
    if rng.random() < 0.3:
        d['on_enter'] = [rng.choice(CBS)]
    if rng.random() < 0.25:
        d['on_exit'] = [rng.choice(CBS)]
    if rng.random() < 0.1:
        d['final'] = True
    return d


def gen_case(rng, cls_name, tier):
    g, nested, locked, asy = FLAGS[cls_name]
    specs, paths = gen_states(rng, nested)
    events = ['e%d' % i for i in range(rng.randint(1, 3))]
    locs = add_locals(rng, specs, 0.45) if nested else []
    # NestedState.separator is a class attribute: with another separator the convenience methods of nested states are
    # FunctionWrapper chains (model.to_S1.x()) instead of partials
    sep = rng.choice(['_', '_', '_', '.', '/', u'\u21a6']) if nested else '_'
    if sep != SEP:
        paths = [q.replace(SEP, sep) for q in paths]
        for l in locs:
            l['src'] = l['src'].replace(SEP, sep)
    if any(l['t']['trigger'] == 'l0' for l in locs):
        events.append('l0')
    cbpool = CBS + (ACBS if asy else []) + (MODFNS if rng.random() < 0.3 else [])
    poke_p = rng.choice([0.0, 0.0, 0.0, 0.5])      # a quarter of the cases has cross-model re-entrant triggers
    trans = []
    for _ in range(rng.randint(2, 6)):
        t = {'trigger': rng.choice(events), 'source': rng.choice(paths + ['*'] if rng.random() < 0.1 else paths),
             'dest': rng.choice(paths + [None] if rng.random() < 0.1 else paths)}
        if rng.random() < 0.3:
            t['conditions'] = [rng.choice(CONDS)]
        if rng.random() < 0.15:
            t['unless'] = [rng.choice(CONDS)]
        for slot in ('before', 'after', 'prepare'):
            if rng.random() < 0.25:
                t[slot] = [rng.choice(cbpool)]
        trans.append(t)
    opts = {'send_event': rng.random() < 0.4, 'auto_transitions': rng.random() < 0.6,
            'ignore_invalid_triggers': rng.choice([None, None, True]),
            'queued': rng.choice([False, False, True, 'model'] if asy else [False, False, True]),
            'model_attribute': 'mode' if rng.random() < 0.12 else 'state',
            'name': rng.choice([None, 'mach'])}
    for slot in ('before_state_change', 'after_state_change', 'prepare_event', 'finalize_event', 'on_final'):
        if rng.random() < 0.25:
            opts[slot] = [rng.choice(cbpool)]
    if rng.random() < 0.15:
        opts['on_exception'] = [CBX]
    if g:
        opts['show_conditions'] = rng.random() < 0.5
        opts['show_state_attributes'] = rng.random() < 0.3
        opts['show_auto_transitions'] = rng.random() < 0.2
        opts['title'] = rng.choice(['State Machine', 'T'])
    pk = APOKE if asy else POKE
    if asy and opts['queued'] == 'model':
        poke_p = rng.choice([0.0, 0.6, 0.6])         # per-model queues: re-entrancy across models is the point
    if poke_p:
        placed = False
        for t in trans:
            if rng.random() < poke_p:
                t.setdefault(rng.choice(['before', 'after']), []).append(pk)
                placed = True
        for sp in specs:
            if rng.random() < poke_p / 2:
                sp.setdefault('on_enter', []).append(pk)
                placed = True
        if not placed:
            trans[0].setdefault('after', []).append(pk)
    nm = rng.randint(1, 3)
    if poke_p and rng.random() < 0.8:
        nm = rng.randint(2, 3)
    use_fwd = rng.random() < 0.2        # callbacks that fire events on ANOTHER machine (see forward_phase)
    if use_fwd:
        for _ in range(rng.randint(1, 2)):
            if rng.random() < 0.6:
                rng.choice(trans).setdefault(rng.choice(['before', 'after']), []).append('afwd' if asy else 'fwd')
            else:
                rng.choice(specs).setdefault('on_enter', []).append('afwd' if asy else 'fwd')
    if rng.random() < (0.4 if (asy and opts['queued'] is True) else 0.1):
        # queue an event for the peer behind the running one, then remove the peer
        nm = rng.randint(2, 3)
        rng.choice(trans).setdefault(rng.choice(['before', 'after']), []).append('aqrm' if asy else 'qrm')
    models = []
    for i in range(nm):
        kind = 'self' if (i == 0 and rng.random() < 0.3) else 'rec'
        models.append({'kind': kind, 'sched': {c: [rng.random() < 0.6 for _ in range(rng.randint(1, 3))] for c in CONDS},
                       'poke_ev': rng.choice(events), 'self_ev': rng.choice(events)})
    ctx_mode = 'none'
    model_ctx = [0] * nm
    if locked:
        ctx_mode = rng.choice(['default', 'rec', 'rec', 'rlock'])
        if ctx_mode == 'rec' and not g:
            # GraphMachine.add_model precedes LockedMachine's in the MRO and takes no `model_context`
            model_ctx = [rng.choice([0, 0, 1, 2]) for _ in range(nm)]
    if ctx_mode == 'rlock':
        # histories that rely on re-entrancy: a named callback takes the guard again
        for _ in range(rng.randint(1, 2)):
            rng.choice(trans).setdefault(rng.choice(['before', 'after', 'prepare']), []).append('reenter')
        opts.setdefault('after_state_change', []).append('reenter')
    initial = rng.choice(paths)
    hl = rng.randint(0, 5 if tier == 'quick' else 7)
    hist = [gen_item(rng, nm, events, paths, opts, prefix=True) for _ in range(hl)]
    if opts['queued'] is False and rng.random() < 0.3:
        # mid-event snapshots (queues stay empty: the machine is not queued): a `snap` hook somewhere, and for the
        # async classes a slow callback plus history items during which the harness pickles concurrently
        def all_states(lst):
            for d in lst:
                yield d
                for k in ('children', 'parallel'):
                    for x in all_states(d.get(k, [])):
                        yield x
        sds = list(all_states(specs))
        if locs and rng.random() < 0.8:
            # a snapshot from a callback of a locally declared transition, the deeper the declaring state the better,
            # and a history that gets a model there
            opts['auto_transitions'] = True
            for l in sorted(locs, key=lambda l: -l['depth'])[:rng.randint(1, 2)]:
                l['t'].setdefault(rng.choice(['before', 'prepare', 'after']), []).append('snap')
                mi = rng.randrange(3)
                at = rng.randint(0, len(hist))
                hist[at:at] = [['trigger', mi, 'to_' + l['src'], False], ['trigger', mi, l['t']['trigger'], False]]
                hl += 2
        for _ in range(rng.randint(1, 2)):
            r = rng.random()
            if r < 0.35:
                opts.setdefault(rng.choice(['after_state_change', 'before_state_change', 'prepare_event', 'finalize_event']), []).append('snap')
            elif r < 0.7:
                rng.choice(sds).setdefault(rng.choice(['on_enter', 'on_enter', 'on_exit']), []).append('snap')
            else:
                rng.choice(trans).setdefault(rng.choice(['before', 'after', 'prepare']), []).append('snap')
        if asy:
            for _ in range(rng.randint(1, 2)):
                if rng.random() < 0.5:
                    rng.choice(sds).setdefault('on_enter', []).append('aslow')
                else:
                    rng.choice(trans).setdefault(rng.choice(['before', 'after']), []).append('aslow')
            for i in range(len(hist)):
                if hist[i][0] == 'trigger' and rng.random() < 0.6:
                    hist[i] = ['concurrent', hist[i][1], hist[i][2]]
            if not any(h[0] == 'concurrent' for h in hist):
                hist.append(['concurrent', rng.randrange(3), rng.choice(events)])
                hl += 1
    # the number of models may change through add_model items; continuation items pick models modulo the count
    conts = {}
    for p in range(hl + 1):
        cl = rng.randint(1, 5)
        c = [gen_item(rng, nm, events, paths, opts, prefix=False) for _ in range(cl)]
        if rng.random() < 0.35:
            c.append(['remove_model', rng.randrange(3)])
        conts[str(p)] = c
    roots, gens = {}, {}
    for p in range(hl + 1):
        r = rng.random()
        if r < 0.45:
            roots[str(p)] = [rng.choice(['model', 'model', 'models', 'model+machine']), rng.randrange(3)]
        gens[str(p)] = rng.choice([1, 1, 1, 2, 2, 3])
    fwd_at = {}
    if use_fwd:
        fwd_at[str(rng.randrange(hl + 1))] = 'sibling'
        if rng.random() < 0.5:
            fwd_at[str(hl)] = 'original'
    return {'sep': sep, 'fwd_at': fwd_at, 'roots': roots, 'gens': gens, 'cls': cls_name, 'via_factory': rng.random() < 0.4, 'states': specs, 'paths': paths, 'initial': initial,
            'events': events, 'transitions': trans, 'opts': opts, 'models': models, 'ctx_mode': ctx_mode,
            'model_ctx': model_ctx, 'history': hist, 'conts': conts, 'protocol': rng.choice([2, 3, 4, 5]),
            'plain': rng.random() < 0.3, 'lockprobe': locked and ctx_mode in ('default', 'rlock') and rng.random() < (0.5 if tier == 'quick' else 0.7)}


def gen_item(rng, nm, events, paths, opts, prefix):
    r = rng.random()
    mi = rng.randrange(3)
    if r < 0.62:
        return ['trigger', mi, rng.choice(events), rng.random() < 0.3]
    if r < 0.74 and opts['auto_transitions']:
        return ['trigger', mi, 'to_' + rng.choice(paths), False]
    if r < 0.80:
        return ['may', mi, rng.choice(events)]
    if r < 0.87:
        return ['add_state', 'N%d' % rng.randrange(3)]
    if r < 0.94:
        return ['add_transition', rng.choice(events + ['x0']), rng.choice(paths), rng.choice(paths)]
    if prefix and r < 0.97:
        return ['add_model']
    if prefix:
        return ['remove_model', mi]
    # continuations: membership operations on the (restored) machine
    r = rng.random()
    if r < 0.35:
        return ['readd', mi]                 # add_model of a model that is registered already: no effect
    if r < 0.55:
        return ['dispatch', rng.choice(events)]
    if r < 0.70:
        return ['add_model']
    if r < 0.85:
        return ['remove_model', mi]
    return ['trigger', mi, rng.choice(events), False]


# ---------------------------------------------------------------------------------------------
# realisation on the real classes
# ---------------------------------------------------------------------------------------------

_LOOP = None


def call(fn, *a, **kw):
    global _LOOP
    r = fn(*a, **kw)
    if inspect.isawaitable(r):
        if _LOOP is None or _LOOP.is_closed():
            _LOOP = asyncio.new_event_loop()
        try:
            r = _LOOP.run_until_complete(r)
        finally:
            # quiescent point: an exception of one branch of a `gather` (async dispatch) returns at once and leaves the
            # other branches pending — let them finish before anything else is observed or pickled
            for _ in range(10):
                pending = [t for t in asyncio.all_tasks(_LOOP) if not t.done()]
                if not pending:
                    break
                _LOOP.run_until_complete(asyncio.gather(*pending, return_exceptions=True))
    return r


class Rig(object):
    """one real machine together with its models and context objects"""

    def __init__(self, machine, models, mctx, mdl_ctx):
        self.machine = machine
        self.models = models          # every model ever created for it, in creation order (index = `mi`)
        self.mctx = mctx              # user machine contexts (RecCtx), [] otherwise
        self.mdl_ctx = mdl_ctx        # per model index: list of RecCtx


def build(case):
    name = case['cls']
    g, nested, locked, asy = FLAGS[name]
    opts = dict(case['opts'])
    attr = opts['model_attribute']
    kinds = [m['kind'] for m in case['models']]
    use_self = 'self' in kinds
    cls = self_class(name, case['via_factory']) if use_self else get_class(name, case['via_factory'])
    kw = {k: v for k, v in opts.items() if v is not None or k == 'ignore_invalid_triggers'}
    if kw.get('name') is None:
        kw.pop('name', None)
    if g:
        kw['graph_engine'] = 'mermaid'
    mctx = []
    if locked and case['ctx_mode'] == 'rec':
        mctx = [RecCtx('M0')]
        kw['machine_context'] = list(mctx)
    if locked and case['ctx_mode'] == 'rlock':
        kw['machine_context'] = [RLockCtx()]
    objs = []
    for i, m in enumerate(case['models']):
        objs.append(None if m['kind'] == 'self' else RecModel('m%d' % i, m['sched'], attr))
    mdl_ctx = [[RecCtx('m%dc%d' % (i, j)) for j in range(n)] for i, n in enumerate(case['model_ctx'])]
    simple = not (locked and any(mdl_ctx))
    states = copy.deepcopy(case['states'])
    trans = copy.deepcopy(case['transitions'])
    if simple:
        machine = cls(model=[('self' if o is None else o) for o in objs], states=states, transitions=trans,
                      initial=case['initial'], **kw)
        if use_self:
            machine._rec_init('self', case['models'][kinds.index('self')]['sched'], attr)
    else:
        machine = cls(model=None, states=states, transitions=trans, initial=case['initial'], **kw)
        if use_self:
            machine._rec_init('self', case['models'][kinds.index('self')]['sched'], attr)
        for i, o in enumerate(objs):
            machine.add_model('self' if o is None else o, model_context=list(mdl_ctx[i]) if mdl_ctx[i] else None)
    models = [machine if o is None else o for o in objs]
    for i, m in enumerate(models):
        spec = case['models'][i]
        m.__dict__['peer'] = models[(i + 1) % len(models)] if len(models) > 1 else None
        m.__dict__['poke_ev'] = spec.get('poke_ev', 'e0')
        m.__dict__['self_ev'] = spec.get('self_ev', 'e0')
    return Rig(machine, models, mctx, mdl_ctx)


def resolve_trigger(m, name, sep):
    """model.<name>; with a custom separator the auto transition to a nested state is a chain: model.to_S1.x.p"""
    if sep != SEP and name.startswith('to_') and sep in name:
        segs = name[3:].split(sep)
        obj = getattr(m, 'to_' + segs[0])
        for seg in segs[1:]:
            obj = getattr(obj, seg)
        return obj
    return getattr(m, name)


def describe_exc(e, rig):
    d = ['exc', type(e).__name__]
    if isinstance(e, KeyError) and e.args and isinstance(e.args[0], int):
        d.append('id-of-model' if any(e.args[0] == id(m) for m in rig.models) else 'int')
    return d


def model_at(rig, mi):
    live = rig.machine.models
    if not live:
        return None
    return live[mi % len(live)]


def apply_item(case, rig, item):
    """apply one history item; returns a JSON-able observation"""
    mach = rig.machine
    kind = item[0]
    POKE_DEPTH[0] = 0
    POKE_BUDGET[0] = 3
    try:
        if kind == 'trigger':
            m = model_at(rig, item[1])
            if m is None:
                return ['skip']
            if item[3]:
                r = call(m.trigger, item[2], 7, k=1)
            else:
                r = call(resolve_trigger(m, item[2], case.get('sep', SEP)), 7, k=1)
            return ['ret', bool(r)]
        if kind == 'may':
            m = model_at(rig, item[1])
            if m is None:
                return ['skip']
            return ['ret', bool(call(getattr(m, 'may_' + item[2])))]
        if kind == 'add_state':
            call(mach.add_states, [item[1]])
            return ['ret', True]
        if kind == 'add_transition':
            call(mach.add_transition, item[1], item[2], item[3])
            return ['ret', True]
        if kind == 'remove_model':
            m = model_at(rig, item[1])
            if m is None or len(mach.models) <= 1:
                return ['skip']
            call(mach.remove_model, m)
            for o in rig.models:     # a removed model is no longer the machine's: nobody pokes it any more
                if o is not None and o.__dict__.get('peer') is m:
                    o.__dict__['peer'] = None
            if m is not None:
                m.__dict__['peer'] = None
            return ['ret', True]
        if kind == 'readd':
            m = model_at(rig, item[1])
            if m is None:
                return ['skip']
            call(mach.add_model, m)
            return ['ret', len(mach.models)]
        if kind == 'dispatch':
            return ['ret', bool(call(mach.dispatch, item[1], 7, k=1))]
        if kind == 'concurrent':
            m = model_at(rig, item[1])
            if m is None:
                return ['skip']
            return call(concurrent_event, rig, m, item[2])
        if kind == 'add_model':
            if len(rig.models) >= 5:
                return ['skip']
            nm = RecModel('m%d' % len(rig.models), case['models'][0]['sched'], case['opts']['model_attribute'])
            rig.models.append(nm)
            rig.mdl_ctx.append([])
            call(mach.add_model, nm)
            return ['ret', True]
    except Exception as e:     # noqa: BLE001 — exceptions are observations here
        return describe_exc(e, rig)
    raise common.MachineryError('bad history item %r' % (item,))


async def concurrent_event(rig, m, ev):
    """fire the event as a task; when it suspends in `aslow`, this coroutine (which is not processing anything) takes
    a snapshot of the machine, then lets the event finish"""
    GATE['gate'] = asyncio.Event()
    GATE['reached'] = asyncio.Event()
    try:
        fn = getattr(m, ev, None)
        if fn is None:
            return ['exc', 'AttributeError']
        t = asyncio.ensure_future(fn(7, k=1))
        w = asyncio.ensure_future(GATE['reached'].wait())
        await asyncio.wait([t, w], return_when=asyncio.FIRST_COMPLETED, timeout=30)
        if not t.done() and w.done() and SNAP['armed'] and len(SNAP['out']) < 2:
            take_snapshot(rig.machine, 'concurrent')
        GATE['gate'].set()
        if not w.done():
            w.cancel()
        try:
            return ['ret', bool(await t)]
        except Exception as e:   # noqa: BLE001
            return describe_exc(e, rig)
    finally:
        GATE['gate'] = None
        GATE['reached'] = None


def model_states(rig):
    attr = rig.machine.model_attribute
    return [canon_state(getattr(m, attr, None)) for m in rig.machine.models]


def recs(rig):
    return [list(m.__dict__.get('rec', [])) for m in rig.machine.models]


def ever_view(C, K):
    """state and recorded callbacks of every model the two rigs know in common, INCLUDING models that were removed
    from the machines meanwhile (a removed model must not be touched by the machine any more, on either side)"""
    vc, vk = [], []
    for c, k in zip(C.models, K.models):
        if c is None or k is None:
            continue
        for v, m in ((vc, c), (vk, k)):
            d = m.__dict__
            v.append([canon_state(d.get(d.get('attr_name', 'state'))), len(d.get('rec', []))])
    return vc, vk


def ever_recs(C, K, base=None):
    out = ([], [])
    for c, k in zip(C.models, K.models):
        if c is None or k is None:
            continue
        out[0].append(list(c.__dict__.get('rec', [])))
        out[1].append(list(k.__dict__.get('rec', [])))
    return out


def graph_styles(rig, model):
    """the styling dict of the model's graph (replaced by `reset_styling` whenever `_change_state` runs)"""
    if model is None:
        return None
    g = rig.machine.__dict__.get('model_graphs', {}).get(id(model))
    return None if g is None else g.custom_styles


def ctx_objects(rig):
    out = list(rig.mctx)
    for l in rig.mdl_ctx:
        out += l
    return out


def entered_since(rig, mark):
    """names of the recording contexts entered since sequence number `mark`, in order"""
    ev = []
    for c in ctx_objects(rig):
        for what, seq in c.log:
            if what == 'enter' and seq >= mark:
                ev.append((seq, c.name))
    return [n for _s, n in sorted(ev)]


# ---------------------------------------------------------------------------------------------
# (a) structural introspection
# ---------------------------------------------------------------------------------------------

def _names(l):
    return [x if isinstance(x, str) else getattr(x, '__name__', type(x).__name__) for x in l]


def _state_fp(st):
    nm = getattr(st, '_name', None)      # the plain name: NestedState.name is prefixed by the scope of an event in progress
    nm = st.name if nm is None else getattr(nm, 'name', nm)
    d = {'name': nm, 'on_enter': _names(st.on_enter), 'on_exit': _names(st.on_exit),
         'final': bool(getattr(st, 'final', False)), 'ignore': st.ignore_invalid_triggers, 'cls': type(st).__name__}
    if hasattr(st, 'states'):
        d['initial'] = st.initial
        d['children'] = [_state_fp(c) for c in st.states.values()]
        d['events'] = [_event_fp(e) for e in st.events.values()]
    return d


def _event_fp(ev):
    out = {'name': ev.name, 'cls': type(ev).__name__, 'transitions': []}
    for src, ts in ev.transitions.items():
        for t in ts:
            out['transitions'].append([src, t.source, t.dest, [[c.func if isinstance(c.func, str) else repr(c.func), c.target] for c in t.conditions],
                                       _names(t.prepare), _names(t.before), _names(t.after), type(t).__name__])
    return out


def fingerprint(rig):
    m = rig.machine
    fp = {'cls': type(m).__name__, 'mro': [c.__name__ for c in type(m).__mro__]}
    stack = m.__dict__.get('_stack')     # the global scope, also while an event is inside a nested one
    top_states, top_events = (stack[0][1], stack[0][2]) if stack else (m.states, m.events)
    fp['states'] = [_state_fp(s) for s in top_states.values()]
    fp['events'] = [_event_fp(e) for e in top_events.values()]
    o = {}
    for k in ('send_event', 'ignore_invalid_triggers', 'model_attribute', 'name', 'model_override', 'auto_transitions',
              'title', 'show_conditions', 'show_state_attributes', 'auto_transitions_markup'):
        o[k] = m.__dict__.get(k, '<absent>')
    o['has_queue'] = m.has_queue
    o['initial'] = m._initial
    for k in ('before_state_change', 'after_state_change', 'prepare_event', 'finalize_event', 'on_exception', 'on_final'):
        o[k] = _names(getattr(m, k))
    if 'graph_cls' in m.__dict__:
        o['graph_cls'] = m.__dict__['graph_cls'].__name__
    if 'machine_context' in m.__dict__:
        def ctx_fp(c):
            return [type(c).__name__, getattr(c, 'name', ''), type(getattr(c, 'lock', None)).__name__,
                    sorted(k for k in getattr(c, '__dict__', {}) if k not in ('log',))]
        o['machine_context'] = [ctx_fp(c) for c in m.__dict__['machine_context']]
        o['model_contexts'] = [[ctx_fp(c) for c in l] for l in m.__dict__.get('model_context_map', {}).values()]
    fp['opts'] = o
    # the copy owns the same instance attributes as the original (an attribute missing from the copy's __dict__ silently
    # falls back to a class attribute shared by every instance)
    fp['instance_attributes'] = sorted(k for k in m.__dict__ if k not in ('rec', 'tag', 'sched', 'cnt', 'attr_name', 'peer',
                                                                       'poke_ev', 'self_ev'))
    attr = m.model_attribute
    mods = []
    names = [e for e in top_events]
    for mod in m.models:
        peer = mod.__dict__.get('peer')
        d = {'self': mod is m, 'tag': mod.__dict__.get('tag'), 'state': canon_state(getattr(mod, attr, None)),
             'peer': None if peer is None else peer.__dict__.get('tag'),
             'poke': [mod.__dict__.get('poke_ev'), mod.__dict__.get('self_ev')],
             'sched': mod.__dict__.get('sched'), 'cnt': dict(mod.__dict__.get('cnt', {}))}
        d['attrs'] = sorted(n for n in set(names + ['may_' + e for e in names] + ['trigger', 'may_trigger', 'get_graph'])
                            if n in mod.__dict__)
        d['is_to'] = sorted(k for k in mod.__dict__ if k.startswith('is_') or k.startswith('to_'))
        mods.append(d)
    fp['models'] = mods
    if hasattr(m, 'get_markup_config'):
        # (called on the class: introspection must not take the machine's locks)
        mk = copy.deepcopy(type(m).get_markup_config(m))
        mk.pop('models', None)
        fp['markup'] = json.loads(json.dumps(mk, default=str))
    return json.loads(json.dumps(fp, default=str))


def diff_paths(a, b, path=''):
    """first few differing paths of two JSON-like values"""
    out = []
    if type(a) != type(b):
        return ['%s: %r != %r' % (path, a, b)]
    if isinstance(a, dict):
        for k in sorted(set(a) | set(b)):
            if k not in a or k not in b:
                out.append('%s.%s: %r != %r' % (path, k, a.get(k, '<absent>'), b.get(k, '<absent>')))
            else:
                out += diff_paths(a[k], b[k], path + '.' + str(k))
    elif isinstance(a, list):
        if len(a) != len(b):
            out.append('%s: len %d != %d: %r != %r' % (path, len(a), len(b), a, b))
        else:
            for i, (x, y) in enumerate(zip(a, b)):
                out += diff_paths(x, y, '%s[%d]' % (path, i))
    elif a != b:
        out.append('%s: %r != %r' % (path, a, b))
    return out[:6]


# ---------------------------------------------------------------------------------------------
# tables (the id-keyed side tables, translated to small naturals)
# ---------------------------------------------------------------------------------------------

class Numbering(object):
    """object ↦ natural: models 1.., machine contexts 10.., model contexts 20..; the copy's objects get
    +100 (the pickled object identity map); an integer key is translated through the id of the object it
    denotes on the copy's side first, then on the original's side (a stale key), else 900+"""

    def __init__(self):
        self.by_id = {}
        self.keep = []
        self.unknown = {}

    def add(self, obj, n):
        self.by_id[id(obj)] = n
        self.keep.append(obj)

    def num(self, obj):
        return self.key(id(obj))

    def key(self, i):
        if i in self.by_id:
            return self.by_id[i]
        if i not in self.unknown:
            self.unknown[i] = 900 + len(self.unknown)
        return self.unknown[i]


def interesting_objects(rig):
    """[(object, natural)] for the original side"""
    mach = rig.machine
    out = []
    for i, m in enumerate(rig.models):
        if m is not None:
            out.append((m, 1 + i))
    for j, c in enumerate(mach.__dict__.get('machine_context', [])):
        out.append((c, 10 + j))
    n = 20
    for l in rig.mdl_ctx:
        for c in l:
            out.append((c, n))
            n += 1
    return out


class StateIndex(object):
    def __init__(self):
        self.idx = {}

    def of(self, s):
        if s not in self.idx:
            self.idx[s] = len(self.idx)
        return self.idx[s]


def tables_of(rig, numb, sti):
    mach = rig.machine
    d = mach.__dict__
    attr = mach.model_attribute
    t = {'models': [numb.num(m) for m in mach.models],
         'mstate': [[numb.num(m), sti.of(canon_state(getattr(m, attr, None)))] for m in mach.models],
         'mctx': [numb.num(c) for c in d.get('machine_context', [])],
         'ctx': [], 'graphs': [], 'qdict': [],
         # IdentManager.current names the calling thread: it is inside an event of this (locked) machine
         'ident': [1 if getattr(d.get('_ident'), 'current', 0) == threading.get_ident() else 0]}
    if 'model_context_map' in d:
        t['ctx'] = [[numb.key(k), [numb.num(c) for c in v]] for k, v in d['model_context_map'].items()]
    if 'model_graphs' in d:
        for k, gr in d['model_graphs'].items():
            active = sorted(n for n, s in list(gr.custom_styles['node'].items()) if s == 'active')
            t['graphs'].append([numb.key(k), sti.of('|'.join(active)) + 1 if active else 0])
    q = d.get('_transition_queue_dict')
    if isinstance(q, dict):
        t['qdict'] = [[numb.key(k), [1] * len(v)] for k, v in q.items()]
    return t


def enc_tables(t):
    out = [len(t['models'])] + t['models']
    out += [len(t['mstate'])] + [x for e in t['mstate'] for x in e]
    out += [len(t['mctx'])] + t['mctx']
    out += [len(t['ctx'])] + [x for k, v in t['ctx'] for x in [k, len(v)] + v]
    out += [len(t['graphs'])] + [x for e in t['graphs'] for x in e]
    out += [len(t['qdict'])] + [x for k, v in t['qdict'] for x in [k, len(v)] + v]
    out += [t['ident'][0]]
    return out


def dec_tables(nums, pos):
    def nats():
        nonlocal pos
        n = nums[pos]
        r = nums[pos + 1:pos + 1 + n]
        pos += 1 + n
        return r

    def pairs():
        nonlocal pos
        n = nums[pos]
        pos += 1
        r = []
        for _ in range(n):
            r.append([nums[pos], nums[pos + 1]])
            pos += 2
        return r

    def tab():
        nonlocal pos
        n = nums[pos]
        pos += 1
        r = []
        for _ in range(n):
            k = nums[pos]
            ln = nums[pos + 1]
            r.append([k, nums[pos + 2:pos + 2 + ln]])
            pos += 2 + ln
        return r
    t = {'models': nats(), 'mstate': pairs(), 'mctx': nats(), 'ctx': tab(), 'graphs': pairs(), 'qdict': tab()}
    t['ident'] = [nums[pos]]
    pos += 1
    return t, pos


def dec_obs(nums, pos):
    n = nums[pos]
    pos += 1
    out = []
    for _ in range(n):
        k = nums[pos]
        if k == 0:
            ln = nums[pos + 1]
            cs = nums[pos + 2:pos + 2 + ln]
            out.append(['done', cs, nums[pos + 2 + ln], nums[pos + 3 + ln]])
            pos += 4 + ln
        elif k == 1:
            out.append(['blocked', nums[pos + 1]])
            pos += 2
        elif k == 2:
            out.append(['keyError', nums[pos + 1]])
            pos += 2
        elif k == 4:
            out.append(['members', nums[pos + 1]])
            pos += 2
        else:
            out.append(['regen'])
            pos += 1
    return out, pos


def parse_answer(ans):
    if not ans.startswith('R '):
        raise common.MachineryError('driver answered %r to a c15 request' % ans[:80])
    toks = ans.split()
    i_o = toks.index('O')
    i_f = toks.index('F')
    r, _ = dec_tables([int(x) for x in toks[1:i_o]], 0)
    o, _ = dec_obs([int(x) for x in toks[i_o + 1:i_f]], 0)
    f, _ = dec_tables([int(x) for x in toks[i_f + 1:]], 0)
    return r, o, f


# ---------------------------------------------------------------------------------------------
# lock probes (real threads; only with the default PicklableLock)
# ---------------------------------------------------------------------------------------------

PROBE_WAIT = 20.0     # generous: a loaded machine must not turn into a verdict; a real deadlock ends as exit 2
PROBES_OFF = False    # set after the first crossing lock in this process: every further probe would wait again


def _in_thread(fn, wait):
    res = {}

    def run():
        try:
            res['r'] = fn()
        except Exception as e:   # noqa: BLE001
            res['e'] = type(e).__name__
    th = threading.Thread(target=run, daemon=True)
    th.start()
    th.join(wait)
    return th, res


def first_lock(rig):
    for c in rig.machine.__dict__.get('machine_context', []):
        if hasattr(c, 'lock'):
            return c
    return None


def probe_event(rig):
    """an event call that does not depend on the configuration: an unknown-to-the-state trigger still takes
    the contexts before anything else"""
    m = rig.machine.models[0]
    name = next(iter(rig.machine.events))
    return lambda: getattr(m, name)(7, k=1)


# ---------------------------------------------------------------------------------------------
# one case
# ---------------------------------------------------------------------------------------------

class Fail(Exception):
    pass


def machine_of(model):
    """recover the machine from one of its models: through the partials the machine bound on it"""
    import functools
    from transitions.core import Machine, Event

    def scan(x, depth):
        if isinstance(x, Machine):
            return x
        if isinstance(x, Event):
            return x.machine
        if depth > 8:
            return None
        if isinstance(x, functools.partial):
            for y in (x.func,) + tuple(x.args):
                r = scan(y, depth + 1)
                if r is not None:
                    return r
            return None
        owner = getattr(x, '__self__', None)
        return scan(owner, depth + 1) if owner is not None else None
    if isinstance(model, Machine):
        return model
    for v in list(model.__dict__.values()):
        r = scan(v, 0)
        if r is not None:
            return r
    return None


def root_payload(rig, root):
    """what is handed to pickle.dumps: the machine, or — pickling THROUGH a model — model i alone, the list of
    models starting at model i, or (model i, machine); the machine is then reached through the model's partials and
    its __setstate__ runs while that model is still an empty shell"""
    mach = rig.machine
    if not root or root[0] == 'machine' or not mach.models:
        return 'machine', mach
    i = root[1] % len(mach.models)
    m = mach.models[i]
    if root[0] == 'model':
        return 'model', m
    if root[0] == 'models':
        return 'models', list(mach.models[i:]) + list(mach.models[:i])
    return 'model+machine', (m, mach)


def machine_from_payload(form, P):
    if form == 'machine':
        return P
    if form == 'model':
        return machine_of(P)
    if form == 'models':
        return machine_of(P[0])
    return P[1]


def pickle_copy(case, rigA, root=None):
    """C = pickle.loads(pickle.dumps(<root>)); returns (rig of the copy, identity pairs [(orig obj, copy obj)])"""
    A = rigA.machine
    form, payload = root_payload(rigA, root)
    if case['plain']:
        P = pickle.loads(pickle.dumps(payload, protocol=case['protocol']))
        C = machine_from_payload(form, P)
        if C is None:
            raise Fail('the machine cannot be recovered from the unpickled model')
        # the identity map, positionally (models registered with the machine and machine contexts only)
        pairs = []
        posA = {id(m): i for i, m in enumerate(A.models)}
        cm = []
        for m in rigA.models:
            if m is not None and id(m) in posA:
                cm.append(C.models[posA[id(m)]])
                pairs.append((m, cm[-1]))
            else:
                cm.append(None)
        cmctx = C.__dict__.get('machine_context', [])
        for j, c in enumerate(A.__dict__.get('machine_context', [])):
            pairs.append((c, cmctx[j]))
        mctx = [c for c in cmctx if isinstance(c, RecCtx)]
        # per-model contexts are not locatable positionally: plain cases have none (see gen_case / run_case)
        rigC = Rig(C, [m for m in cm], mctx, [[] for _ in rigA.mdl_ctx])
        return rigC, pairs
    objs = [o for o, _n in interesting_objects(rigA) if o is not None]
    P, C, cobjs = pickle.loads(pickle.dumps((payload, A, objs), protocol=case['protocol']))
    via = machine_from_payload(form, P)
    if via is not None and via is not C:
        raise Fail('the machine reached through the unpickled model is not the unpickled machine')
    pairs = list(zip(objs, cobjs))
    mp = {id(o): c for o, c in pairs}
    rigC = Rig(C, [None if m is None else mp[id(m)] for m in rigA.models], [mp[id(c)] for c in rigA.mctx],
               [[mp[id(c)] for c in l] for l in rigA.mdl_ctx])
    return rigC, pairs


def kind_of(case):
    g, nested, locked, asy = FLAGS[case['cls']]
    return [g, locked, nested, 1 if (asy and case['opts']['queued'] == 'model') else 0, asy]


def known_signature(case, clause, detail=''):
    """no open finding for snapshots of a machine at rest (mid-event snapshots: see midevent_signature): every failing clause is a violation (the two former findings — locked graph classes,
    async queued='model' — were repaired in /repo; their witnesses live in corpus/C15/ as regression cases)"""
    return None


def forward_phase(case, p, C, K, TC, TK, what, fail, stats):
    """events on the copy C whose callbacks (`fwd`/`afwd`) fire events on models of another machine TC (another restored copy,
    or the original); the same on the un-pickled control K with target TK; everything observable must agree"""
    items = [it for it in case['conts'].get(str(p), []) if it[0] == 'trigger'][:3]
    evs = case['events']
    fixed = [list(x.machine.models) for x in (C, K, TC, TK)]
    bases = [[len(m.__dict__.get('rec', [])) for m in ms] for ms in fixed]
    try:
        for i, it in enumerate(items):
            stats['forwarded'] = stats.get('forwarded', 0) + 1
            FORWARD['ev'] = evs[i % len(evs)]
            FORWARD['target'] = model_at(TC, it[1] + 1)
            oc = apply_item(case, C, it)
            FORWARD['target'] = model_at(TK, it[1] + 1)
            ok_ = apply_item(case, K, it)
            FORWARD['target'] = None
            if oc != ok_ or model_states(C) != model_states(K) or model_states(TC) != model_states(TK):
                fail('monitor', 'cross-machine', 'prefix %d forwarding to %s, step %d %r (target event %s): copy %r %r target %r; '
                     'control %r %r target %r' % (p, what, i, it, FORWARD['ev'], oc, model_states(C), model_states(TC),
                                                  ok_, model_states(K), model_states(TK)))
                return
    finally:
        FORWARD['target'] = None
    after = [[m.__dict__.get('rec', [])[b:] for m, b in zip(ms, bs)] for ms, bs in zip(fixed, bases)]
    if after[0] != after[1] or after[2] != after[3]:
        fail('monitor', 'cross-machine', 'prefix %d forwarding to %s: callbacks seen by copy/target %r / %r, by the controls %r / %r'
             % (p, what, after[0], after[2], after[1], after[3]))


def rig_of_copy(mach):
    """a rig for a machine obtained by unpickling only: recording contexts are found in its own tables"""
    mctx = [c for c in mach.__dict__.get('machine_context', []) if isinstance(c, RecCtx)]
    seen = set(id(c) for c in mctx)
    extra = []
    for l in mach.__dict__.get('model_context_map', {}).values():
        for c in l:
            if isinstance(c, RecCtx) and id(c) not in seen:
                seen.add(id(c))
                extra.append(c)
    return Rig(mach, list(mach.models), mctx, [extra])


def judge_midevent(case, p, sn, fail, stats, reqs=None):
    """a snapshot taken while an event was being processed (item p-1 of the history, queues empty): it must be
    picklable, structurally the machine as it was at that instant, and react like a machine at rest with the same
    configuration and the same model states (the unfinished part of the event lives on the call stack, not in the
    machine)"""
    tag = 'prefix %d, snapshot taken mid-event (%s) during %r' % (p, sn['where'], case['history'][p - 1])
    if 'error' in sn:
        fail('monitor', 'not-picklable-mid-event', '%s: %s' % (tag, sn['error']))
        return
    try:
        cmach, cobjs = pickle.loads(sn['blob'])
        C = rig_of_copy(cmach)
    except Exception as e:   # noqa: BLE001
        fail('monitor', 'not-picklable-mid-event', '%s: loads: %s: %s' % (tag, type(e).__name__, e))
        return
    cm = C.machine
    if reqs is not None:
        numb, rho = sn['numb'], []
        for o, c in zip(sn['objs'], cobjs):
            numb.add(c, numb.by_id[id(o)] + 100)
            rho.append([numb.by_id[id(o)], numb.by_id[id(o)] + 100])
        tabC = tables_of(C, numb, sn['sti'])
        nums = [1] + kind_of(case) + enc_tables(sn['tab']) + [len(rho)] + [x for e in rho for x in e] + [0, 0, 0]
        stats['midevent_lean'] = stats.get('midevent_lean', 0) + 1
        reqs.append({'p': p, 'nums': nums, 'R': tabC, 'O': [], 'F': tabC, 'recctx': [], 'midevent': sn['where']})
    scope_left = bool(cm.__dict__.get('_stack')) or any(
        getattr(st, '_scope', None) for st in iter_states(cm))
    ident_left = getattr(cm.__dict__.get('_ident'), 'current', 0) != 0
    fpC = fingerprint(C)
    if fpC != sn['fp'] or recs(C) != sn['recs']:
        fail('monitor', 'structure-mid-event', '%s: copy differs from the original at that instant: %s'
             % (tag, diff_paths(sn['fp'], fpC)), midevent_signature(case, scope_left, ident_left, 'structure'))
        if any(fpC['opts'].get(k) != sn['fp']['opts'].get(k) for k in ('machine_context', 'model_contexts')):
            return      # other kinds of locks than the original's: driving this copy may deadlock
    # a control at rest in the same model states
    try:
        K = build(case)
        for it in case['history'][:p - 1]:
            apply_item(case, K, it)
        if len(K.machine.models) != len(cm.models):
            stats['midevent_skipped'] = stats.get('midevent_skipped', 0) + 1
            return
        for mk, mc, raw in zip(K.machine.models, cm.models, sn['raw']):
            call(K.machine.set_state, copy.deepcopy(raw), mk)
            mk.__dict__['cnt'] = dict(mc.__dict__.get('cnt', {}))
    except Exception:    # noqa: BLE001 — the state cannot be forced on a fresh machine: no control, no verdict
        stats['midevent_skipped'] = stats.get('midevent_skipped', 0) + 1
        return
    if model_states(K) != model_states(C):
        stats['midevent_skipped'] = stats.get('midevent_skipped', 0) + 1
        return
    Cms, Kms = list(C.machine.models), list(K.machine.models)      # fixed: models may be removed on the way
    baseC = [len(m.__dict__.get('rec', [])) for m in Cms]
    baseK = [len(m.__dict__.get('rec', [])) for m in Kms]
    cont = [it for it in case['conts'].get(str(p), case['conts'].get('0', [])) if it[0] != 'remove_model']
    for i, it in enumerate(cont):
        mark = next(SEQ)
        MODREC.clear()
        oc = apply_item(case, C, it)
        rc = list(MODREC)
        entC = entered_since(C, mark)
        mark = next(SEQ)
        MODREC.clear()
        ok_ = apply_item(case, K, it)
        entK = entered_since(K, mark)
        if oc != ok_ or model_states(C) != model_states(K) or rc != list(MODREC):
            fail('monitor', 'mid-event-continuation', '%s: continuation step %d %r: copy %r %r, control at rest %r %r'
                 % (tag, i, it, oc, model_states(C), ok_, model_states(K)),
                 midevent_signature(case, scope_left, ident_left, 'continuation'))
            return
        if entC != entK:
            fail('monitor', 'mid-event-contexts', '%s: continuation step %d %r: copy entered %r, control at rest %r'
                 % (tag, i, it, entC, entK), midevent_signature(case, scope_left, ident_left, 'contexts'))
            return
    rC = [m.__dict__.get('rec', [])[b:] for m, b in zip(Cms, baseC)]
    rK = [m.__dict__.get('rec', [])[b:] for m, b in zip(Kms, baseK)]
    if rC != rK:
        fail('monitor', 'mid-event-recordings', '%s: callbacks seen by the copy %r, by the control at rest %r' % (tag, rC, rK),
             midevent_signature(case, scope_left, ident_left, 'continuation'))


def all_event_names(mach):
    """events declared at the root or inside any (nested) state"""
    stack = mach.__dict__.get('_stack')
    names = set(stack[0][2] if stack else mach.events)
    for st in iter_states(mach):
        names.update(getattr(st, 'events', {}))
    return names


def iter_states(mach):
    def walk(d):
        for st in d.values():
            yield st
            for x in walk(getattr(st, 'states', {})):
                yield x
    root = mach.__dict__.get('_stack')
    top = root[0][1] if root else mach.states
    return walk(top)


def midevent_signature(case, scope_left, ident_left, clause):
    """no open finding (the scope of the event in progress and IdentManager.current used to be pickled; repaired in
    /repo b080617, cf88f30; witnesses in corpus/C15/): every failing clause is a violation"""
    return None


def run_case(case, want_requests=True):
    """sets the state-name separator of the case on the state class for the duration of the case"""
    from transitions.extensions.nesting import NestedState
    old = NestedState.separator
    NestedState.separator = case.get('sep', SEP)
    try:
        return run_case_inner(case, want_requests)
    finally:
        NestedState.separator = old


def run_case_inner(case, want_requests=True):
    """returns dict(failures=[(kind, clause, what, signature)], requests=[(key, nats, expect)], stats)"""
    fails = []
    reqs = []
    stats = {'snapshots': 0, 'cont_steps': 0, 'moved': 0, 'exceptions': 0, 'lockprobes': 0, 'lean_steps': 0}
    if case['plain']:
        case = dict(case)
        case['model_ctx'] = [0] * len(case['model_ctx'])

    def fail(kind, clause, what, sig=None):
        fails.append((kind, clause, what, sig))

    try:
        A = build(case)
        B = build(case)
    except Exception as e:       # noqa: BLE001 — a configuration the class rejects is not a C15 case
        return {'failures': [], 'requests': [], 'stats': stats, 'rejected': '%s: %s' % (type(e).__name__, e)}
    hist = case['history']
    copies = []       # (prefix, rigC, fingerprint after its continuation, recs, tables)
    for p in range(len(hist) + 1):
        if p > 0:
            MODREC.clear()
            SNAP['out'] = []
            SNAP['protocol'] = case['protocol']
            SNAP['armed'] = case['opts']['queued'] is False
            try:
                oa = apply_item(case, A, hist[p - 1])
            finally:
                SNAP['armed'] = False
            snaps = SNAP['out']
            SNAP['out'] = []
            ra = list(MODREC)
            MODREC.clear()
            ob = apply_item(case, B, hist[p - 1])
            rb = list(MODREC)
            for sn in snaps:
                stats['midevent_' + sn['where']] = stats.get('midevent_' + sn['where'], 0) + 1
                judge_midevent(case, p, sn, fail, stats, reqs if want_requests else None)
            if oa != ob or ra != rb or model_states(A) != model_states(B):
                # A has been pickled p times, B never: dumps must not disturb the original
                fail('monitor', 'dumps-disturbs-original', 'prefix %d item %r: pickled original %r %r, control %r %r'
                     % (p, hist[p - 1], oa, model_states(A), ob, model_states(B)))
                break
        if str(p) not in case['conts']:
            continue
        stats['snapshots'] += 1
        fpA = fingerprint(A)
        recA = recs(A)
        numb = Numbering()
        sti = StateIndex()
        for o, n in interesting_objects(A):
            numb.add(o, n)
        tabA = tables_of(A, numb, sti)
        root = case.get('roots', {}).get(str(p))
        gens = max(1, int(case.get('gens', {}).get(str(p), 1)))
        stats['gen%d' % min(gens, 3)] = stats.get('gen%d' % min(gens, 3), 0) + 1
        stats['root_' + (root[0] if root else 'machine')] = stats.get('root_' + (root[0] if root else 'machine'), 0) + 1
        try:
            # a copy is itself a machine in a reachable state: copy-of-copy chains are judged like first copies
            src = A
            for _g in range(gens - 1):
                mid, prs = pickle_copy(case, src, root)
                for o, c in prs:
                    if c is not None:
                        numb.add(c, numb.by_id[id(o)] + 100)
                src = mid
            tabSrc = tabA if src is A else tables_of(src, numb, sti)
            C, pairs = pickle_copy(case, src, root)
        except Exception as e:   # noqa: BLE001
            fail('monitor', 'not-picklable', 'prefix %d (root %r, generation %d): %s: %s' % (p, root, gens, type(e).__name__, e))
            break
        rho = []
        for o, c in pairs:
            if c is not None:
                numb.add(c, numb.by_id[id(o)] + 100)
                rho.append([numb.by_id[id(o)], numb.by_id[id(o)] + 100])
        tabC0 = tables_of(C, numb, sti)
        qd = C.machine.__dict__.get('_transition_queue_dict')
        if isinstance(qd, dict) and len(set(id(v) for v in qd.values())) != len(qd):
            fail('monitor', 'shared-queue', 'prefix %d: models of the copy share one queue object in '
                 '_transition_queue_dict (%d models, %d queues)' % (p, len(qd), len(set(id(v) for v in qd.values()))))
        # (c) separation: no table of the copy is keyed by the identity of one of the original's objects
        foreign = {id(A.machine): 'original machine'}
        for o, _n in interesting_objects(A):
            foreign[id(o)] = 'original ' + type(o).__name__
        for o in C.models + ctx_objects(C) + [C.machine]:
            foreign.pop(id(o), None)
        stale = stale_identity_keys(C.machine, foreign)
        if stale:
            fail('monitor', 'stale-identity-key', 'prefix %d: the restored machine is keyed by identities of the '
                 'original: %s' % (p, stale[:4]))
        # the object graph is preserved up to identities (aliasing), against the machine that was pickled last
        if p == 0 or p == len(hist):       # (whole-graph walks: at the first and the last snapshot of a case)
            al = alias_mismatch(src.machine, C.machine)
            if al:
                fail('monitor', 'aliasing', 'prefix %d: %s' % (p, al))
            sh = shared_reachable(A.machine, C.machine)
            if sh:
                fail('monitor', 'shared-object', 'prefix %d: %s' % (p, sh))
        # (c) nothing mutable is shared
        shared = shared_objects(A, C)
        if shared:
            fail('monitor', 'shared-object', 'prefix %d: original and copy share %s' % (p, shared[:4]))
        # (a)
        fpC = fingerprint(C)
        if fpC != fpA:
            fail('monitor', 'structure', 'prefix %d: copy differs structurally: %s' % (p, diff_paths(fpA, fpC)))
            if any(fpC['opts'].get(k) != fpA['opts'].get(k) for k in ('machine_context', 'model_contexts')):
                # the copy's contexts are not the original's kind of lock: driving it may deadlock (a plain lock
                # where a re-entrant one was) — the structural verdict stands, no behavioural phases on this copy
                continue
        if recs(C) != recA:
            fail('monitor', 'recordings', 'prefix %d: recorded callback history not carried over' % p)
        # control in the same state, never pickled
        K = build(case)
        for it in hist[:p]:
            apply_item(case, K, it)
        if fingerprint(K) != fpA:
            # the replayed control is not in the snapshot state (non-deterministic configuration): skip
            stats['control_mismatch'] = stats.get('control_mismatch', 0) + 1
            continue
        # (b) continuation on C and K
        cont = case['conts'][str(p)]
        lean_events, lean_delta, lean_obs = [], [], []
        lean_ok = True
        diverged = False
        lean_tabs = tabC0
        Cms, Kms = list(C.machine.models), list(K.machine.models)  # fixed: models may be removed on the way
        baseC = [len(m.__dict__.get('rec', [])) for m in Cms]
        baseK = [len(m.__dict__.get('rec', [])) for m in Kms]
        everC0, everK0 = ever_recs(C, K)
        for i, it in enumerate(cont):
            stats['cont_steps'] += 1
            mk = model_at(K, it[1]) if it[0] in ('trigger', 'may', 'remove_model', 'readd') else None
            srcK = canon_state(getattr(mk, K.machine.model_attribute, None)) if mk is not None else None
            mC = model_at(C, it[1]) if it[0] in ('trigger', 'may', 'remove_model', 'readd') else None
            mark = next(SEQ)
            MODREC.clear()
            oc = apply_item(case, C, it)
            rc = list(MODREC)
            entC = entered_since(C, mark)
            mark = next(SEQ)
            MODREC.clear()
            stylesK = graph_styles(K, mk)
            lensK = {id(m): len(m.__dict__.get('rec', [])) for m in K.machine.models}
            pk0 = POKES[0]
            ok_ = apply_item(case, K, it)
            poked = POKES[0] != pk0
            stats['pokes'] = stats.get('pokes', 0) + (POKES[0] - pk0)
            swallowed = any(e[0] == CBX for m in K.machine.models
                            for e in m.__dict__.get('rec', [])[lensK.get(id(m), 0):])
            changedK = stylesK is not None and graph_styles(K, mk) is not stylesK
            entK = entered_since(K, mark)
            if ok_[0] == 'exc':
                stats['exceptions'] += 1
            sc, sk = model_states(C), model_states(K)
            evc, evk = ever_view(C, K)
            if [e[0] for e in evc] != [e[0] for e in evk]:
                sc, sk = sc + ['ever:'] + [e[0] for e in evc], sk + ['ever:'] + [e[0] for e in evk]
            stale_key = oc[:2] == ['exc', 'KeyError'] and oc[2:] == ['id-of-model'] and ok_[:2] != ['exc', 'KeyError']
            if oc != ok_ or sc != sk or rc != list(MODREC):
                clause, sig = 'continuation', None
                if stale_key:
                    clause = 'remove_model-keyerror-id' if it[0] == 'remove_model' else 'event-keyerror-id'
                    sig = known_signature(case, clause)
                fail('monitor', clause, 'prefix %d continuation step %d %r: copy %r %r, control %r %r'
                     % (p, i, it, oc, sc, ok_, sk), sig)
                if clause == 'event-keyerror-id' and lean_ok and it[0] == 'trigger':
                    ep = len(lean_events)
                    evn = sti.of('ev:' + it[2])
                    lean_events.append([0, ep, numb.num(mC), evn])
                    lean_obs.append(['keyError', numb.num(mC)])
                    lean_tabs = tables_of(C, numb, sti)
                diverged = True
                break
            if entC != entK:
                fail('monitor', 'contexts-entered', 'prefix %d continuation step %d %r: copy entered %r, control %r'
                     % (p, i, it, entC, entK), known_signature(case, 'contexts-entered'))
            # the table part of this step for the Lean model
            if poked:
                lean_ok = False          # re-entrant triggers touched other models' entries: not in the model
            if not lean_ok or oc[0] == 'skip' or it[0] == 'may':
                continue
            if it[0] == 'trigger' and it[2] not in all_event_names(K.machine):
                continue                 # unknown trigger name: rejected or ignored before any table is read
            if it[0] == 'trigger':
                dstK = canon_state(getattr(mk, K.machine.model_attribute, None))
                # `_change_state` ran: the state differs, or (graph classes) the graph was restyled (reflexive)
                moved = dstK != srcK or changedK
                if (ok_[0] == 'exc' or swallowed) and moved:
                    lean_ok = False      # an exception in the middle of a transition: tables not comparable
                    continue
                if ok_[0] == 'exc' and ok_[1] != 'MachineError':
                    continue             # rejected before the event exists (unknown trigger name): no table access
                stats['moved'] += 1 if moved else 0
                ep = len(lean_events)
                evn = sti.of('ev:' + it[2])
                lean_delta.append([ep, sti.of(srcK), evn] + ([1, sti.of(dstK)] if moved else [0]))
                lean_events.append([0, ep, numb.num(mC), evn])
                cmap = {c.name: c for c in ctx_objects(C)}
                lean_obs.append(['done', [numb.num(cmap[n]) for n in entC], 1 if moved else 0,
                                 sti.of(canon_state(getattr(mC, C.machine.model_attribute, None)))])
                lean_tabs = tables_of(C, numb, sti)
            elif it[0] in ('add_state', 'add_transition') and ok_[0] == 'ret':
                lean_events.append([1])
                lean_obs.append(['regen'])
                lean_tabs = tables_of(C, numb, sti)
            elif it[0] == 'readd' and ok_[0] == 'ret' and oc[0] == 'ret':
                lean_events.append([2, numb.num(mC)])
                lean_obs.append(['members', oc[1]])
                lean_tabs = tables_of(C, numb, sti)
            else:
                lean_ok = False          # membership changes and rejected configuration changes: not in the model
        # callback recordings from the snapshot point on
        rC = [m.__dict__.get('rec', [])[b:] for m, b in zip(Cms, baseC)]
        rK = [m.__dict__.get('rec', [])[b:] for m, b in zip(Kms, baseK)]
        if rC == rK:
            # … including the models that were removed on the way
            e1, e2 = ever_recs(C, K)
            rC = [r[len(b):] for r, b in zip(e1, everC0)]
            rK = [r[len(b):] for r, b in zip(e2, everK0)]
        if rC != rK and not diverged:
            fail('monitor', 'callback-recordings', 'prefix %d: callbacks seen by the copy %r, by the control %r' % (p, rC, rK))
        # (c) the original is untouched by what happened to the copy
        fpA2 = fingerprint(A)
        if fpA2 != fpA or recs(A) != recA:
            fail('monitor', 'copy-affects-original', 'prefix %d: original changed while the copy ran: %s'
                 % (p, diff_paths(fpA, fpA2)))
        tabA2 = tables_of(A, numb, sti)
        if tabA2 != tabA:
            fail('monitor', 'copy-affects-original', 'prefix %d: tables of the original changed while the copy ran' % p)
        # lock probes
        if case.get('lockprobe') and first_lock(A) is not None and first_lock(C) is not None and A.machine.events \
                and A.machine.models and C.machine.models and K.machine.models:
            stats['lockprobes'] += 1
            lock_probes(case, A, C, K, p, fail)
        # two restored machines (or a restored one and the original) active at once: callbacks of one fire events on the other
        mode = case.get('fwd_at', {}).get(str(p))
        if mode == 'sibling' and not diverged:
            try:
                C2, _prs = pickle_copy(case, src, root)
                K2 = build(case)
                for it in hist[:p]:
                    apply_item(case, K2, it)
                if fingerprint(K2) == fpA:
                    forward_phase(case, p, C, K, C2, K2, 'another copy', fail, stats)
                    sh = shared_reachable(C.machine, C2.machine)
                    if sh:
                        fail('monitor', 'shared-object', 'prefix %d: two copies of one machine: %s' % (p, sh))
            except common.MachineryError:
                raise
            except Exception as e:    # noqa: BLE001
                fail('monitor', 'cross-machine', 'prefix %d: forwarding between two copies: %s: %s' % (p, type(e).__name__, e))
        elif mode == 'original' and not diverged and p == len(hist):
            forward_phase(case, p, C, K, A, B, 'the original', fail, stats)
        copies.append((p, C, fingerprint(C), recs(C)))
        # correspondence with the Lean model
        if want_requests:
            g, nested, locked, asy = FLAGS[case['cls']]
            nums = [1] + kind_of(case) + enc_tables(tabSrc) + [len(rho)] + [x for e in rho for x in e] + [0]
            nums += [len(lean_delta)] + [x for e in lean_delta for x in e]
            nums += [len(lean_events)] + [x for e in lean_events for x in e]
            stats['lean_steps'] += len(lean_events)
            reqs.append({'p': p, 'nums': nums, 'R': tabC0, 'O': lean_obs, 'F': lean_tabs,
                         'graph_presence_only': bool(root and root[0] != 'machine'),
                         'recctx': sorted(numb.num(c) for c in ctx_objects(C))})
    # (c) the other direction: whatever the original did after a snapshot never shows on that copy
    for p, C, fpc, rc in copies:
        if fingerprint(C) != fpc or recs(C) != rc:
            fail('monitor', 'original-affects-copy', 'copy taken at prefix %d changed while the original ran on: %s'
                 % (p, diff_paths(fpc, fingerprint(C))))
    return {'failures': fails, 'requests': reqs, 'stats': stats}


def stale_identity_keys(mach, foreign):
    """generic discovery of identity-keyed tables: integers equal to id() of an object of ANOTHER machine (the
    original's models / contexts / the original machine itself) found in any container reachable from the restored
    machine's __dict__ through dicts, lists, tuples, sets, frozensets and deques.  `foreign`: {id: description}"""
    from collections import deque
    hits, seen = [], set()

    def walk(x, where, depth):
        if isinstance(x, bool):
            return
        if isinstance(x, int):
            if x in foreign:
                hits.append('%s holds id(%s)' % (where, foreign[x]))
            return
        if depth > 6 or id(x) in seen:
            return
        if isinstance(x, dict):
            seen.add(id(x))
            for k, v in list(x.items()):
                walk(k, where + ' (key)', depth + 1)
                walk(v, where, depth + 1)
        elif isinstance(x, (list, tuple, set, frozenset, deque)):
            seen.add(id(x))
            for v in list(x):
                walk(v, where, depth + 1)
    for name, val in list(mach.__dict__.items()):
        walk(val, name, 0)
    return sorted(set(hits))


def _atomic(x):
    import enum
    import types
    return x is None or isinstance(x, (bool, int, float, str, bytes, type, enum.Enum, types.FunctionType,
                                        types.BuiltinFunctionType, types.ModuleType))


def _children(x):
    """labelled successors of an object in the object graph, in a deterministic order; integer (identity) keys are
    labelled by position"""
    import functools
    from collections import deque
    out = []
    if isinstance(x, functools.partial):
        out.append(('func', x.func))
        out += [('arg%d' % i, v) for i, v in enumerate(x.args)]
        out += [('kw:' + k, v) for k, v in sorted((x.keywords or {}).items())]
        return out
    if inspect.ismethod(x):
        return [('self', x.__self__), ('name:' + x.__name__, None)]
    if isinstance(x, dict):
        for i, (k, v) in enumerate(list(x.items())):
            lab = 'k:' + k if isinstance(k, str) else '#%d' % i
            if not _atomic(k):
                out.append((lab + '/key', k))
            out.append((lab, v))
    elif isinstance(x, (list, tuple, deque)):
        out += [('[%d]' % i, v) for i, v in enumerate(list(x))]
    elif isinstance(x, (set, frozenset)):
        return out
    mod = type(x).__module__ or ''
    if mod.split('.')[0] in ('transitions', 'harness') or mod == __name__:
        d = getattr(x, '__dict__', None)
        if isinstance(d, dict):
            out += [('.' + k, v) for k, v in list(d.items())]
    return out


def alias_mismatch(a, c, limit=60000):
    """the object graph of the copy is the object graph of the original up to identities: whenever two attribute paths
    reach ONE object in the original they reach one object in the copy, and the other way round (paired walk; where the
    local structure differs — regenerated graphs, re-wrapped partials — the walk does not descend)"""
    amap, cmap, keep, out = {}, {}, [], []
    stack = [(a, c, 'machine')]
    n = 0
    while stack and n < limit:
        x, y, path = stack.pop()
        if _atomic(x) or _atomic(y):
            continue
        n += 1
        sx, sy = amap.get(id(x)), cmap.get(id(y))
        if sx is not None or sy is not None:
            if sx != sy:
                out.append('%s is %s in the original but %s in the copy' % (path, sx or 'an object of its own', sy or 'an object of its own'))
            continue
        amap[id(x)] = path
        cmap[id(y)] = path
        keep.append((x, y))
        kx, ky = _children(x), _children(y)
        if [l for l, _ in kx] != [l for l, _ in ky]:
            # different local structure: attributes of an instance are paired by name (their order is an accident of
            # __init__ / __setstate__); anything else is not descended into
            if not (hasattr(x, '__dict__') and type(x) is type(y)):
                continue
            dy = dict(ky)
            kx = sorted((l, u) for l, u in kx if l in dy and l.startswith('.'))
            ky = [(l, dy[l]) for l, _u in kx]
        for (l, u), (_l, v) in reversed(list(zip(kx, ky))):
            stack.append((u, v, path + '/' + l))
    return out[:5]


def reachable(root, limit=60000):
    seen, keep, stack = {}, [], [(root, 'machine')]
    while stack and len(seen) < limit:
        x, path = stack.pop()
        if _atomic(x) or id(x) in seen:
            continue
        seen[id(x)] = path
        keep.append(x)
        for l, u in _children(x):
            stack.append((u, path + '/' + l))
    return seen, keep


def shared_reachable(a, c):
    """no object (other than classes, functions, modules, immutable scalars) is reachable from both machines"""
    ra, ka = reachable(a)
    rc, kc = reachable(c)
    return sorted('%s is the same object as %s of the other machine' % (rc[i], ra[i]) for i in rc if i in ra)[:4]


def shared_objects(A, C):
    """mutable objects reachable from both machines (states, events, transitions, models, contexts, tables)"""
    def collect(rig):
        m = rig.machine
        ids = {}

        def add(o, what):
            ids[id(o)] = what

        def walk_state(s, path):
            add(s, 'state ' + path)
            add(s.on_enter, 'on_enter of ' + path)
            add(s.on_exit, 'on_exit of ' + path)
            for c in getattr(s, 'states', {}).values():
                walk_state(c, path + SEP + c.name)
            for e in getattr(s, 'events', {}).values():
                walk_event(e)

        def walk_event(e):
            add(e, 'event ' + e.name)
            add(e.transitions, 'transitions of ' + e.name)
            for ts in e.transitions.values():
                add(ts, 'transition list of ' + e.name)
                for t in ts:
                    add(t, 'transition of ' + e.name)
        add(m, 'machine')
        add(m.states, 'states dict')
        add(m.events, 'events dict')
        add(m.models, 'models list')
        for s in m.states.values():
            walk_state(s, s.name)
        for e in m.events.values():
            walk_event(e)
        for mod in m.models:
            add(mod, 'model')
            if 'rec' in mod.__dict__:
                add(mod.__dict__['rec'], 'rec list')
        for k in ('machine_context', 'model_context_map', 'model_graphs', '_transition_queue', '_transition_queue_dict'):
            if k in m.__dict__:
                add(m.__dict__[k], k)
        q = m.__dict__.get('_transition_queue_dict')
        if isinstance(q, dict):
            for v in q.values():
                add(v, 'per-model queue')
        for c in m.__dict__.get('machine_context', []):
            add(c, 'machine context')
            if hasattr(c, 'lock'):
                add(c.lock, 'threading lock')
        for l in m.__dict__.get('model_context_map', {}).values():
            add(l, 'context list')
            for c in l:
                add(c, 'context')
        return ids
    a, c = collect(A), collect(C)
    return sorted(set(a[i] for i in a if i in c))


def lock_probes(case, A, C, K, p, fail):
    global PROBES_OFF
    if PROBES_OFF:
        return
    POKE_BUDGET[0] = 0       # probe events run in other threads: no re-entrant pokes there
    la, lc, lk = first_lock(A), first_lock(C), first_lock(K)
    # a lock held on the original never blocks the copy …
    with la:
        th, res = _in_thread(probe_event(C), PROBE_WAIT)
        if th.is_alive():
            fail('monitor', 'held-lock-crosses', 'prefix %d: an event on the copy blocks while the ORIGINAL\'s lock is held' % p)
            PROBES_OFF = True
    th.join(PROBE_WAIT)
    if PROBES_OFF:
        return
    try:
        probe_event(K)()
    except Exception:     # noqa: BLE001
        pass
    # … nor the other way round (a read-only locked call on the original)
    with lc:
        first = next(iter(A.machine.states))
        th, res = _in_thread(lambda: A.machine.get_state(first), PROBE_WAIT)
        if th.is_alive():
            fail('monitor', 'held-lock-crosses', 'prefix %d: a call on the original blocks while the COPY\'s lock is held' % p)
            PROBES_OFF = True
    th.join(PROBE_WAIT)
    if PROBES_OFF:
        return
    # … while each machine still honours its own lock, like the un-pickled control does
    blocked = {}
    for nm, rig, lock in (('control', K, lk), ('copy', C, lc)):
        with lock:
            th, res = _in_thread(probe_event(rig), 0.12)
            blocked[nm] = th.is_alive()
        th.join(PROBE_WAIT)
        if th.is_alive():
            raise common.MachineryError('probe thread did not finish after the lock was released')
    if blocked['control'] and not blocked['copy']:
        fail('monitor', 'own-lock-not-honoured', 'prefix %d: an event on the copy runs although the copy\'s own machine '
             'lock is held by another thread (the un-pickled control waits)' % p, known_signature(case, 'own-lock-not-honoured'))


# ---------------------------------------------------------------------------------------------
# batch worker, check class
# ---------------------------------------------------------------------------------------------

def compare_model(case, req, ans):
    """correspondence: Lean model of the round trip and of the continuation vs the real copy"""
    r, o, f = parse_answer(ans)
    out = []
    recctx = set(req['recctx'])

    def norm(t):
        t = {k: [list(e) if isinstance(e, (list, tuple)) else e for e in v] for k, v in t.items()}
        if req.get('graph_presence_only'):
            # pickled through a model: the machine's __setstate__ ran while that model was an empty shell, its
            # regenerated graph has no active state yet (by design of _get_graph) — compare the keys only
            t['graphs'] = [[e[0], 1] for e in t['graphs']]
        return t
    if norm(r) != norm(req['R']):
        out.append('tables after unpickling: model %r, implementation %r' % (r, req['R']))
    obs_m = []
    mctx_c = set(req['R']['mctx'])
    for x, y in zip(o, req['O']):
        if x[0] == 'done' and y[0] == 'done':
            # the model gives the contexts entered AROUND the event (recording ones are observable); when the
            # IdentManager is not among them the engine's inner public calls re-enter `machine_context` one by
            # one (`_locked_method`) — engine detail, dropped from the comparison
            cs = [c for c in x[1] if c in recctx]
            rest = y[1][len(cs):]
            if y[1][:len(cs)] == cs and all(c in mctx_c for c in rest) and (not rest or not any(c in x[1] for c in rest)):
                obs_m.append(['done', y[1], x[2], x[3]])
            else:
                obs_m.append(['done', cs, x[2], x[3]])
        else:
            obs_m.append(x)
    if len(o) != len(req['O']) or obs_m != req['O']:
        out.append('continuation observations: model %r, implementation %r' % (obs_m, req['O']))
    elif norm(f) != norm(req['F']):
        out.append('tables after the continuation: model %r, implementation %r' % (f, req['F']))
    return out


def fp_case(case):
    return json.dumps(case, sort_keys=True, default=str)


def work(tier, seed, wid, cls_names, n):
    ex = runner.Exploration()
    ex.stats = {'class': {}, 'models': {}, 'self_model': {}, 'queued': {}, 'ctx_mode': {}, 'snapshots': {}, 'rejected': {},
                'steps': {}}
    pending = []
    for i in range(n):
        for cn in cls_names:
            rng = random.Random('C15:%d:%d:%d:%s' % (seed, wid, i, cn))
            case = gen_case(rng, cn, tier)
            res = run_case(case)
            ex.evaluations += 1
            if res.get('rejected'):
                k = res['rejected'].split(':')[0]
                ex.stats['rejected'][k] = ex.stats['rejected'].get(k, 0) + 1
                continue
            st = res['stats']
            for key, val in (('class', cn), ('models', str(len(case['models']))), ('queued', str(case['opts']['queued'])),
                             ('self_model', str(any(m['kind'] == 'self' for m in case['models']))),
                             ('ctx_mode', case['ctx_mode'])):
                ex.stats[key][val] = ex.stats[key].get(val, 0) + 1
            for key in ('snapshots', 'cont_steps', 'moved', 'exceptions', 'lockprobes', 'lean_steps', 'control_mismatch', 'pokes', 'forwarded',
                        'midevent_callback', 'midevent_concurrent', 'midevent_lean', 'midevent_skipped'):
                ex.stats['steps'][key] = ex.stats['steps'].get(key, 0) + st.get(key, 0)
            ex.traces_validated += st['snapshots']
            if st['snapshots'] >= 2 and st['moved'] >= 1:
                ex.nontrivial.add(hashlib.md5(fp_case(case).encode()).hexdigest())
            if len(ex.samples) < 1 and st['moved'] >= 2:
                ex.samples.append({'class': cn, 'models': len(case['models']), 'history': case['history'],
                                   'snapshots': st['snapshots'], 'states': case['paths']})
            for kind, clause, what, sig in res['failures']:
                ex.failures.append(runner.Failure(kind, clause, case, {'what': what}, sig))
            for rq in res['requests']:
                pending.append((case, rq))
    if pending:
        answers = common.batch_driver([('c15', rq['nums']) for _c, rq in pending])
        for (case, rq), ans in zip(pending, answers):
            if ans == 'bad-input':
                raise common.MachineryError('driver rejected a c15 request: %r' % rq['nums'][:60])
            for d in compare_model(case, rq, ans):
                ex.failures.append(runner.Failure('correspondence', 'tables', case, {'what': 'prefix %d: %s' % (rq['p'], d)}))
    # Failure objects hold the (JSON-able) case; make the exploration picklable for the pool
    return ex


def corpus_cases():
    """corpus/C15/*.json: witnesses of past findings; run through the same oracle and correspondence"""
    ex = runner.Exploration()
    ex.stats = {'corpus': {}}
    d = os.path.join(common.CORPUS, 'C15')
    if not os.path.isdir(d):
        return ex
    pending = []
    for fn in sorted(os.listdir(d)):
        if not fn.endswith('.json'):
            continue
        with open(os.path.join(d, fn)) as fh:
            case = json.load(fh)['case']
        res = run_case(case)
        ex.evaluations += 1
        ex.stats['corpus'][fn] = 1
        if res.get('rejected'):
            raise common.MachineryError('corpus case %s rejected: %s' % (fn, res['rejected']))
        ex.traces_validated += res['stats']['snapshots']
        for kind, clause, what, sig in res['failures']:
            ex.failures.append(runner.Failure(kind, clause, case, {'what': what, 'corpus': fn}, sig))
        for rq in res['requests']:
            pending.append((case, rq))
    if pending:
        answers = common.batch_driver([('c15', rq['nums']) for _c, rq in pending])
        for (case, rq), ans in zip(pending, answers):
            for dd in compare_model(case, rq, ans):
                ex.failures.append(runner.Failure('correspondence', 'tables', case, {'what': 'prefix %d: %s' % (rq['p'], dd)}))
    return ex


def shrink_steps(case):
    h = case['history']
    def shifted(d, i):
        out = {}
        for k, v in d.items():
            q = int(k)
            if q <= i:
                out[str(q)] = v
            elif q > i + 1:
                out[str(q - 1)] = v
        return out
    for i in range(len(h) - 1, -1, -1):
        c = copy.deepcopy(case)
        del c['history'][i]
        for key in ('conts', 'roots', 'gens'):
            c[key] = shifted(case.get(key, {}), i)
        yield c
    for k, g in sorted(case.get('gens', {}).items()):
        if g > 1:
            c = copy.deepcopy(case)
            c['gens'][k] = g - 1
            yield c
    for k in sorted(case.get('roots', {})):
        c = copy.deepcopy(case)
        del c['roots'][k]
        yield c
    for k in sorted(case['conts']):
        if len(case['conts']) > 1:
            c = copy.deepcopy(case)
            del c['conts'][k]
            yield c
    for k, v in case['conts'].items():
        for i in range(len(v) - 1, -1, -1):
            if len(v) > 1:
                c = copy.deepcopy(case)
                del c['conts'][k][i]
                yield c
    if len(case['models']) > 1:
        c = copy.deepcopy(case)
        c['models'].pop()
        c['model_ctx'].pop()
        yield c
    for i in range(len(case['transitions']) - 1, -1, -1):
        if len(case['transitions']) > 1:
            c = copy.deepcopy(case)
            del c['transitions'][i]
            yield c
    for i, t in enumerate(case['transitions']):
        for slot in ('conditions', 'unless', 'before', 'after', 'prepare'):
            if slot in t:
                c = copy.deepcopy(case)
                del c['transitions'][i][slot]
                yield c
    for k in ('before_state_change', 'after_state_change', 'prepare_event', 'finalize_event', 'on_final', 'on_exception'):
        if k in case['opts']:
            c = copy.deepcopy(case)
            del c['opts'][k]
            yield c
    if case.get('lockprobe') and False:
        yield case


def same_failure(case, clause):
    global PROBES_OFF, PROBE_WAIT
    PROBES_OFF = False
    if clause == 'held-lock-crosses':
        PROBE_WAIT = 1.5      # reproduction only; the verdict was reached with the long wait
    try:
        res = run_case(case, want_requests=False)
    except common.MachineryError:
        raise
    return any(f[1] == clause for f in res['failures'])


class C15(runner.Check):
    prop = 'C15'
    level = 'proof'
    strict_correspondence = True
    theorems = ('TM.C15_rekey', 'TM.C15_queues', 'TM.C15_queues_separate', 'TM.C15_graphs', 'TM.C15_models', 'TM.C15_tables_full', 'TM.C15_full',
                'TM.C15_behaviour_invariant', 'TM.C15_held_locks_copy', 'TM.C15_held_locks_orig', 'TM.C15_frame',
                'TM.C15_midevent_full', 'TM.C15_at_rest', 'TM.C15_idtabs_by_value', 'TM.C15_idtabs_stale', 'TM.C15_idtabs_none')
    manifest = dict(
        level='proof', design='DESIGN.md 4/C15; design_notes/C15.md',
        text="Partial. Lean 4 theorems over the identity-keyed side tables (model_context_map, model_graphs, "
             "_transition_queue_dict) as association lists, for any number of models/contexts and any injective renaming "
             "of object identities: LockedMachine's __getstate__/__setstate__ re-key by the new ids (same order, no stale "
             "key), GraphMachine's drop and regenerate one graph per model, every context object of the copy is fresh, "
             "AsyncMachine's per-model queues are re-keyed likewise, held locks never cross, events write only under the keys "
             "of registered models, and the unpickled machine reacts to every history like the original (simulation, "
             "for an abstract transition relation) — full strength, for every predefined feature combination "
             "(C15_full, C15_tables_full; the two former findings were repaired in /repo and are regression cases). "
             "Tie to /repo: pickle.loads(pickle.dumps(m)) at every prefix of "
             "random histories on all 12 predefined classes; a Python oracle (structure, continuation differential "
             "against an un-pickled control, two-way independence incl. real held locks) is the monitor; the real tables "
             "before/after the round trip and after the continuation are compared with the model's. pickle's own object "
             "traversal and the picklability of the partials bound on models are runtime behaviour the model cannot "
             "exhibit: they are only exercised, not proved.",
        note="Trusted: Lean kernel, hand-written Model/Pickle.lean (transport = renaming of references, integer keys "
             "kept), the harness oracle, recording model/context classes, the identity map obtained by pickling "
             "(machine, [objects]) together; engine abstracted to an arbitrary transition function in the theorems; "
             "Mermaid graphs only; a graph is abstracted to the set of nodes styled active.",
        technique="Lean 4 proof (association lists under injective renaming, simulation) + differential oracle on the "
                  "real classes + table correspondence")
    rule = ('random configurations (flat: 2-4 states; hierarchical classes: trees with nested and parallel compounds) x '
            'callbacks by name on module-level recording classes or dotted paths x options (send_event, queued incl. '
            "'model' for async, ignore flags, model_attribute, machine-level callback lists, graph display options) x 1-3 "
            'models incl. the machine as its own model (models know a peer: in a quarter of the cases, and most '
            "queued='model' cases, callbacks fire events on the OTHER model and on their own model from inside a "
            'running event, awaited from coroutine callbacks on the async classes) x history of 0-7 triggers/auto transitions/add_states/'
            'add_transition/add_model/remove_model, snapshot by pickle at EVERY prefix (root of the pickle: the machine, or '
            '- 45% - one of its models alone / the rotated list of models / (model, machine), for every model position; '
            '1-3 pickle generations, copy of copy), each followed by a random '
            'continuation of 1-6 items (triggers, may, add_states/add_transition, membership operations, dispatch; in a '
            'fifth of the cases callbacks forward events to ANOTHER restored copy / the original, or queue an event for the '
            'peer and remove it) on the copy and on a fresh control; all 12 predefined classes in equal shares, '
            '40% through MachineFactory.get_predefined; non-trivial = at least two snapshots and one executed transition '
            'in a continuation; distinct = different case description')
    trusted = ('hand-written model lean/Model/Pickle.lean tied to /repo by comparing real table contents (before, after '
               'the round trip, after the continuation) on every snapshot',
               'harness/props/c15.py oracle: introspection, differential against an un-pickled control, independence probes',
               "pickle's traversal, picklability of bound partials, threading.Lock: runtime, exercised not modelled")

    def assumptions(self):
        return ['callbacks are given by name (model method names or dotted paths); callables that pickle cannot '
                'serialise by reference (lambdas, closures) are outside the property',
                'model classes are importable and hashable by identity (LockedMachine.__getstate__ uses models as dict keys)',
                'snapshots are taken at every prefix of the history (machine at rest) AND, for machines that are not '
                'queued (queues stay empty, so the exclusion of the statement does not apply), while an event is being '
                'processed: from a named callback of the event (a persistence hook) and, for the async classes, by the '
                'driving coroutine while another model\'s event is suspended in a slow callback. Such a copy is judged '
                'against a control AT REST with the same configuration and the same model states: the unfinished part of '
                'the event lives on the call stack of the original, not in the machine (reading of "reacts like the '
                'original" for a snapshot that has no call stack)',
                'user context managers given as machine_context / model_context are part of the configuration, including a '
                'subclass of the library\'s PicklableLock that overrides only __init__ (its documented contract is '
                '"reinitialized unlocked when unpickled"); a copy whose contexts are another kind of lock than the '
                'original\'s is reported structurally and not driven any further (it may deadlock)',
                'a copy is itself a machine in a reachable state: copy-of-copy(-of-copy) chains are judged like first '
                'copies; pickling THROUGH a model (pickle.dumps(model), [models], (model, machine)) is pickling the '
                'machine and is judged the same way, except that the graph of the root model may lack the active mark '
                '(its state attribute does not exist yet when GraphMachine.__setstate__ runs; by design of _get_graph)',
                '"same options" is read as: every constructor option observable on the instance; graph styling other than the '
                'active state (previous-transition marks) is regenerated by design and not compared',
                'machine.remove_model on the copy is treated as part of "reacts like the original" (it raised KeyError '
                'on the copies of the locked graph classes and of async queued=model machines before the fixes)',
                'a copy that does not honour its own lock, or does not enter user contexts, is a difference in reaction',
                'the theorems speak about an abstract transition relation; the engine itself is not re-proved equivariant']

    def budget(self, tier):
        return (16, 5) if tier == "quick" else (32, 25)

    def explore(self, tier, seed):
        workers, n = self.budget(tier)
        payloads = [(tier, seed, w, NAMES, n) for w in range(workers)]
        ex = runner.Exploration()
        ex.merge(corpus_cases())          # regression witnesses first
        for part in runner.parallel(work, payloads):
            ex.merge(part)
        ex.failures = self.prepare_failures(ex.failures)
        return ex

    def prepare_failures(self, failures):
        """one failure per (kind, clause, signature), shrunk"""
        seen = {}
        for f in failures:
            key = (f.kind, f.what, f.signature, f.case['cls'] if f.signature is None else '')
            if key not in seen:
                seen[key] = f
        out = []
        for f in list(seen.values())[:8]:
            if f.kind == 'monitor' and f.signature is not None:
                out.append(f)            # a known finding: one representative, not shrunk
            elif f.kind == 'monitor':
                clause = f.what
                small = runner.shrink(f.case, lambda c: same_failure(c, clause), shrink_steps, budget=150)
                res = run_case(small, want_requests=False)
                whats = [w for _k, cl, w, _s in res['failures'] if cl == clause]
                out.append(runner.Failure('monitor', clause, small, {'what': whats[:3] or f.details}, f.signature))
            else:
                out.append(f)
        return out

    def search(self, tier, seed, failures):
        """a correspondence-only break: look for an input on which the oracle itself fails, on the classes involved"""
        names = sorted(set(f.case['cls'] for f in failures)) or NAMES
        payloads = [(tier, seed + 7919, 100 + w, names, 12) for w in range(16)]
        ex = runner.Exploration()
        for part in runner.parallel(work, payloads):
            ex.merge(part)
        return self.prepare_failures([f for f in ex.failures if f.kind == 'monitor'])

    def replay(self, path):
        with open(path) as fh:
            payload = json.load(fh)
        case = payload.get('case')
        if not case:
            print('no case in %s' % path)
            return 2
        res = run_case(case, want_requests=True)
        for kind, clause, what, sig in res['failures']:
            print('%s %s: %s%s' % (kind, clause, what, ' [known: %s]' % sig if sig else ''))
        if res['requests']:
            answers = common.batch_driver([('c15', rq['nums']) for rq in res['requests']])
            for rq, ans in zip(res['requests'], answers):
                for d in compare_model(case, rq, ans):
                    print('correspondence prefix %d: %s' % (rq['p'], d))
        print('replay: %d failing clauses' % len(res['failures']))
        return 1 if res['failures'] else 0


CHECK = C15()
