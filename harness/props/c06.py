"""C06 — locked machines serialize event processing under every thread schedule."""
import copy
import hashlib
import json
import random

from .. import common, runner, threads, locked



# ---------------------------------------------------------------------------------------------
# generation
# ---------------------------------------------------------------------------------------------

BASES = [[], [], [], [['lock', 1]], [['user', 2], ['lock', 1]], [['lock', 1], ['user', 2]], [['lock', 1], ['lock', 3]]]
EXTRAS = [[], [], [['user', 5]], [['lock', 6]], [['user', 5], ['user', 7]], [['lock', 6], ['user', 5]], [['user', 8], ['lock', 6]]]


SNAPS = ['pickle', 'deepcopy', 'model']      # pickle.dumps(machine) / copy.deepcopy(machine) / copy.deepcopy(a model)
RAISES = ['exc', 'exc', 'base', 'kbd']      # Exception subclass / custom BaseException / KeyboardInterrupt-like


def gen_call(rng, case, tags, depth=0, kinds=None):
    cls = case['cls']
    kinds = kinds or ['ev'] * 11 + ['trig'] * 2 + ['dispatch'] * 3 + ['add_transition'] * 2 + ['add_states'] + ['set_state'] * 2 \
        + ['get_state'] + ['remove_model'] * 2
    kind = rng.choice(kinds)
    if kind == 'ev' and cls != 'flat' and rng.random() < 0.35:
        kind = 'trig'       # by-name entry point (model.trigger(name)) next to model.<event>()
    tags[0] += 1
    call = {'tag': tags[0], 'kind': kind, 'script': {}}
    names = locked.STATE_NAMES[cls]
    if kind in ('ev', 'trig'):
        call['args'] = [rng.randrange(case['nmodels']), rng.choice(locked.EVENTS[cls])]
        if depth < 2 and rng.random() < (0.35 if depth == 0 else 0.15):
            k = str(rng.randrange(3))
            sc = {'sub': [], 'raise': False}
            for _ in range(rng.choice([1, 1, 2])):
                sc['sub'].append(gen_call(rng, case, tags, depth + 1))
            call['script'][k] = sc
        if rng.random() < 0.2:
            k = str(rng.randrange(3))
            call['script'].setdefault(k, {'sub': [], 'raise': False})['raise'] = rng.choice(RAISES)
        if rng.random() < 0.15:
            # the callback takes a snapshot of the machine mid-event; engine steps (and often a re-entrant call) follow
            k = str(rng.randrange(2))
            sc = call['script'].setdefault(k, {'sub': [], 'raise': False})
            sc['snap'] = rng.choice(SNAPS)
            if depth < 2 and not sc['sub'] and rng.random() < 0.5:
                sc['sub'].append(gen_call(rng, case, tags, depth + 1))
    elif kind == 'dispatch':
        call['args'] = [rng.choice(['go', 'back', 'sync', 'sync', 'to_A', 'to_B'])]
        for _ in range(rng.choice([0, 1, 1, 2])):
            # callbacks of the 1st / 2nd / 3rd model's part of the dispatch re-enter the API or raise
            k = str(rng.randrange(9))
            sc = call['script'].setdefault(k, {'sub': [], 'raise': False})
            if depth < 2 and rng.random() < 0.5:
                sc['sub'].append(gen_call(rng, case, tags, depth + 1, kinds=['ev', 'trig', 'set_state']))
            elif rng.random() < 0.3:
                sc['raise'] = rng.choice(RAISES)
    elif kind == 'get_state':
        call['args'] = [rng.choice(names + ['D'])]
    elif kind == 'add_transition':
        call['args'] = [rng.choice(['go', 'back']), rng.choice(names + ['D']), rng.choice(names + ['D'])]
    elif kind == 'add_states':
        call['args'] = [rng.choice(['D', 'E'])]
    elif kind == 'set_state':
        leaf = [n for n in names if not (cls in ('hsm', 'hsmg') and n == 'C')]
        call['args'] = [rng.choice(leaf), rng.randrange(case['nmodels'])]
    else:
        call['args'] = [rng.randrange(locked.N_SPARE)]
    return call


def gen_case(rng, nthreads, maxcalls, hsm_extras=0.7, p_dyn=0.0):
    case = {'cls': rng.choice(['flat', 'flat', 'flat', 'hsm', 'hsm', 'hsmg']), 'base': copy.deepcopy(rng.choice(BASES)),
            'nmodels': rng.randint(1, 3), 'ignore': rng.random() < 0.4, 'queued': rng.random() < 0.2,
            'extras': {}, 'threads': []}
    # GraphMachine.add_model has no model_context parameter: the graph class cannot be given model contexts
    with_extras = case['cls'] != 'hsmg' and rng.random() < (hsm_extras if case['cls'] != 'flat' else 0.7)
    for m in range(case['nmodels']):
        case['extras'][str(m)] = copy.deepcopy(rng.choice(EXTRAS)) if with_extras else []
    tags = [0]
    for _ in range(nthreads):
        case['threads'].append([gen_call(rng, case, tags) for _ in range(rng.randint(1, maxcalls))])
    # the threads run on a machine that was pickled / deep-copied and restored before they start
    case['restored'] = rng.choice([None, None, None, 'pickle', 'deepcopy'])
    case['dyn'] = []
    if case['cls'] != 'hsmg' and rng.random() < p_dyn:
        add_dynamic(rng, case, tags)
    return case


DYN_PATTERNS = [
    ['remove', 'ev', 'add', 'ev'],            # event on the removed model (unjudged), re-registration, judged event
    ['remove', 'ev', 'add+', 'ev'],
    ['remove', 'add+', 'ev'],
    ['ev', 'remove', 'ev', 'add', 'ev'],
    ['add', 'ev'],                            # re-adding a registered model changes nothing
    ['remove', 'remove', 'add+', 'ev'],       # second remove raises KeyError
    ['remove', 'ev', 'ev', 'add+', 'ev', 'remove'],
]


def add_dynamic(rng, case, tags):
    """one or two dynamic models, each owned by one thread: a registration episode is woven into that thread's
    program (its other calls keep their order)"""
    owners = list(range(len(case['threads'])))
    rng.shuffle(owners)
    for j, t in enumerate(owners[:rng.choice([1, 1, 2])]):
        case['dyn'].append(copy.deepcopy(rng.choice(EXTRAS)))
        registered = True
        episode = []
        for step in rng.choice(DYN_PATTERNS):
            tags[0] += 1
            if step == 'ev':
                if registered:
                    call = {'tag': tags[0], 'kind': 'dyn_ev', 'args': [j, rng.choice(locked.EVENTS[case['cls']])], 'script': {}}
                    if rng.random() < 0.3:
                        sub = gen_call(rng, case, tags, depth=1)
                        call['script'][str(rng.randrange(3))] = {'sub': [sub], 'raise': rng.choice(RAISES) if rng.random() < 0.2 else False}
                else:
                    call = {'tag': tags[0], 'kind': 'dyn_ev', 'args': [j, rng.choice(['to_A', 'to_B'])], 'script': {},
                            'unjudged': True}
            elif step in ('add', 'add+'):
                ctxs = copy.deepcopy(rng.choice(EXTRAS[2:])) if step == 'add+' else []
                call = {'tag': tags[0], 'kind': 'dyn_add', 'args': [j, ctxs, rng.choice([0, 0, 1, 2])], 'script': {}}
                registered = True
            else:
                call = {'tag': tags[0], 'kind': 'dyn_remove', 'args': [j], 'script': {}}
                registered = False
            episode.append(call)
        if any(c.get('unjudged') for c in episode):
            # an unlocked event on a queued machine would share the queue with the judged calls of other threads
            case['queued'] = False
        prog = case['threads'][t]
        slots = sorted(rng.randrange(len(prog) + 1) for _ in episode)
        for off, (pos, call) in enumerate(zip(slots, episode)):
            prog.insert(pos + off, call)


# ---------------------------------------------------------------------------------------------
# running and judging
# ---------------------------------------------------------------------------------------------

def fingerprint(case, events):
    h = hashlib.sha1()
    h.update(json.dumps([case['cls'], case['base'], case['extras'], case['threads'], case.get('dyn'), case.get('restored')], sort_keys=True).encode())
    h.update(json.dumps(events).encode())
    return h.hexdigest()[:16]


class Pending(object):
    """an executed case waiting for the driver's answers"""

    def __init__(self, case, run):
        self.case = case
        self.run = run
        self.req_index = None


def requests_for(case, run):
    ev = run.events
    n = len(case['threads'])
    progs = locked.thread_progs(ev, n)
    sched = run.model_schedule
    cfg = locked.enc_cfg(case)
    L = locked.machine_lock_id(case)
    reqs = [('c06run', cfg + locked.enc_progs(progs) + [len(sched)] + sched),
            ('c06mon', [L] + cfg + [n] + locked.enc_events(ev))]
    return reqs


def serial_outcome(case, order, cache):
    key = tuple(order)
    if key not in cache:
        s = locked.Run(case).run(locked.SerialPolicy(order))
        if s.ctl.status != 'ok':
            cache[key] = {'status': s.ctl.status}
        else:
            cache[key] = {'status': 'ok', 'outcome': s.outcome, 'cbtrace': s.cbtrace, 'final': s.final}
    return cache[key]


def judge(case, run, answers, serial_cache):
    """→ list of (kind, what, details, signature)"""
    fails = []
    ev = run.events
    st = run.ctl.status
    n = len(case['threads'])
    L = locked.machine_lock_id(case)
    replay = dict(case, schedule=run.schedule)
    if st == 'hang':
        # a step that did not come back within the watchdog: confirm with a longer one before calling it a hang
        again = locked.Run(case).run(threads.ListPolicy(run.schedule), watchdog=40.0)
        if again.ctl.status != 'hang':
            raise common.MachineryError('watchdog fired on a step that completes when replayed (machine overloaded?)')
    if st in ('deadlock', 'hang', 'too-long'):
        fails.append(('monitor', st, {'events_tail': ev[-12:], 'blocked': [b.cid if b else None for b in run.ctl.blocked_on]}, None))
    # correspondence with the model: same schedule, same programs → same events
    def parse_run(ans):
        try:
            tpart, rest = ans.split(' B ')
            nums = [int(x) for x in tpart.split()[1:]]
            tr, pos = [], 1
            for _ in range(nums[0]):
                n = 4 + (2 * nums[pos + 3] if nums[pos] == 5 else 0)
                tr.append(nums[pos:pos + n])
                pos += n
            _bpart, rest = rest.split(' D ')
            dpart, rest = rest.split(' C ')
            return tr, [int(x) for x in dpart.split()], int(rest.split(' M ')[0])
        except Exception:
            raise common.MachineryError('bad c06run answer: %r' % ans[:200])
    mtrace, done, cur = parse_run(answers[0])
    if mtrace != ev:
        i = 0
        while i < min(len(mtrace), len(ev)) and mtrace[i] == ev[i]:
            i += 1
        fails.append(('correspondence', 'trace_eq', {'first_difference': i, 'impl': ev[max(0, i - 3):i + 4], 'model': mtrace[max(0, i - 3):i + 4]}, None))
    elif st == 'ok' and (not all(done) or cur != 0):
        fails.append(('correspondence', 'final_state', {'done': done, 'current': cur}, None))
    # verified monitors on the implementation's trace
    try:
        no, co, cd = [int(x) for x in answers[1].split()]
    except Exception:
        raise common.MachineryError('bad c06mon answer: %r' % answers[1][:200])
    if not no:
        fails.append(('monitor', 'noOverlap', {'lock': L}, None))
    if not co or (st == 'ok' and not cd):
        fails.append(('monitor', 'contextsOrder', {'class': case['cls'], 'configured_extras': case['extras']}, None))
    if not locked.blocks_contiguous(ev):
        fails.append(('monitor', 'callbacks_interleaved', {}, None))
    if st == 'ok':
        rel = run.released
        if rel['locks_held'] or rel['current']:
            fails.append(('monitor', 'not_released', rel, None))
        order = locked.acquisition_order(ev, L)
        ser = serial_outcome(case, order, serial_cache)
        if ser['status'] != 'ok':
            raise common.MachineryError('serial reference run ended with %s' % ser['status'])
        diff = {}
        if ser['outcome'] != run.outcome:
            diff['outcome'] = {'concurrent': run.outcome, 'serial': ser['outcome']}
        if ser['cbtrace'] != run.cbtrace:
            diff['cbtrace'] = {'concurrent': run.cbtrace, 'serial': ser['cbtrace']}
        if ser['final'] != run.final:
            diff['final'] = {'concurrent': run.final, 'serial': ser['final']}
        if diff:
            # "some serial execution": try every order before alarming (small cases only)
            found = False
            if sum(len(t) for t in case['threads']) <= 6:
                for o in locked.serial_orders(case):
                    s2 = serial_outcome(case, list(o), serial_cache)
                    if s2['status'] == 'ok' and s2['outcome'] == run.outcome and s2['cbtrace'] == run.cbtrace \
                            and s2['final'] == run.final:
                        found = True
                        break
            if not found:
                diff['acquisition_order'] = order
                fails.append(('monitor', 'not_serializable', diff, None))
    return [runner.Failure(k, w, replay, d, s) for k, w, d, s in fails]


def nontrivial(run):
    """contention was observed: some thread was blocked at a lock, or two threads' calls were open at once"""
    if any(k == 'b' for _t, k in run.ctl.steps):
        return True
    depth = {}
    for e in run.events:
        if e[0] == 0:
            depth[e[1]] = depth.get(e[1], 0) + 1
            if sum(1 for v in depth.values() if v > 0) > 1:
                return True
        elif e[0] == 4:
            depth[e[1]] -= 1
    return False


def process(items):
    """items: list of (case, policy factory).  Runs all, one batch to the driver, judges."""
    ex = runner.Exploration()
    pend = []
    reqs = []
    for case, mk in items:
        try:
            r = mk if isinstance(mk, locked.Run) else locked.Run(case).run(mk())
        except locked.NotLocked as e:
            ex.evaluations += 1
            ex.failures.append(runner.Failure('monitor', 'factory_returns_unlocked_class', case, {'class': str(e)}, None))
            continue
        p = Pending(case, r)
        p.req_index = len(reqs)
        rq = requests_for(case, r)
        p.nreq = len(rq)
        reqs += rq
        pend.append(p)
    answers = common.batch_driver(reqs) if reqs else []
    caches = {}
    for p in pend:
        key = json.dumps([p.case['cls'], p.case['base'], p.case['extras'], p.case['threads'], p.case.get('ignore'),
                          p.case.get('queued'), p.case['nmodels'], p.case.get('dyn'), p.case.get('restored')], sort_keys=True)
        cache = caches.setdefault(key, {})
        fs = judge(p.case, p.run, answers[p.req_index:p.req_index + p.nreq], cache)
        ex.evaluations += 1
        ex.traces_validated += 1
        if nontrivial(p.run):
            ex.nontrivial.add(fingerprint(p.case, p.run.events))
        st = ex.stats
        for name, key2 in (('class', p.case['cls']), ('threads', str(len(p.case['threads']))),
                           ('status', p.run.ctl.status),
                           ('machine_context', 'default' if not p.case['base'] else 'user'),
                           ('model_context', 'yes' if any(p.case['extras'].values()) else 'no'),
                           ('dynamic_models', str(len(p.case.get('dyn') or []))),
                           ('restored_before_run', str(p.case.get('restored'))),
                           ('unjudged_events', str(sum(1 for c, _t in locked.all_calls(p.case) if c.get('unjudged')))),
                           ('blocked_steps', str(min(9, sum(1 for _t, k in p.run.ctl.steps if k == 'b')))),
                           ('raising_calls', str(min(5, sum(1 for o in p.run.outcome.values() if o[0] == 'exc')))),
                           ('reentrant_calls', str(min(5, sum(1 for _c, top in locked.all_calls(p.case) if not top))))):
            d = st.setdefault(name, {})
            d[key2] = d.get(key2, 0) + 1
        for c, _top in locked.all_calls(p.case):
            d = st.setdefault('call_kind', {})
            d[c['kind']] = d.get(c['kind'], 0) + 1
            for sc in (c.get('script') or {}).values():
                if sc.get('snap'):
                    d = st.setdefault('snapshot_in_callback', {})
                    d[sc['snap']] = d.get(sc['snap'], 0) + 1
                if sc.get('raise'):
                    d = st.setdefault('scripted_raise_kind', {})
                    kk = 'exc' if sc['raise'] is True else sc['raise']
                    d[kk] = d.get(kk, 0) + 1
        if len(ex.samples) < 2 and nontrivial(p.run) and not fs:
            ex.samples.append({'case': dict(p.case, schedule=p.run.schedule), 'events': len(p.run.events)})
        ex.failures += fs
    return ex


class _Mk(object):
    """picklable policy factories"""

    def __init__(self, kind, arg, p=0.5):
        self.kind, self.arg, self.p = kind, arg, p

    def __call__(self):
        if self.kind == 'list':
            return threads.ListPolicy(self.arg)
        return threads.RandomPolicy(random.Random(self.arg), self.p)


def _c(tag, kind, args, script=None):
    return {'tag': tag, 'kind': kind, 'args': args, 'script': script or {}}


# fixed cases run first on every run (random schedules): the witness of the former finding (hierarchical machine
# with a model context; fixed in /repo 2c648fd — a return of the defect is a violation), contention on one model with a
# raising call and a re-entrant call, machine methods against events
CORPUS = [
    {'cls': 'hsm', 'base': [], 'nmodels': 1, 'ignore': False, 'queued': False, 'extras': {'0': [['user', 7]]},
     'threads': [[_c(1, 'ev', [0, 'go'])]]},
    {'cls': 'flat', 'base': [], 'nmodels': 2, 'ignore': False, 'queued': False, 'extras': {'0': [['user', 7]], '1': [['lock', 6]]},
     'threads': [[_c(1, 'ev', [0, 'go'], {'1': {'sub': [_c(2, 'ev', [1, 'go'])], 'raise': False}})],
                 [_c(3, 'ev', [0, 'go'], {'2': {'sub': [], 'raise': 'base'}}), _c(4, 'ev', [1, 'back'])],
                 [_c(5, 'ev', [1, 'go'], {'1': {'sub': [], 'raise': 'kbd'}})]]},
    {'cls': 'hsm', 'base': [['user', 2], ['lock', 1]], 'nmodels': 1, 'ignore': True, 'queued': False, 'extras': {'0': []},
     'threads': [[_c(1, 'add_states', ['D']), _c(2, 'add_transition', ['go', 'C', 'D'])],
                 [_c(3, 'ev', [0, 'to_C']), _c(4, 'ev', [0, 'go'])], [_c(5, 'set_state', ['B', 0])]]},
    # remove_model -> event on the removed model (unjudged; the defaultdict read leaves an empty entry) -> add_model
    # again: the re-registered model must be processed under the machine contexts and its new context
    {'cls': 'flat', 'base': [], 'nmodels': 1, 'ignore': False, 'queued': False, 'extras': {'0': []}, 'dyn': [[['user', 5]]],
     'threads': [[_c(1, 'dyn_remove', [0]), dict(_c(2, 'dyn_ev', [0, 'to_B']), unjudged=True),
                  _c(3, 'dyn_add', [0, [['user', 8]]]), _c(4, 'dyn_ev', [0, 'to_A'])],
                 [_c(5, 'ev', [0, 'go']), _c(6, 'ev', [0, 'go'])]]},
    {'cls': 'hsm', 'base': [['lock', 1]], 'nmodels': 1, 'ignore': False, 'queued': False, 'extras': {'0': []}, 'dyn': [[]],
     'threads': [[_c(1, 'dyn_ev', [0, 'go']), _c(2, 'dyn_remove', [0]), dict(_c(3, 'dyn_ev', [0, 'to_B']), unjudged=True),
                  _c(4, 'dyn_add', [0, [['lock', 6]]]), _c(5, 'dyn_ev', [0, 'to_A'])],
                 [_c(6, 'ev', [0, 'go']), _c(7, 'set_state', ['A', 0])]]},
]


CORPUS += [
    # a callback persists the machine mid-event (pickle / deepcopy), engine steps and a re-entrant trigger follow
    {'cls': 'flat', 'base': [], 'nmodels': 1, 'ignore': False, 'queued': False, 'extras': {'0': [['user', 5]]}, 'dyn': [],
     'threads': [[_c(1, 'ev', [0, 'go'], {'1': {'snap': 'pickle', 'sub': [_c(2, 'ev', [0, 'go'])], 'raise': False}})],
                 [_c(3, 'ev', [0, 'to_A'])]]},
    {'cls': 'hsm', 'base': [['user', 2], ['lock', 1]], 'nmodels': 1, 'ignore': False, 'queued': False, 'extras': {'0': []}, 'dyn': [],
     'threads': [[_c(1, 'ev', [0, 'go'], {'0': {'snap': 'deepcopy', 'sub': [], 'raise': False}})],
                 [_c(2, 'set_state', ['B', 0])]]},
]


CORPUS += [
    # an event declared locally in the compound state C is processed inside C's scope (machine-wide scope switch);
    # another thread arrives through the by-name entry point model.trigger(name) while the owner is in that scope
    {'cls': 'hsm', 'base': [], 'nmodels': 2, 'ignore': False, 'queued': False, 'extras': {'0': [], '1': []}, 'dyn': [],
     'threads': [[_c(1, 'ev', [0, 'to_C']), _c(2, 'ev', [0, 'inner']), _c(3, 'trig', [0, 'inner'])],
                 [_c(4, 'trig', [1, 'go']), _c(5, 'trig', [1, 'to_C'])]]},
    {'cls': 'hsmg', 'base': [['lock', 1]], 'nmodels': 2, 'ignore': True, 'queued': False, 'extras': {'0': [], '1': []},
     'dyn': [], 'threads': [[_c(1, 'trig', [0, 'to_C']), _c(2, 'trig', [0, 'flip'])],
                            [_c(3, 'trig', [1, 'to_C']), _c(4, 'ev', [1, 'inner'])]]},
]


CORPUS += [
    # machine.dispatch is ONE locked call: the event on every model, processed in one window; another thread's event
    # cannot be processed between two models; `sync` has a condition on the peer model's state (order-sensitive)
    {'cls': 'flat', 'base': [], 'nmodels': 3, 'ignore': True, 'queued': False, 'extras': {'0': [], '1': [['user', 5]], '2': []},
     'dyn': [], 'threads': [[_c(1, 'dispatch', ['sync'])], [_c(2, 'ev', [1, 'go'])], [_c(3, 'ev', [2, 'go'])]]},
    {'cls': 'hsm', 'base': [['lock', 1]], 'nmodels': 2, 'ignore': True, 'queued': False, 'extras': {'0': [], '1': []},
     'dyn': [], 'threads': [[_c(1, 'dispatch', ['go']), _c(2, 'dispatch', ['sync'])], [_c(3, 'trig', [1, 'go']), _c(4, 'get_state', ['B'])]]},
]


CORPUS += [
    # the first users of a RESTORED machine (unpickled / deep-copied before the threads start) arrive together
    {'cls': 'flat', 'base': [], 'nmodels': 2, 'ignore': False, 'queued': False, 'extras': {'0': [], '1': []}, 'dyn': [],
     'restored': 'pickle', 'threads': [[_c(1, 'ev', [0, 'go'])], [_c(2, 'ev', [1, 'go'])]]},
    {'cls': 'hsm', 'base': [], 'nmodels': 2, 'ignore': False, 'queued': False, 'extras': {'0': [['user', 5]], '1': []}, 'dyn': [],
     'restored': 'deepcopy', 'threads': [[_c(1, 'trig', [0, 'go'])], [_c(2, 'dispatch', ['go'])], [_c(3, 'set_state', ['B', 1])]]},
]


CORPUS += [
    # add_model with a MIXED list: registered models first, then the (removed) dynamic model, with a model_context; the
    # event that follows on the new model must hold the machine contexts and that context
    {'cls': 'flat', 'base': [], 'nmodels': 1, 'ignore': False, 'queued': False, 'extras': {'0': [['user', 5]]}, 'dyn': [[]],
     'threads': [[_c(1, 'dyn_remove', [0]), _c(2, 'dyn_add', [0, [['user', 8]], 1]), _c(3, 'dyn_ev', [0, 'to_B'])],
                 [_c(4, 'ev', [0, 'go'])]]},
    {'cls': 'hsm', 'base': [['lock', 1]], 'nmodels': 1, 'ignore': False, 'queued': False, 'extras': {'0': []}, 'dyn': [[['user', 5]]],
     'restored': 'deepcopy',
     'threads': [[_c(1, 'dyn_remove', [0]), _c(2, 'dyn_add', [0, [['lock', 6]], 2]), _c(3, 'dyn_ev', [0, 'to_C'])],
                 [_c(4, 'trig', [0, 'go'])]]},
]


def corpus_worker(seed, per):
    _alarm(900)
    rng = random.Random(seed)
    items = []
    for case in CORPUS:
        for _ in range(per):
            items.append((copy.deepcopy(case), _Mk('random', rng.randrange(1 << 30), rng.choice([0.3, 0.6, 1.0]))))
    return process(items)


def _alarm(seconds):
    """hard per-worker watchdog: a stuck worker becomes a machinery error, never a stuck check"""
    import signal

    def on_alarm(_sig, _frm):
        raise common.MachineryError('C06 worker exceeded %d s' % seconds)
    signal.signal(signal.SIGALRM, on_alarm)
    signal.alarm(seconds)


def random_worker(seed, count, lo, hi, maxcalls):
    _alarm(900)
    rng = random.Random(seed)
    items = []
    for _ in range(count):
        case = gen_case(rng, rng.randint(lo, hi), maxcalls, p_dyn=0.4)
        items.append((case, _Mk('random', rng.randrange(1 << 30), rng.choice([0.15, 0.4, 0.7, 1.0]))))
    return process(items)


def preemptions(choices, runnable_hist):
    n = 0
    for i in range(1, len(choices)):
        if choices[i] != choices[i - 1] and choices[i - 1] in runnable_hist[i]:
            n += 1
    return n


def enum_worker(seed, bound, cap):
    """every schedule of one small program (2 threads x <= 2 calls) with at most `bound` preemptions
    (a preemption = switching away from a thread that could have continued); `cap` limits the count"""
    _alarm(900)
    rng = random.Random(seed)
    case = gen_case(rng, 2, 2)
    total = runner.Exploration()
    stack = [[]]
    seen = 0
    batch = []

    def flush():
        nonlocal batch
        if batch:
            total.merge(process(batch))
            batch = []
    while stack and seen < cap:
        prefix = stack.pop()
        try:
            r = locked.Run(case).run(threads.ListPolicy(prefix))
        except locked.NotLocked as e:
            total.evaluations += 1
            total.failures.append(runner.Failure('monitor', 'factory_returns_unlocked_class', case, {'class': str(e)}, None))
            return total
        seen += 1
        chosen = [t for t, _k in r.ctl.steps]
        hist = r.ctl.runnable_hist
        for i in range(len(prefix), min(len(chosen), len(hist))):
            for a in hist[i]:
                if a != chosen[i]:
                    cand = chosen[:i] + [a]
                    if preemptions(cand, hist) <= bound:
                        stack.append(cand)
        batch.append((case, r))
        if len(batch) >= 200:
            flush()
    flush()
    d = total.stats.setdefault('enumeration', {})
    d['programs'] = d.get('programs', 0) + 1
    d['complete' if not stack else 'capped'] = d.get('complete' if not stack else 'capped', 0) + 1
    return total


# ---------------------------------------------------------------------------------------------
# shrinking
# ---------------------------------------------------------------------------------------------

def run_replay(case):
    sched = case.get('schedule') or []
    try:
        r = locked.Run(case).run(threads.ListPolicy(sched))
    except locked.NotLocked as e:
        return None, [runner.Failure('monitor', 'factory_returns_unlocked_class', case, {'class': str(e)}, None)]
    answers = common.batch_driver(requests_for(case, r))
    return r, judge(case, r, answers, {})


def retag_dynamic(case):
    """recompute which dyn_ev calls hit a model that is not registered at that point (program order of the
    owning thread) after calls were dropped: those are executed silently, with a state-independent event"""
    reg = {}
    for th in case['threads']:
        for call in th:
            if call['kind'] == 'dyn_add':
                reg[call['args'][0]] = True
            elif call['kind'] == 'dyn_remove':
                reg[call['args'][0]] = False
            elif call['kind'] == 'dyn_ev':
                if reg.get(call['args'][0], True):
                    call.pop('unjudged', None)
                else:
                    call['unjudged'] = True
                    call['script'] = {}
                    if call['args'][1] not in ('to_A', 'to_B'):
                        call['args'][1] = 'to_A'
                    case['queued'] = False
    return case


def shrink_steps(case):
    for c in _shrink_steps(case):
        yield retag_dynamic(c)


def _shrink_steps(case):
    n = len(case['threads'])
    for t in range(n):
        if n > 1:
            c = copy.deepcopy(case)
            del c['threads'][t]
            c['schedule'] = [x - (1 if x > t else 0) for x in c.get('schedule', []) if x != t]
            yield c
    for t in range(n):
        for i in range(len(case['threads'][t])):
            if len(case['threads'][t]) > 1:
                c = copy.deepcopy(case)
                del c['threads'][t][i]
                yield c
            if case['threads'][t][i].get('script'):
                c = copy.deepcopy(case)
                c['threads'][t][i]['script'] = {}
                yield c
    if case['base']:
        c = copy.deepcopy(case)
        c['base'] = []
        yield c
    for m, l in case['extras'].items():
        if l:
            c = copy.deepcopy(case)
            c['extras'][m] = l[:-1]
            yield c
    if case.get('queued'):
        yield dict(copy.deepcopy(case), queued=False)
    if case.get('restored'):
        yield dict(copy.deepcopy(case), restored=None)
    s = case.get('schedule') or []
    for k in (0, len(s) // 4, len(s) // 2, (3 * len(s)) // 4, len(s) - 1):
        if 0 <= k < len(s):
            yield dict(copy.deepcopy(case), schedule=s[:k])


def shrink_failure(f):
    key = (f.kind, f.what, f.signature)

    def fails(c):
        _r, fs = run_replay(c)
        return any((x.kind, x.what, x.signature) == key for x in fs)
    try:
        small = runner.shrink(f.case, fails, shrink_steps, budget=150)
        r, fs = run_replay(small)
        for x in fs:
            if (x.kind, x.what, x.signature) == key:
                if r is not None:
                    x.details = dict(x.details, events=r.events, outcome={str(k): v for k, v in r.outcome.items()})
                return x
    except common.MachineryError:
        pass
    return f


# ---------------------------------------------------------------------------------------------

class C06(runner.Check):
    prop = 'C06'
    level = 'proof'
    theorems = ('TM.Locked.C06_mutex', 'TM.Locked.C06_no_overlap', 'TM.Locked.C06_serializable',
                'TM.Locked.C06_reentrant_no_deadlock', 'TM.Locked.C06_contexts_held_in_order',
                'TM.Locked.C06_registered_contexts', 'TM.Locked.C06_released_on_raise', 'TM.Locked.C06_snapshot_frame',
                'TM.Locked.C06_shared_writes_in_window', 'TM.Locked.C06_locks_allocated_initially')
    rule = ('thread programs on real (30% of them restored from pickle / deepcopy before the threads start; classes drawn through MachineFactory.get_predefined) LockedMachine / LockedHierarchicalMachine / LockedHierarchicalGraphMachine (mermaid) objects; hierarchical '
            'machines declare events locally inside a compound state (processed in a nested scope) and are triggered by attribute '
            'and by name (model.trigger(name)); (default and user supplied '
            'machine_context lists containing a mutex, model_context lists, 1-3 shared models): 2-4 threads x 1-3 calls '
            '(events by attribute and by model.trigger, machine.dispatch, get_state, add_transition, add_states, set_state, remove_model, add_model incl. '
            're-adding a removed model with and without model_context also inside a mixed list after registered models, events on a currently unregistered model as unjudged steps, re-entrant '
            'calls from callbacks two levels deep, callbacks raising an Exception subclass / a custom BaseException / a KeyboardInterrupt subclass, callbacks that pickle / deep-copy the machine or a model mid-event), run under a deterministic controller; schedules: '
            'every schedule with at most 2 (thorough: 3) preemptions of 2-thread x <=2-call programs, and random '
            'schedules (switch probability 0.15-1.0) of the larger ones; non-trivial = contention observed (a thread '
            'blocked at a lock, or calls of two threads open at once); distinct = different program or event sequence')
    trusted = ('hand-written protocol model lean/Model/Locked.lean tied to /repo by trace equality under the observed schedule',
               'monitors Locked.noOverlap / Locked.contextsOrder (proved to accept every model trace)',
               'harness/threads.py controller: SLock replaces threading.Lock inside PicklableLock, SIdent subclasses IdentManager',
               'atomicity of single shared-memory actions (GIL, threading.Lock) is assumed, not verified',
               'with-statement / ExitStack unwinding (Python language guarantee)')
    manifest = dict(
        level='proof', design='DESIGN.md 4/C06, design_notes/C06.md',
        text="Lean 4 theorems over a small-step model of locking.py's protocol (read of IdentManager.current, ExitStack enter loop, PicklableLock, ident writes, engine steps, unwinding), for ALL thread programs, ALL schedules, any number of threads, all context configurations containing a mutex: mutual exclusion and current in {0, holder} (C06_mutex), every trace passes the noOverlap monitor (C06_no_overlap), machine state and engine-step log equal those of a serial execution of the calls (C06_serializable), calls from callbacks acquire nothing and are never blocked (C06_reentrant_no_deadlock), all configured contexts entered in order before the first and exited after the last engine step, also for raising calls (C06_contexts_held_in_order, C06_registered_contexts, C06_released_on_raise; flat and hierarchical machines; registration changes over time: add_model / remove_model / the defaultdict read of model_context_map are mirrored, and the monitor keeps its own record of the configured contexts). The real classes are run under a deterministic thread controller; their traces must equal the model's under the same schedule, pass the verified monitors, leave everything released, and their states / return values / per-call callback traces must equal a serial execution. PARTIAL: atomicity of the individual shared-memory actions (GIL, threading.Lock) is assumed, not verified.",
        note="Trusted: Lean kernel, Model/Locked.lean, the thread controller (harness/threads.py) and its replacement of locking.Lock / locking.IdentManager, Python's with/ExitStack unwinding. Engine behaviour inside a call is opaque in the model (arbitrary effect function); it is covered by C01-C05. may_* helpers, dispatch and events on models after remove_model are outside the statement's call list.",
        technique='Lean 4 proof (invariant + induction over schedules, simulation of verified monitors, refinement to a sequential reference) + deterministic thread controller + trace correspondence + verified trace monitors + serial-outcome oracle',
        engines=('thread-controller',))

    def explore(self, tier, seed):
        thorough = tier == 'thorough'
        ex = runner.Exploration()
        rng = random.Random(seed * 7919 + 17)
        ex.merge(runner.parallel(corpus_worker, [(rng.randrange(1 << 30), 40 if thorough else 10)])[0])
        # exhaustive (preemption-bounded) enumeration of small programs
        n_enum = 32 if thorough else 16
        cap = 4000 if thorough else 450
        payloads = [(rng.randrange(1 << 30), 3 if thorough else 2, cap) for _ in range(n_enum)]
        for r in runner.parallel(enum_worker, payloads):
            ex.merge(r)
        # random schedules of larger programs
        n_w = 48 if thorough else 16
        per = 400 if thorough else 100
        payloads = [(rng.randrange(1 << 30), per, 2, 4, 3) for _ in range(n_w)]
        for r in runner.parallel(random_worker, payloads):
            ex.merge(r)
        # shrink one failure per class
        seen = {}
        for f in ex.failures:
            seen.setdefault((f.kind, f.what, f.signature), f)
        shrunk = {k: shrink_failure(f) for k, f in seen.items()}
        ex.failures = [shrunk[(f.kind, f.what, f.signature)] for f in seen.values()]
        # monitor failures first (a correspondence break with a monitor failure is a violation)
        ex.failures.sort(key=lambda f: (f.kind != 'monitor', f.signature is not None))
        return ex

    def search(self, tier, seed, failures):
        """after a correspondence-only break: more random schedules around the disagreeing programs"""
        found = []
        rng = random.Random(seed + 99)
        for f in failures[:3]:
            items = [(f.case, _Mk('random', rng.randrange(1 << 30), p)) for p in (0.2, 0.5, 0.8, 1.0) for _ in range(40)]
            ex = process(items)
            found += [x for x in ex.failures if x.kind == 'monitor']
            if found:
                break
        return [shrink_failure(x) for x in found[:1]]

    def replay(self, path):
        with open(path) as fh:
            payload = json.load(fh)
        case = payload.get('case', payload)
        r, fs = run_replay(case)
        if r is not None:
            print('status=%s events=%d' % (r.ctl.status, len(r.events)))
            for e in r.events:
                print('  ', e)
        for f in fs:
            print('FAIL %s %s %s signature=%s' % (f.kind, f.what, json.dumps(f.details, default=str)[:600], f.signature))
        if not fs:
            print('no failure on this tree')
        return 1 if any(f.signature is None for f in fs) else 0

    def assumptions(self):
        return [
            'partial: atomicity of single shared-memory actions (attribute reads/writes under the GIL, threading.Lock) is assumed; the harness replaces threading.Lock by a scheduler-aware mutex',
            'machine_context always contains a mutex (library default, or a user supplied non re-entrant lock); with only opaque user contexts no serialization can be expected',
            'contexts are judged on outermost calls; a re-entrant event on ANOTHER model runs under the outer call\'s contexts only (the code skips every acquisition when the thread owns the machine) - recorded, not judged',
            'NOT judged: an event on a model that is not registered at that moment (after machine.remove_model(model)): the model then has no configured contexts; on a flat LockedMachine such an event finds (and creates) an empty model_context_map entry and runs without a context around it. Such events ARE generated (executed silently: no events, no voluntary yields, they still wait for locks; theorems carry the hypothesis ung = false) because what follows - a re-registered model - is judged: its events must hold the machine contexts and the contexts of the latest add_model',
            'cases with unjudged events use unqueued machines (an unlocked event on a queued machine would share the queue with the other threads\' judged calls)',
            'a dynamic (removed / re-added) model is used by one thread only, through top-level calls, so that whether an event hits an unregistered model is determined by program order; racing add_model / remove_model against events on the same model from other threads is not generated',
            'the update of model_context_map inside add_model / remove_model has no yield point of its own: it is placed in the scheduling step of the call\'s last __enter__ (harness granularity), in the trace and in the model schedule',
            'may_* helpers are outside the statement\'s call list; machine.dispatch is judged as ONE machine-method call (machine contexts held once around the events of all models; the per-model events inside are re-entrant and enter nothing)',
            'LockedHierarchicalGraphMachine / LockedGraphMachine cannot be given model contexts at all (GraphMachine.add_model has no model_context parameter: TypeError) - recorded; the graph class is exercised with machine contexts only and without dynamic registration',
            'the hierarchical scope (_stack / scoped / states / events / prefix_path) is part of the opaque shared machine state of the Lean model (C06_shared_writes_in_window: written only inside the lock window); on the real classes a scope switch outside the window shows up through the serial-outcome oracle',
            'user supplied contexts do not raise in __enter__/__exit__ (a context manager whose __exit__ raises breaks the with-protocol it is part of; judged outside the statement, which speaks of raising CALLBACKS) and user mutexes are non re-entrant',
            'the Lean model\'s `ret raised` is kind-agnostic (ExitStack unwinds on every BaseException); the harness varies the kind of exception raised by callbacks and probes release from another thread for every kind',
            'exhaustive enumeration is bounded by the number of preemptions (2 quick / 3 thorough) and capped per program; the theorems are unbounded',
        ]


CHECK = C06()
