"""C14 — markup export is faithful, current, and round-trips into an equal machine."""
import copy
import hashlib
import json
import random

from .. import common, runner, markupcase as mc, markup_models as mm
from ..runner import Exploration, Failure


def _fp(desc):
    return hashlib.sha1(json.dumps(desc, sort_keys=True).encode()).hexdigest()[:16]


class CaseRun(object):
    """one description driven through the real classes; failures of the oracle and the material for the
    correspondence with the Lean model"""

    def __init__(self, desc):
        self.desc = desc
        self.failures = []       # (kind, what, details, signature)
        self.request = None
        self.enc = {}
        self.info = {}
        self.stats = {}
        self.skipped_mods = 0
        self.cb_errors = []

    def run(self):
        desc = self.desc
        mm.TRUTH.clear()
        mm.TRUTH.update(desc['truth'])
        m = mc.build(desc)
        # the twin: same description on the plain markup class, same state-changing modifications, but nobody ever
        # reads its markup or renders a diagram from it
        twin = mc.build(dict(desc, graph=False))
        exp = mc.Expect(desc)
        mk = json.loads(json.dumps(m.markup))
        self._faithful(exp, mk, m, 'constructed')
        # callback programs: reads and modifications issued from inside callbacks while the models move
        decisions = {}
        script = desc.get('script') or {}

        def cmd_orig(machine, key, cmd):
            if cmd[0] != 'read':
                decisions[key] = mc.mod_is_valid(exp, cmd)
                if not decisions[key]:
                    return
                try:
                    mc.apply_mod(machine, cmd)
                except Exception as e:      # would be swallowed by the trigger call around us
                    self.cb_errors.append('%s: %s in %s' % (type(e).__name__, e, cmd[0]))
                    raise
                exp.apply(cmd)
            inner = json.loads(json.dumps(machine.markup))
            self._faithful(exp, inner, machine, 'inside callback %s: %s' % (key[0], cmd[0]))

        def cmd_twin(machine, key, cmd):
            if cmd[0] != 'read' and decisions.get(key):
                mc.apply_mod(machine, cmd)
        ctx_o = mc.Ctx(script, cmd_orig) if script else None
        ctx_t = mc.Ctx(script, cmd_twin) if script else None
        for i, mod in enumerate(desc['mods']):
            if not mc.mod_is_valid(exp, mod):
                self.skipped_mods += 1
                continue
            before = mk
            m = mc.apply_mod(m, mod, ctx_o)
            if mod[0] != 'observe':
                # (restores are applied to the twin as well: copy.deepcopy of a hierarchical machine separates
                # callback lists that transitions shared, which is core behaviour and changes later registrations)
                twin = mc.apply_mod(twin, mod, ctx_t)
            exp.apply(mod)
            mk = json.loads(json.dumps(m.markup))
            stage = 'after modification %d: %s' % (i, ' '.join(str(x) for x in mod[:2]) if mod[0] in ('observe', 'clone') else mod[0])
            self._faithful(exp, mk, m, stage)
            if mod[0] in ('observe', 'clone'):
                # a read-only observer leaves the markup as it was; a pickled / deep-copied machine exports
                # what the original exported
                d = mc.diff_paths(mc.strip_ids(before), mc.strip_ids(mk))
                if d:
                    self.failures.append(('monitor', 'current.markup-changed-by-' + ('observer' if mod[0] == 'observe' else 'restore'),
                                          {'stage': stage, 'differences': [[p, a, b] for p, a, b in d[:6]]}, None))
        if self.cb_errors:
            raise common.MachineryError('a modification issued from inside a callback was rejected by the library '
                                        '(generator problem, not a verdict): %s\n%s' % (self.cb_errors[:2], json.dumps(desc)[:2500]))
        codec = mc.Codec(desc['hier'], desc['opts']['model_attribute'])
        wst, wtr = mc.whitelist_codes()
        self.request = ('c14', [len(wst)] + wst + [len(wtr)] + wtr + codec.cfg(m))
        self.enc['markup'] = codec.markup(mk)
        fs, info = mc.check_roundtrip(exp, m, mk, desc['history'], codec=codec, twin=twin)
        m2 = info.pop('m2', None)
        if m2 is not None and 'pre' in info:
            self.enc['cfg2'], self.enc['markup2'] = info.pop('pre')
        self.info = info
        self.codec = codec
        for what, details, sig in fs:
            self.failures.append(('monitor', what, details, sig))
        return self

    def _faithful(self, exp, mk, m, stage):
        for what, details, sig in mc.check_faithful(exp, mk, m, stage):
            if stage != 'constructed':
                what = what.replace('faithful.', 'current.')
            self.failures.append(('monitor', what, details, sig))

    def judge_model(self, answer):
        """compare with the Lean model's answer (correspondence) and tie the theorem's hypothesis to the
        implementation (a configuration inside `rtOK` must round-trip)"""
        parts = [p.split() for p in answer.split('|')]
        if answer.strip() == 'bad-input' or len(parts) < 3:
            raise common.MachineryError('driver could not decode a c14 request: %r' % answer[:80])
        mk_model = [int(x) for x in parts[0]]
        rtok = parts[1] == ['1']
        imported = parts[2] == ['1']
        self.stats['rtOK'] = rtok
        if mk_model != self.enc['markup']:
            k = next((i for i, (a, b) in enumerate(zip(mk_model, self.enc['markup'])) if a != b),
                     min(len(mk_model), len(self.enc['markup'])))
            self.failures.append(('correspondence', 'export_eq', {
                'first_difference_at_token': k, 'model': mk_model[max(0, k - 6):k + 6],
                'impl': self.enc['markup'][max(0, k - 6):k + 6],
                'interned': {v: s for s, v in self.codec.I.t.items() if v in mk_model[max(0, k - 6):k + 6]
                             or v in self.enc['markup'][max(0, k - 6):k + 6]}}, None))
        if imported != self.info['rebuilt']:
            self.failures.append(('correspondence', 'import_defined', {'model_imports': imported,
                                                                       'impl_imports': self.info['rebuilt']}, None))
        elif imported:
            cfg2 = [int(x) for x in parts[3]]
            mk2 = [int(x) for x in parts[4]]
            if cfg2 != self.enc['cfg2']:
                k = next((i for i, (a, b) in enumerate(zip(cfg2, self.enc['cfg2'])) if a != b), min(len(cfg2), len(self.enc['cfg2'])))
                self.failures.append(('correspondence', 'import_eq', {
                    'first_difference_at_token': k, 'model': cfg2[max(0, k - 6):k + 6],
                    'impl': self.enc['cfg2'][max(0, k - 6):k + 6]}, None))
            if mk2 != self.enc['markup2']:
                self.failures.append(('correspondence', 'reexport_eq', {}, None))
        if rtok and not (self.info['rebuilt'] and self.info['markup_equal']):
            self.failures.append(('monitor', 'roundtrip.inside-theorem-domain', {
                'note': 'the object state meets rtOK (hypotheses of C14_roundtrip_markup_partial) but the '
                        'rebuilt machine does not exist or exports a different markup'}, None))


def run_batch(descs, model=True):
    runs = []
    for d in descs:
        try:
            runs.append(CaseRun(d).run())
        except common.MachineryError:
            raise
        except Exception as e:      # the library rejected a generated description: machinery, not a verdict
            import traceback
            raise common.MachineryError('case could not be realised: %s\n%s\n%s' % (
                e, traceback.format_exc()[-1500:], json.dumps(d)[:3000]))
    if model:
        answers = common.batch_driver([r.request for r in runs])
        for r, a in zip(runs, answers):
            r.judge_model(a)
    return runs


def nontrivial(desc, run):
    st = any(s[k] for s in mc._walk(desc['states']) for k in ('on_enter', 'on_exit'))
    tr = any(t[k] for t in desc['transitions'] for k in ('conditions', 'unless', 'prepare', 'before', 'after'))
    moved = any(r['out'] == ['ret', True] for r in run.info.get('record', []))
    return bool(st and tr and moved)


def chunk(seed, idx, n, stream):
    rng = random.Random('C14/%s/%d/%d' % (stream, seed, idx))
    knobs = {}
    if stream == 'clean':
        # a plainer population: no internal transitions, default flags, model_attribute 'state', no helper calls
        knobs = {'p_internal': 0.0, 'flags': False, 'p_attr': 0.0, 'helper': False}
    descs = [mc.gen_case(rng, hier=(rng.random() < 0.5), knobs=knobs) for _ in range(n)]
    ex = Exploration()
    for d, r in zip(descs, run_batch(descs)):
        ex.evaluations += 1
        ex.traces_validated += 1
        if nontrivial(d, r):
            ex.nontrivial.add(_fp(d))
            if len(ex.samples) < 1:
                ex.samples.append({'stream': stream, 'hier': d['hier'], 'opts': d['opts'],
                                   'states': mc.all_names(d['states']), 'n_transitions': len(d['transitions']),
                                   'mods': [m[0] for m in d['mods']], 'history': d['history'][:6],
                                   'record_head': r.info.get('record', [])[:2]})
        _stats(ex.stats, d, r)
        for kind, what, details, sig in r.failures:
            ex.failures.append(Failure(kind, what, {'stream': stream, 'desc': d}, details, signature=sig))
    return ex


# ---------------------------------------------------------------------------------------------
# async markup-capable classes: option oracle (queued in {False, True, 'model'})
# ---------------------------------------------------------------------------------------------

def gen_async(rng):
    names = rng.sample(['A', 'B', 'C', 'D'], rng.randint(2, 4))
    hier = rng.random() < 0.5
    cbn = [0]

    def cbs(p=0.5):
        if rng.random() > p:
            return []
        out = []
        for _ in range(rng.randint(1, 2)):
            cbn[0] += 1
            out.append('cb%d' % cbn[0])
        return out
    return {'hier': hier, 'queued': rng.choice([False, True, 'model', 'model']), 'send_event': rng.random() < 0.4,
            'auto_transitions': rng.random() < 0.5, 'ignore_invalid_triggers': rng.choice([None, False, True]),
            'model_attribute': rng.choice(['state', 'state', 'mode']), 'name': rng.choice([None, 'am', 'Stage 2:']),
            'machine_cbs': {k: cbs() for k in mc.MACHINE_LISTS}, 'states': names, 'initial': rng.choice(names),
            'transitions': [['go%d' % rng.randint(0, 2), rng.choice(names), rng.choice(names)] for _ in range(rng.randint(1, 4))],
            'n_models': rng.randint(1, 3)}


def judge_async(d):
    """AsyncGraphMachine / HierarchicalAsyncGraphMachine (mermaid): every machine-level option and list of the
    description under its own key with its own value (queued may be a queue *mode*), and the rebuilt machine
    carries the same options"""
    from transitions.extensions.factory import AsyncGraphMachine, HierarchicalAsyncGraphMachine
    cls = HierarchicalAsyncGraphMachine if d['hier'] else AsyncGraphMachine
    kw = {k: list(v) for k, v in d['machine_cbs'].items() if v}
    m = cls(model=[mm.ModelA() for _ in range(d['n_models'])], states=list(d['states']), initial=d['initial'],
            transitions=[list(t) for t in d['transitions']], queued=d['queued'], send_event=d['send_event'],
            auto_transitions=d['auto_transitions'], ignore_invalid_triggers=d['ignore_invalid_triggers'],
            model_attribute=d['model_attribute'], name=d['name'], graph_engine='mermaid', **kw)
    mk = json.loads(json.dumps(m.markup))
    out = []
    for k in ('queued', 'send_event', 'auto_transitions', 'ignore_invalid_triggers', 'model_attribute'):
        if k not in mk or mk[k] != d[k] or type(mk[k]) is not type(d[k]):
            out.append(('faithful.option', {'class': cls.__name__, 'key': k, 'expected': d[k], 'markup': mk.get(k, '<absent>')}))
    if mk.get('name') != d['name']:
        out.append(('faithful.option', {'class': cls.__name__, 'key': 'name', 'expected': d['name'], 'markup': mk.get('name')}))
    for k in mc.MACHINE_LISTS:
        if mk.get(k) != d['machine_cbs'][k]:
            out.append(('faithful.machine-list', {'class': cls.__name__, 'key': k, 'expected': d['machine_cbs'][k], 'markup': mk.get(k)}))
    if [e.get('name') for e in mk.get('states', [])] != d['states']:
        out.append(('faithful.states', {'class': cls.__name__, 'expected': d['states'], 'markup': [e.get('name') for e in mk.get('states', [])]}))
    if len(mk.get('models', [])) != d['n_models']:
        out.append(('faithful.models', {'class': cls.__name__, 'expected': d['n_models'], 'markup': len(mk.get('models', []))}))
    try:
        m2 = cls(markup=json.loads(json.dumps(mk)), graph_engine='mermaid')
    except Exception as e:
        out.append(('roundtrip.import-raises', {'class': cls.__name__, 'exception': '%s: %s' % (type(e).__name__, e)}))
        return out
    for attr in ('has_queue', 'send_event', 'auto_transitions', 'ignore_invalid_triggers', 'model_attribute', 'name'):
        a, b = getattr(m, attr), getattr(m2, attr)
        if a != b or type(a) is not type(b):
            out.append(('roundtrip.machine-attribute-differs', {'class': cls.__name__, 'attribute': attr, 'original': a, 'rebuilt': b}))
    dd = mc.diff_paths(mc.strip_ids(mk), mc.strip_ids(m2.markup))
    if dd:
        out.append(('roundtrip.markup-differs', {'class': cls.__name__, 'differences': [[p, a, b] for p, a, b in dd[:4]]}))
    return out


def async_chunk(seed, idx, n):
    rng = random.Random('C14/async/%d/%d' % (seed, idx))
    ex = Exploration()
    for _ in range(n):
        d = gen_async(rng)
        try:
            fs = judge_async(d)
        except Exception as e:
            import traceback
            raise common.MachineryError('async case could not be realised: %s\n%s\n%s' % (e, traceback.format_exc()[-1200:], json.dumps(d)))
        ex.evaluations += 1
        ex.traces_validated += 1
        ex.nontrivial.add(_fp(d))
        _bump(ex.stats.setdefault('async_queued', {}), '%s/%s' % ('hier' if d['hier'] else 'flat', d['queued']))
        for what, details in fs:
            ex.failures.append(Failure('monitor', what, {'stream': 'async', 'desc': d}, details))
    return ex


def _bump(d, k, n=1):
    d[k] = d.get(k, 0) + n


def _stats(st, d, r):
    _bump(st.setdefault('class', {}), ('hierarchical' if d['hier'] else 'flat') + ('+diagram' if d.get('graph') else ''))
    _bump(st.setdefault('state_definitions', {}), 'enum:' + d['enum'] if d.get('enum') else 'names')
    _bump(st.setdefault('callback_program_commands', {}), str(sum(len(v) for v in (d.get('script') or {}).values())))
    _bump(st.setdefault('n_states', {}), str(len(mc.all_names(d['states']))))
    _bump(st.setdefault('n_models', {}), str(len(d['models'])))
    _bump(st.setdefault('n_modifications_applied', {}), str(len(d['mods']) - r.skipped_mods))
    for m in d['mods']:
        _bump(st.setdefault('modification_kinds', {}), m[0])
    o = d['opts']
    _bump(st.setdefault('options', {}), 'q%d s%d a%d i%s %s' % (o['queued'], o['send_event'], o['auto_transitions'],
                                                              o['ignore_invalid_triggers'], o['model_attribute']))
    _bump(st.setdefault('theorem_domain', {}), 'rtOK' if r.stats.get('rtOK') else 'excluded')
    _bump(st.setdefault('rebuilt', {}), str(r.info.get('rebuilt')))
    _bump(st.setdefault('rebuilt_markup_identical', {}), str(r.info.get('markup_equal')))
    for rec in r.info.get('record', []):
        _bump(st.setdefault('history_outcomes', {}), ':'.join(map(str, rec['out'])))
        _bump(st, 'callbacks_recorded', len(rec['calls']))
    for _k, _w, _d, sig in r.failures:
        if sig:
            _bump(st.setdefault('known_signatures', {}), sig)


def shrink_steps(case):
    d = case['desc']

    def mk(nd):
        return {'stream': case['stream'], 'desc': nd}
    for key in ('mods', 'history', 'transitions'):
        for i in range(len(d[key])):
            c = copy.deepcopy(d)
            del c[key][i]
            if key != 'transitions' or c[key]:
                yield mk(c)
    for i, m in enumerate(d['mods']):
        if m[0] == 'add_states' and len(m[1]) > 1:
            for j in range(len(m[1])):
                c = copy.deepcopy(d)
                del c['mods'][i][1][j]
                yield mk(c)
    if d.get('graph'):
        c = copy.deepcopy(d)
        c['graph'] = False
        yield mk(c)
    for name, cmds in sorted((d.get('script') or {}).items()):
        for j in range(len(cmds)):
            c = copy.deepcopy(d)
            del c['script'][name][j]
            if not c['script'][name]:
                del c['script'][name]
            yield mk(c)
    if d.get('enum'):
        c = copy.deepcopy(d)
        c['enum'] = None
        yield mk(c)
    for i in range(1, len(d['models'])):
        if i == len(d['models']) - 1:
            c = copy.deepcopy(d)
            del c['models'][i]
            c['history'] = [h for h in c['history'] if h[0] != i]
            c['mods'] = [m for m in c['mods'] if not (m[0] == 'trigger' and m[1] == i)]
            yield mk(c)
    for k in mc.MACHINE_LISTS:
        if d['machine_cbs'][k]:
            c = copy.deepcopy(d)
            c['machine_cbs'][k] = []
            yield mk(c)
    for ti, t in enumerate(d['transitions']):
        for k in ('conditions', 'unless', 'prepare', 'before', 'after'):
            if t[k]:
                c = copy.deepcopy(d)
                c['transitions'][ti][k] = []
                yield mk(c)

    def states(path):
        lst = d['states']
        for i in path:
            lst = lst[i]['children']
        return lst
    stack = [[]]
    while stack:
        path = stack.pop()
        for i, s in enumerate(states(path)):
            stack.append(path + [i])
            for k in ('on_enter', 'on_exit', 'on_final', 'transitions'):
                if s[k]:
                    c = copy.deepcopy(d)
                    lst = c['states']
                    for j in path:
                        lst = lst[j]['children']
                    lst[i][k] = []
                    yield mk(c)
            if s['children']:
                c = copy.deepcopy(d)
                lst = c['states']
                for j in path:
                    lst = lst[j]['children']
                lst[i]['children'] = []
                lst[i]['initial'] = None
                lst[i]['transitions'] = []
                yield mk(c)
            if path or len(d['states']) > 2:
                c = copy.deepcopy(d)
                lst = c['states']
                for j in path:
                    lst = lst[j]['children']
                del lst[i]
                yield mk(c)
    for k, v in (('queued', False), ('send_event', False), ('auto_transitions', False), ('name', None)):
        if d['opts'][k] != v:
            c = copy.deepcopy(d)
            c['opts'][k] = v
            yield mk(c)


def valid_desc(d):
    """a shrunk description must still be one the generator could have produced: every referenced state exists
    (the library creates a missing initial state silently and resolves sources lazily, which would turn the
    replay into a different, spurious disagreement with the expected view)"""
    names = set(mc.all_names(d['states']))
    tops = set(s['name'] for s in d['states'])
    if d['initial'] not in tops:
        return False
    later = set(names)
    for m in d['mods']:
        if m[0] == 'add_state':
            later |= set(mc.all_names([m[1]]))
        elif m[0] == 'add_states':
            later |= set(mc.all_names(m[1]))

    def refs_ok(t, pool):
        srcs = t['source'] if isinstance(t['source'], list) else [t['source']]
        return all(x in pool or x == '*' for x in srcs) and (t['dest'] in pool or t['dest'] in (None, '='))
    if not all(refs_ok(t, names) for t in d['transitions']):
        return False
    for m in d['mods']:
        if m[0] == 'add_transition' and not refs_ok(m[1], later):
            return False
        if m[0] in ('state_cb', 'helper_cb') and m[2] not in later:
            return False
        if m[0] in ('trigger', 'observe') and m[1 if m[0] == 'trigger' else 2] >= len(d['models']):
            return False
    for md in d['models']:
        if md['initial'] is not None and md['initial'] not in names:
            return False
    for st in list(mc._walk(d['states'])) + [x for m in d['mods'] if m[0] in ('add_state', 'add_states')
                                             for x in mc._walk([m[1]] if m[0] == 'add_state' else m[1])]:
        kids = set(c['name'] for c in st['children'])
        ini = st['initial'] if isinstance(st['initial'], list) else ([st['initial']] if st['initial'] is not None else [])
        if not all(i in kids for i in ini):
            return False
        if not all(t['source'] in kids and (t['dest'] in kids or t['dest'] is None) for t in st['transitions']):
            return False
    return all(h[0] < len(d['models']) for h in d['history'])


def rejudge(case, model=True):
    return run_batch([case['desc']], model=model)[0]


class C14(runner.Check):
    prop = 'C14'
    level = 'proof'
    strict_correspondence = True
    theorems = ('TM.C14_faithful_machine', 'TM.C14_faithful_tree', 'TM.C14_faithful_state', 'TM.C14_faithful_ignore',
                'TM.C14_faithful_transitions', 'TM.C14_faithful_transition_fields', 'TM.C14_transition_entry_roundtrip',
                'TM.C14_current', 'TM.C14_current_export', 'TM.C14_roundtrip_markup')
    rule = ('random flat and hierarchical machine descriptions (2-4 top-level states, up to 3 levels, parallel initial '
            'lists, a distinct callback name in every state/transition/machine-level slot, all option combinations, '
            'machine names incl. trailing/leading colon and space, empty and non-ASCII ones, '
            'internal/reflexive/wildcard/list-source transitions, local transitions of nested states, a quarter of the '
            'machines with diagram support (GraphMachine/HierarchicalGraphMachine, mermaid), 1-3 models incl. '
            'the machine itself, 0-9 later modifications: add_states (single definitions and lists mixing compound and '
            'plain ones)/add_transition/remove_transition/dynamic callback '
            'registration/model moves/read-only observers (diagram rendering incl. region of interest, get_transitions, '
            'may_trigger, markup reads)/pickle and deepcopy restores) x histories of 6-14 triggers; a case is non-trivial when a state slot and a '
            'transition slot hold callbacks and the history executes at least one transition; every history is run on '
            'three machines: a twin nobody ever exported/observed, the original after all exports, the rebuilt one; '
            'user triggers named like automatic ones (to_<state>) when auto_transitions is off; callback programs '
            '(markup reads and dirty-setting modifications issued from inside state/transition callbacks while the '
            'models move); Enum state definitions (plain, IntEnum, str mix-in, StrEnum); removal of locally declared '
            'triggers; option oracle on AsyncGraphMachine/HierarchicalAsyncGraphMachine (queued False/True/model); '
            'distinct = different '
            'description')
    trusted = ('hand-written model lean/Model/Markup.lean tied to /repo by equality of the encoded markup '
               '(export), of the rebuilt object state (import) and of the re-exported markup on every generated case',
               'harness/markupcase.py: object-state extraction, string interning and separator splitting '
               '(split/join is a bijection when no segment contains the separator), the Python oracle '
               '(check_faithful / check_roundtrip) that states the property on the exported dict',
               'behavioural equality of original and rebuilt machine is sampled (recorded callbacks, results, '
               'model states over random histories), not proved')
    manifest = dict(
        level='proof', design='DESIGN.md 4/C14 + design_notes/C14.md',
        text="Lean 4 theorems over all configurations (state trees of any depth, any events/transitions per scope incl. "
             "internal ones, any callback lists, flags, options, models) and all attribute whitelists: every "
             "state/transition/list/option/model appears under its own key and the entry determines the effective "
             "state flag (C14_faithful_*), the dirty flag keeps the cached dict current under any sequence of "
             "modifications and reads (C14_current), and the machine rebuilt from the exported markup exists and "
             "exports the identical markup for every well-formed configuration (C14_roundtrip_markup, hypothesis = "
             "dict invariants + reserved to_ names, evaluated by the driver on every generated machine). The model is "
             "tied to /repo on every run by equality of export, import and re-export on generated machines; a Python "
             "oracle judges the real markup against the generating description after construction and after every "
             "modification, and original and rebuilt machine are compared on random event histories; the witnesses of "
             "the six defects fixed in /repo run first as regression corpus.",
        note="Trusted: Lean kernel, Model/Markup.lean (hand-written after markup.py), harness extraction/interning, the "
             "Python oracle; behavioural equality is sampled. Assumes callbacks given by name, JSON-able state names "
             "without the separator and not named after model_attribute, auto_transitions_markup left False, an "
             "initial state configured.",
        technique="Lean 4 proof (mutual structural induction over the state tree, dict-regrouping lemma, dirty-flag "
                  "invariant) + differential correspondence + Python property oracle + behavioural differential")

    streams = (('mixed', (16, 260), (64, 800)), ('clean', (16, 110), (32, 600)))

    def explore(self, tier, seed):
        # whitelist hypotheses of C14_faithful_state / C14_faithful_transition_fields / C14_roundtrip_markup
        wst, wtr = mc.whitelist_codes()
        missing = [k for k, c in sorted(mc.ST_CODES.items()) if c not in wst] + [k for k, c in sorted(mc.TR_CODES.items()) if c not in wtr]
        payloads = []
        for name, quick, thorough in self.streams:
            nch, per = quick if tier == 'quick' else thorough
            payloads += [(seed, i, per, name) for i in range(nch)]
        ex = self.corpus()
        for part in runner.parallel(async_chunk, [(seed, i, 40 if tier == 'quick' else 400) for i in range(4)]):
            ex.merge(part)
        if missing:
            ex.failures.append(Failure('correspondence', 'theorem-hypothesis.whitelist', {'stream': 'none', 'desc': None},
                                       {'missing_from_live_whitelists': missing}))
        for part in runner.parallel(chunk, payloads):
            ex.merge(part)
        self._shrink(ex.failures)
        return ex

    def corpus(self):
        """regression cases (corpus/C14/*.json: the witnesses of the findings fixed in /repo), run first"""
        import glob
        import os
        ex = Exploration()
        files = sorted(glob.glob(os.path.join(common.CORPUS, 'C14', '*.json')))
        cases = []
        for f in list(files):
            with open(f) as fh:
                c = json.load(fh)
            if c.get('stream') == 'async':      # option oracle on the async markup-capable classes
                files.remove(f)
                fs = judge_async(c['desc'])
                ex.evaluations += 1
                _bump(ex.stats.setdefault('corpus', {}), os.path.basename(f) + (':FAIL' if fs else ':ok'))
                for what, details in fs:
                    ex.failures.append(Failure('monitor', what, {'stream': 'async', 'desc': c['desc']}, details))
                continue
            cases.append(c)
        for f, c, r in zip(files, cases, run_batch([c['desc'] for c in cases])):
            ex.evaluations += 1
            ex.traces_validated += 1
            _bump(ex.stats.setdefault('corpus', {}), os.path.basename(f) + (':FAIL' if r.failures else ':ok'))
            if not r.info.get('rebuilt') or not r.info.get('markup_equal') or not r.stats.get('rtOK'):
                r.failures.append(('monitor', 'corpus.regression', {'file': os.path.basename(f), 'rebuilt': r.info.get('rebuilt'),
                                                                    'markup_equal': r.info.get('markup_equal'),
                                                                    'rtOK': r.stats.get('rtOK')}, None))
            for kind, what, details, sig in r.failures:
                ex.failures.append(Failure(kind, what, {'stream': 'corpus', 'desc': c['desc']}, details, signature=sig))
        return ex

    def _shrink(self, failures):
        """shrink what the verdict will show: the first unlisted monitor failure, else the first
        correspondence failure (known findings need no replay)"""
        known = [k.get('signature') for k in self.known()]
        unlisted = [f for f in failures if f.kind == 'monitor' and not (f.signature is not None and f.signature in known)]
        if unlisted and unlisted[0].case.get('stream') == 'async':
            return      # small by construction
        corr = [f for f in failures if f.kind != 'monitor']
        for f in (unlisted[:1] or [c for c in corr if c.case.get('desc')][:1]):
            key = (f.kind, f.what, f.signature)
            f.case = runner.shrink(f.case, self.fails_like(f.kind, f.what, f.signature), shrink_steps, budget=200)
            r = rejudge(f.case)
            for kind, what, details, sig in r.failures:
                if (kind, what, sig) == key:
                    f.details = details
                    break

    def fails_like(self, kind, what, sig):
        needs_model = kind != 'monitor' or what == 'roundtrip.inside-theorem-domain'

        def f(case):
            if not valid_desc(case['desc']):
                return False
            try:
                r = rejudge(case, model=needs_model)
            except common.MachineryError:
                return False
            return any((k, w, s) == (kind, what, sig) for k, w, _d, s in r.failures)
        return f

    def search(self, tier, seed, failures):
        payloads = [(seed + 7919, i, 40, name) for name, _q, _t in self.streams for i in range(16)]
        found = []
        for part in runner.parallel(chunk, payloads):
            found += [f for f in part.failures if f.kind == 'monitor']
        self._shrink(found)
        return found

    def replay(self, path):
        with open(path) as fh:
            payload = json.load(fh)
        if 'case' not in payload:
            print('no concrete input in this replay file: broken obligation', payload.get('broken_obligation'))
            return 1
        if payload['case'].get('stream') == 'async':
            fs = judge_async(payload['case']['desc'])
            print(json.dumps(payload['case']['desc'], indent=1))
            for what, details in fs:
                print('FAIL monitor', what, json.dumps(details, default=str)[:600])
            return 1 if fs else 0
        r = rejudge(payload['case'])
        print(json.dumps(payload['case']['desc'], indent=1)[:4000])
        known = [k.get('signature') for k in self.known()]
        bad = 0
        for kind, what, details, sig in r.failures:
            listed = sig is not None and sig in known
            bad += 0 if listed else 1
            print('KNOWN-FINDING' if listed else 'FAIL', kind, what, sig or '', json.dumps(details, default=str)[:600])
        return 1 if bad else 0

    def assumptions(self):
        return ['callbacks are given by name (strings); callables are exported through format_references and are not '
                'part of the round-trip statement',
                'an absent list-valued key and an empty list are identified (both import as "no callbacks"); a state '
                'entry may omit ignore_invalid_triggers when the machine-level flag exported next to it yields the '
                'same effective flag; automatic transitions may or may not be listed',
                'model names derived from id(model) are excluded from "identical markup"; instance attributes of '
                'models are not part of the machine',
                '"callbacks are added" means the machine\'s dynamic methods (on_enter_<state>, before_<trigger>, ...) '
                'and, on hierarchical machines, the on_enter/on_exit helpers; machine-level lists are exported as '
                'captured by the constructor (assigning machine.before_state_change later is not reflected and is not '
                'judged); auto_transitions_markup stays False; every machine has an initial state (initial=None '
                're-imports with the default state "initial")',
                'with auto_transitions on, trigger names of the form to_<state> are reserved for the automatic '
                'transitions; with auto_transitions off, user triggers named like automatic ones are generated but '
                'never with one source per state (the _is_auto_transition heuristic would then omit them); no state '
                'is named after model_attribute',
                'modifications issued from inside callbacks are generated only when no locally declared transition '
                'exists (scoped callbacks modify the scope they run in) and never add states to a hierarchical machine '
                'with auto_transitions on (nesting.py raises half way); Enum state definitions are leaf states and are '
                'not combined with hierarchical diagram machines (diagram code fails to resolve the Enum path while '
                'scoped)',
                'remove_transition is exercised on triggers that exist at machine level; model states are reached '
                'by triggers or add_model(initial=...), i.e. are resolved configurations',
                'behavioural equality original vs rebuilt is sampled over random histories (callbacks by name, '
                'results, model states), the Lean round-trip theorem is about the markup']


CHECK = C14()
