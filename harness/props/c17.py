"""C17 — state timeouts fire once, on time, and only while the state is still active.

Real classes under a virtual clock (harness/vclock.py): `Timeout` on Machine / HierarchicalMachine /
LockedMachine with `transitions.extensions.states.Timer` replaced by a virtual timer, `AsyncTimeout` on
AsyncMachine / HierarchicalAsyncMachine on a SelectorEventLoop whose clock jumps when the loop is idle.
The same case goes to the Lean model (`c17run`); the implementation's timed trace is compared with the
model's and is judged by the verified acceptor `C17.accepts` (`c17mon`).
"""
import asyncio
import copy
import hashlib
import inspect
import json
import random
import threading

from .. import common, runner, vclock
from ..runner import Exploration, Failure

THREAD_CLASSES = ('Machine', 'HierarchicalMachine', 'LockedMachine')
ASYNC_CLASSES = ('AsyncMachine', 'HierarchicalAsyncMachine')
NESTED = ('HierarchicalMachine', 'HierarchicalAsyncMachine')

TICK, ENTER, EXIT, FIRED, FIRED_END, RAISED, ROUTED = range(7)
KIND = ['tick', 'enter', 'exit', 'fired', 'firedEnd', 'raised', 'routed']


RUNAWAY = 500      # a correct run starts at most one timer per entered state


class HandlerError(Exception):
    """raised by an on_timeout handler"""


class HandlerAbort(BaseException):
    """raised by an on_timeout handler: an application exception that is not an `Exception`"""


HANDLER_ERRORS = (HandlerError, HandlerAbort, asyncio.CancelledError)
RAISE_KINDS = ('exc', 'base', 'cancel')


def handler_error(kind, sid):
    if kind == 'base':
        return HandlerAbort('S%d' % sid)
    if kind == 'cancel':
        return asyncio.CancelledError('S%d' % sid)
    return HandlerError('S%d' % sid)


class CallbackError(Exception):
    """raised by an on_enter / on_exit callback"""


class Cycle(Exception):
    """on_enter callbacks trigger each other for ever"""


MAX_CHAIN = 4


# ---------------------------------------------------------------------------------------------
# case description
# ---------------------------------------------------------------------------------------------
# case = {cls, queued, send_event, on_exc, async_cbs, states: [node], transitions: [{ev, src, dst}],
#         models: [[m, initial node id]], history: [['tick', [[m, e], ...]] | ['ev', m, e]]}
# node = {id, timeout, ncb, action, raises, children: [node], initial: child id | None,
#         cb_enter: None | ['plain'] | ['raise'] | ['trigger', e]   (an on_enter callback besides the probe)
#         cb_exit:  None | 'plain' | 'raise'}

def walk(nodes, path=()):
    for n in nodes:
        p = path + (n['id'],)
        yield n, p
        for x in walk(n['children'], p):
            yield x


def paths(case):
    return {n['id']: p for n, p in walk(case['states'])}


def nodes(case):
    return {n['id']: n for n, _p in walk(case['states'])}


def name_of(path):
    return '_'.join('S%d' % i for i in path)


def has_handler(n):
    """the state has (or gets, by dynamic registration) on_timeout handlers"""
    return n['timeout'] > 0 or bool(n.get('zero_with_handler'))


def leaf_closure(nd, sid):
    """the chain of initial children entered below state sid"""
    out = []
    n = nd[sid]
    while n['children'] and n['initial'] is not None:
        sid = n['initial']
        out.append(sid)
        n = nd[sid]
    return out


def resolve_table(case):
    """what the engine is expected to do: (leaf state, event) -> ('stay',) | ('move', prog, dest, raises) where
    prog is the sequence of Timeout.exit (0, s) / Timeout.enter (1, s) calls.
    Flat machines: the first transition registered for (source, event).  Hierarchical machines (no parallel
    states, transitions declared at root level with full names): the transition of the deepest active state
    that has one; the longest active prefix of the destination path stays, everything active below it is exited
    leaf first, the rest of the destination path and its chain of initial children is entered; a destination
    that is itself active is exited and re-entered.  The model's state value is set between the exits and the
    enters.  An on_exit / on_enter callback that raises cuts the sequence short right after its state's
    exit / enter call; an on_enter callback of the last entered state that triggers an event continues the
    sequence with that event's calls (at once when unqueued, right after the transition when queued — the same
    sequence).  raises: an exception leaves the trigger call (a callback raised, no on_exception handler)."""
    pt = paths(case)
    nd = nodes(case)
    trans = {}
    for t in case['transitions']:
        trans.setdefault((t['src'], t['ev']), t)
    events = sorted(set(t['ev'] for t in case['transitions']))

    def expand(sid, e, depth):
        p = pt[sid]
        t = None
        for k in range(len(p), 0, -1):
            t = trans.get((p[k - 1], e))
            if t is not None:
                break
        if t is None:
            return None
        pre_prog = []
        if t.get('pre') is not None:
            # a prepare / conditions / before callback of this transition triggers an event re-entrantly (flat,
            # unqueued): that event is processed completely first; the transition then leaves the state the
            # model is in NOW (not its declared source), or is given up if the exception gets through
            if depth >= MAX_CHAIN:
                raise Cycle()
            sub = expand(sid, t['pre'][1], depth + 1)
            if sub is not None and sub[0] == 'move':
                if sub[3] and not case['on_exc']:
                    return sub
                pre_prog = sub[1]
                sid = sub[2]
                p = pt[sid]
        if t['dst'] is None:
            return ('move', pre_prog, sid, False) if pre_prog else ('stay',)
        d = pt[t['dst']]
        r = 0
        while r < len(d) and r < len(p) and d[r] == p[r]:
            r += 1
        if r == len(d):
            r -= 1
        exits = [p[k - 1] for k in range(len(p), r, -1)]
        enters = [d[k - 1] for k in range(r + 1, len(d) + 1)]
        enters += leaf_closure(nd, d[-1])
        prog = list(pre_prog)
        for x in exits:
            prog.append((0, x))
            if nd[x].get('cb_exit') == 'raise':
                return ('move', prog, sid, True)
        dest = enters[-1]
        for n in enters:
            prog.append((1, n))
            if (nd[n].get('cb_enter') or [None])[0] == 'raise':
                return ('move', prog, dest, True)
        cb = nd[dest].get('cb_enter')
        if cb and cb[0] == 'trigger':
            if depth >= MAX_CHAIN:
                raise Cycle()
            sub = expand(dest, cb[1], depth + 1)
            if sub is not None and sub[0] == 'move':
                return ('move', prog + sub[1], sub[2], sub[3])
        return ('move', prog, dest, False)

    table = {}
    for sid in pt:
        if nd[sid]['children'] and nd[sid]['initial'] is not None:
            continue          # never a model's state value
        for e in events:
            st = expand(sid, e, 0)
            if st is None:
                continue
            if st[0] == 'move':
                st = ('move', st[1], st[2], st[3] and not case['on_exc'])
            table[(sid, e)] = st
    return table


def enc_run(case):
    nd = nodes(case)
    out = [len(nd)]
    for sid in sorted(nd):
        n = nd[sid]
        out += [sid, n['timeout']] + ([1, n['action']] if n['action'] is not None and has_handler(n) else [0]) \
            + [1 if n['raises'] else 0]
    out += [1 if case['on_exc'] else 0, 1 if case['cls'] in ASYNC_CLASSES else 0]
    tbl = resolve_table(case)
    out.append(len(tbl))
    for (s, e), st in sorted(tbl.items()):
        if st[0] == 'stay':
            out += [s, e, 0, 0, 0, 0]
        else:
            out += [s, e, 1, len(st[1])]
            for k, x in st[1]:
                out += [k, x]
            out += [st[2], 1 if st[3] else 0]
    nd_ = nodes(case)
    out.append(len(case['models']))
    for m, init in case['models']:
        cl = leaf_closure(nd_, init)
        out += [m, cl[-1] if cl else init]
    out.append(0)          # runner keys: the code files timers under id(model) - the identity, whatever __eq__ says
    hist = [op for op in case['history'] if op[0] != 'readd']     # membership cycles do not concern the timers
    out.append(len(hist))
    for op in hist:
        if op[0] == 'tick':
            out += [0, len(op[1])]
            for m, e in op[1]:
                out += [m, e]
        elif op[0] == 'setT':
            out += [2, op[1], op[2]]
        else:
            out += [1, op[1], op[2]]
    return out


def enc_mon(case, recs):
    """the observation cut into segments at the assignments to state.timeout, each with the timeouts in force"""
    nd = nodes(case)
    tmo = {sid: nd[sid]['timeout'] for sid in nd}
    segs, cur = [], []
    for r in recs:
        if r[0] == 'setT':
            segs.append((dict(tmo), cur))
            cur = []
            tmo[r[1]] = r[2]
        else:
            cur.append(r)
    segs.append((dict(tmo), cur))
    out = [1 if (case['on_exc'] and case['cls'] in ASYNC_CLASSES) else 0, len(segs)]
    for t, rs in segs:
        out.append(len(t))
        for sid in sorted(t):
            out += [sid, t[sid]]
        out.append(len(rs))
        for r in rs:
            out += list(r)
    return out


def drop_marks(recs):
    return [r for r in recs if r[0] != 'setT']


def parse_run(ans):
    toks = ans.split()
    if not toks or toks[0] != 'T':
        raise common.MachineryError('c17run answered %r' % ans[:200])
    n = int(toks[1])
    nums = [int(x) for x in toks[2:2 + 3 * n]]
    recs = [tuple(nums[i:i + 3]) for i in range(0, 3 * n, 3)]
    rest = toks[2 + 3 * n:]
    if len(rest) < 5 or rest[0] != 'L' or rest[2] != 'X' or rest[4] != 'C':
        raise common.MachineryError('c17run answered %r' % ans[:200])
    curs = [int(x) for x in rest[5:]]
    return recs, rest[1] == '1', rest[3] == '1', dict(zip(curs[0::2], curs[1::2]))


def show(recs):
    out, now = [], 0
    for k, m, s in recs:
        if k == 'setT':
            out.append('S%d.timeout=%d' % (m, s))
        elif k == TICK:
            now += 1
            out.append('t=%d' % now)
        else:
            out.append('%s m%d S%d' % (KIND[k], m, s))
    return out


# ---------------------------------------------------------------------------------------------
# the implementation under the virtual clock
# ---------------------------------------------------------------------------------------------

class Run(object):
    def __init__(self):
        self.recs = []
        self.now = lambda: 0
        self.ticks = 0
        self.bad = []           # harness-level observations that contradict the property directly
        self.results = []

    def rec(self, kind, m, s):
        if self.now() != self.ticks:
            self.bad.append('clock seen by a callback (%r) differs from the number of ticks (%d)' % (self.now(), self.ticks))
        self.recs.append((kind, m, s))


def _state_defs(case, ns, is_async):
    """enter / exit are observed by the probe mixin (no callback needed, so a state may have none at all);
    on_enter / on_exit callbacks exist only where the case asks for one"""
    out = []
    for n in ns:
        d = {'name': 'S%d' % n['id']}
        if n.get('cb_enter'):
            d['on_enter'] = ['cb_enter_%d' % n['id']]
        if n.get('cb_exit'):
            d['on_exit'] = ['cb_exit_%d' % n['id']]
        if n['timeout'] > 0 and n.get('reg'):
            d['timeout'] = n['timeout']
            d['on_timeout'] = []          # the handlers arrive later, by dynamic registration
        elif n['timeout'] > 0:
            d['timeout'] = n['timeout']
            d['on_timeout'] = ['rec_pre_%d' % n['id']] * (n['ncb'] - 1) + ['rec_timeout_%d' % n['id']]
        elif n.get('zero_with_handler'):
            d['timeout'] = 0
            d['on_timeout'] = ['rec_timeout_%d' % n['id']]
        if n['children']:
            d['children'] = _state_defs(case, n['children'], is_async)
            if n['initial'] is not None:
                d['initial'] = 'S%d' % n['initial']
        out.append(d)
    return out


def _probe_class(run, is_async):
    """state mixin placed in front of Timeout / AsyncTimeout: records `enter` / `exit` synchronously when the
    engine calls the state's enter / exit, then hands on to the timeout feature (no suspension point added)"""
    from transitions.core import State
    from transitions.extensions.asyncio import AsyncState

    def sid_of(state):
        return int(state.name.rsplit('_', 1)[-1][1:])

    if is_async:
        class Probe(AsyncState):
            async def enter(self, event_data):
                run.rec(ENTER, event_data.model.idx, sid_of(self))
                await super(Probe, self).enter(event_data)

            async def exit(self, event_data):
                run.rec(EXIT, event_data.model.idx, sid_of(self))
                await super(Probe, self).exit(event_data)
    else:
        class Probe(State):
            def enter(self, event_data):
                run.rec(ENTER, event_data.model.idx, sid_of(self))
                super(Probe, self).enter(event_data)

            def exit(self, event_data):
                run.rec(EXIT, event_data.model.idx, sid_of(self))
                super(Probe, self).exit(event_data)
    return Probe


def _model_class(case, run, is_async):
    nd = nodes(case)
    send_event = case['send_event']
    async_cbs = is_async and case['async_cbs']

    model_eq = case.get('model_eq', 'identity')
    pks = case.get('pks') or [m for m, _i in case['models']]

    class Model(object):
        raised = None

        @classmethod
        def make(cls, idx):
            obj = cls()
            obj.idx = idx
            obj.pk = pks[idx]
            return obj

    if model_eq != 'identity':
        # value objects: two handles on the same record compare equal - but they are two models
        Model.__eq__ = lambda self, other: isinstance(other, Model) and other.pk == self.pk
        Model.__ne__ = lambda self, other: not (isinstance(other, Model) and other.pk == self.pk)
        Model.__hash__ = None if model_eq == 'unhashable' else (lambda self: hash(('model', self.pk)))

    def mk_pre(sid):
        if async_cbs:
            async def f(self, *a, **k):
                run.rec('pre', self.idx, sid)
        else:
            def f(self, *a, **k):
                run.rec('pre', self.idx, sid)
        return f

    def mk_cb(kind, sid, ev):
        """an on_enter / on_exit callback: does nothing, raises, or triggers an event on its own model"""
        if is_async and (async_cbs or kind == 'trigger'):
            async def f(self, *a, **k):
                if kind == 'raise':
                    self.raised = ('cb', sid, CallbackError('S%d' % sid))
                    raise self.raised[2]
                if kind == 'trigger':
                    res = self.trigger('e%d' % ev)
                    if inspect.isawaitable(res):
                        await res
        else:
            def f(self, *a, **k):
                if kind == 'raise':
                    self.raised = ('cb', sid, CallbackError('S%d' % sid))
                    raise self.raised[2]
                if kind == 'trigger':
                    self.trigger('e%d' % ev)
        return f

    def check_event_data(self, sid, a):
        if send_event:
            ed = a[0] if a else None
            if ed is None or ed.model is not self:
                run.bad.append('on_timeout of S%d received event data of another model' % sid)

    def mk_timeout(sid):
        n = nd[sid]
        if is_async:
            async def f(self, *a, **k):
                run.rec(FIRED, self.idx, sid)
                check_event_data(self, sid, a)
                if n['action'] is not None:
                    try:
                        res = self.trigger('e%d' % n['action'])
                        if inspect.isawaitable(res):      # an event name no transition uses answers False at once
                            await res
                    except CallbackError:
                        run.rec(RAISED, self.idx, sid)    # the handler ends with the error of the event it triggered
                        raise
                if n['raises']:
                    run.rec(RAISED, self.idx, sid)
                    kind = n.get('raise_kind', 'exc')
                    if kind == 'cancel':
                        # the usual way an asyncio callback fails: something it waits for was cancelled elsewhere
                        self.raised = ('timeout', sid, asyncio.CancelledError)
                        fut = asyncio.get_running_loop().create_future()
                        fut.cancel()
                        await fut
                    self.raised = ('timeout', sid, handler_error(kind, sid))
                    raise self.raised[2]
                run.rec(FIRED_END, self.idx, sid)
        else:
            def f(self, *a, **k):
                run.rec(FIRED, self.idx, sid)
                check_event_data(self, sid, a)
                if n['action'] is not None:
                    try:
                        self.trigger('e%d' % n['action'])
                    except CallbackError:
                        run.rec(RAISED, self.idx, sid)
                        raise
                if n['raises']:
                    run.rec(RAISED, self.idx, sid)
                    self.raised = ('timeout', sid, handler_error(n.get('raise_kind', 'exc'), sid))
                    raise self.raised[2]
                run.rec(FIRED_END, self.idx, sid)
        return f

    def rec_exception(self, *a, **k):
        kind, sid, err = self.raised if self.raised else (None, 0, None)
        self.raised = None
        if send_event:
            ed = a[0] if a else None
            if ed is None or not (ed.error is err or (isinstance(err, type) and isinstance(ed.error, err))):
                run.bad.append('on_exception did not receive the error that was raised')
        if kind == 'timeout':        # errors of on_enter / on_exit callbacks are not the timeout feature's business
            run.rec(ROUTED, self.idx, sid)

    for sid in nd:
        n = nd[sid]
        if n.get('cb_enter'):
            setattr(Model, 'cb_enter_%d' % sid, mk_cb(n['cb_enter'][0], sid, (n['cb_enter'] + [None])[1]))
        if n.get('cb_exit'):
            setattr(Model, 'cb_exit_%d' % sid, mk_cb(n['cb_exit'], sid, None))
        setattr(Model, 'rec_pre_%d' % sid, mk_pre(sid))
        setattr(Model, 'rec_timeout_%d' % sid, mk_timeout(sid))
        if n.get('reg') == 'model' and n['timeout'] > 0:
            # the model's convenience method: add_model registers it as an on_timeout callback of the state
            setattr(Model, 'on_timeout_' + name_of(paths(case)[sid]), mk_timeout(sid))
    def mk_pre_trigger(ev):
        if is_async:
            async def f(self, *a, **k):
                res = self.trigger('e%d' % ev)
                if inspect.isawaitable(res):
                    await res
                return True
        else:
            def f(self, *a, **k):
                self.trigger('e%d' % ev)
                return True
        return f

    for k, t in enumerate(case['transitions']):
        if t.get('pre') is not None:
            setattr(Model, 'cb_pre_%d' % k, mk_pre_trigger(t['pre'][1]))
    Model.rec_exception = rec_exception
    return Model


def _machine(case, run):
    from transitions import Machine
    from transitions.extensions import HierarchicalMachine, LockedMachine
    from transitions.extensions.states import Timeout, add_state_features
    from transitions.extensions.asyncio import AsyncMachine, HierarchicalAsyncMachine, AsyncTimeout
    base = {'Machine': Machine, 'HierarchicalMachine': HierarchicalMachine, 'LockedMachine': LockedMachine,
            'AsyncMachine': AsyncMachine, 'HierarchicalAsyncMachine': HierarchicalAsyncMachine}[case['cls']]
    is_async = case['cls'] in ASYNC_CLASSES
    feature = AsyncTimeout if is_async else Timeout

    Model = _model_class(case, run, is_async)
    if case.get('self_model'):
        # the machine is its own model: recorders and convention-named on_timeout_<state> methods live on it
        @add_state_features(_probe_class(run, is_async), feature)
        class TimeoutMachine(Model, base):
            idx = 0
            pk = 0
    else:
        @add_state_features(_probe_class(run, is_async), feature)
        class TimeoutMachine(base):
            pass
    models = [] if case.get('self_model') else [Model.make(m) for m, _i in case['models']]
    pt = paths(case)
    transitions = []
    for k, t in enumerate(case['transitions']):
        d = {'trigger': 'e%d' % t['ev'], 'source': name_of(pt[t['src']]),
             'dest': None if t['dst'] is None else name_of(pt[t['dst']])}
        if t.get('pre') is not None:
            d[t['pre'][0]] = ['cb_pre_%d' % k]        # 'prepare' | 'conditions' | 'before'
        transitions.append(d)
    kw = {}
    if case['on_exc']:
        kw['on_exception'] = ['rec_exception']
    first = case['models'][0][1]
    if case.get('self_model'):
        machine = TimeoutMachine(states=_state_defs(case, case['states'], is_async), transitions=transitions,
                                 initial=name_of(pt[first]), auto_transitions=False, ignore_invalid_triggers=True,
                                 queued=case['queued'], send_event=case['send_event'], **kw)
        run.machines = [machine]
        _register_handlers(case, machine)
        return machine, [machine]
    if case.get('layout', 'shared') == 'per_model':
        # one machine per model; the State objects are created once and handed to every machine
        # (the "state definitions on the class, one machine per instance" layout): they share `runner`
        machine = TimeoutMachine(model=models[0], states=_state_defs(case, case['states'], is_async),
                                 transitions=transitions, initial=name_of(pt[first]), auto_transitions=False,
                                 ignore_invalid_triggers=True, queued=case['queued'], send_event=case['send_event'], **kw)
        shared = list(machine.states.values())
        run.machines = [machine]
        for mo, (_m, init) in list(zip(models, case['models']))[1:]:
            run.machines.append(TimeoutMachine(model=mo, states=shared, transitions=transitions,
                                               initial=name_of(pt[init]), auto_transitions=False,
                                               ignore_invalid_triggers=True, queued=case['queued'],
                                               send_event=case['send_event'], **kw))
        _register_handlers(case, machine)
        return machine, models
    machine = TimeoutMachine(model=None, states=_state_defs(case, case['states'], is_async), transitions=transitions,
                             initial=name_of(pt[first]), auto_transitions=False, ignore_invalid_triggers=True,
                             queued=case['queued'], send_event=case['send_event'], **kw)
    for mo, (_m, init) in zip(models, case['models']):
        machine.add_model(mo, initial=name_of(pt[init]))
    run.machines = [machine]
    _register_handlers(case, machine)
    return machine, models


def _register_handlers(case, machine):
    """the other two routes by which a state created with an empty on_timeout list gets its handlers"""
    pt = paths(case)
    for sid, n in nodes(case).items():
        if n['timeout'] > 0 and n.get('reg') == 'machine':
            getattr(machine, 'on_timeout_' + name_of(pt[sid]))('rec_timeout_%d' % sid)
        elif n['timeout'] > 0 and n.get('reg') == 'state':
            machine.get_state(name_of(pt[sid])).add_callback('timeout', 'rec_timeout_%d' % sid)


def _sync_trigger(run, model, name):
    try:
        run.results.append(model.trigger(name))
    except CallbackError:
        run.results.append('raised')
    except Exception as err:        # noqa
        run.bad.append('trigger %s raised %r' % (name, err))


def run_threads(case):
    run = Run()
    clock = vclock.VirtualClock()
    run.now = lambda: clock.now
    before = threading.active_count()

    def on_tick(_now):
        run.ticks += 1
        run.recs.append((TICK, 0, 0))
    clock.on_tick = on_tick
    with vclock.patched_timer(clock):
        machine, models = _machine(case, run)
        for op in case['history']:
            if len(clock.timers) > RUNAWAY:
                run.bad.append('more than %d timers were started' % RUNAWAY)
                break
            if op[0] == 'setT':
                machine.get_state(name_of(paths(case)[op[1]])).timeout = op[2]
                run.recs.append(('setT', op[1], op[2]))
                continue
            if op[0] == 'readd':
                # the model is taken off the machine and registered again, in the state it is in
                mo = models[op[1]]
                state = mo.state
                machine.remove_model(mo)
                machine.add_model(mo, initial=state)
                continue
            if op[0] == 'tick':
                clock.tick()
                for m, e in op[1]:
                    _sync_trigger(run, models[m], 'e%d' % e)
                clock.fire_due()
            else:
                _sync_trigger(run, models[op[1]], 'e%d' % op[2])
    real = [t for t in threading.enumerate() if isinstance(t, threading.Timer)]
    for t in real:
        t.cancel()
    for t in real:
        t.join(2)
    if real or threading.active_count() != before:
        raise common.MachineryError('the virtual Timer substitution is ineffective: real timer threads were started '
                                    '(transitions.extensions.states no longer uses its module global `Timer`)')
    run.handler_errors = [t.error for t in clock.timers if t.error is not None]
    for err in run.handler_errors:
        if not isinstance(err, HANDLER_ERRORS + (CallbackError,)):
            run.bad.append('timer function raised %r' % (err,))
    run.final = [getattr(mo, 'state') for mo in models]
    return run


async def _await_triggers(run, pairs):
    """the events of one instant, one after the other in ONE task: nothing lets the loop run in between
    except what the library itself awaits"""
    for model, name in pairs:
        try:
            res = model.trigger(name)
            if inspect.isawaitable(res):
                res = await res
            run.results.append(res)
        except CallbackError:
            run.results.append('raised')
        except Exception as err:        # noqa
            run.bad.append('trigger %s raised %r' % (name, err))


def run_async(case):
    import asyncio
    run = Run()
    loop = vclock.VirtualLoop()
    run.now = loop.time

    def on_tick(_now):
        run.ticks += 1
        run.recs.append((TICK, 0, 0))
    loop.on_tick = on_tick
    try:
        machine, models = _machine(case, run)
        hist = case['history']
        k = 0
        while k < len(hist):
            op = hist[k]
            if len(asyncio.all_tasks(loop)) > RUNAWAY:
                run.bad.append('more than %d tasks are pending' % RUNAWAY)
                break
            if op[0] == 'setT':
                machine.get_state(name_of(paths(case)[op[1]])).timeout = op[2]
                run.recs.append(('setT', op[1], op[2]))
                k += 1
                continue
            if op[0] == 'tick':
                if op[1]:
                    raise common.MachineryError('early events are not realisable under asyncio')
                loop.settle(loop.time() + 1)
                k += 1
                continue
            group = [op]
            while case.get('batch') and k + len(group) < len(hist) and hist[k + len(group)][0] == 'ev':
                group.append(hist[k + len(group)])
            k += len(group)
            task = loop.run_op(_await_triggers(run, [(models[o[1]], 'e%d' % o[2]) for o in group]))
            if not task.done():
                run.bad.append('trigger did not complete at its instant')
            elif task.cancelled():
                run.bad.append('trigger task was cancelled')
            elif task.exception() is not None:
                run.bad.append('trigger raised %r' % (task.exception(),))
        run.final = [getattr(mo, 'state') for mo in models]
        type(machine).async_tasks.clear()
    finally:
        pending = [t for t in asyncio.all_tasks(loop) if not t.done()]
        for t in pending:
            t.cancel()
        if pending:
            loop.on_tick = None
            loop.settle()
        left = [t for t in asyncio.all_tasks(loop) if not t.done()]
        loop.close()
        if left:
            raise common.MachineryError('tasks survived the end of a case: %r' % left[:3])
    return run


def run_impl(case):
    if case['cls'] in ASYNC_CLASSES:
        return run_async(case)
    return run_threads(case)


# ---------------------------------------------------------------------------------------------
# judging
# ---------------------------------------------------------------------------------------------

def split_pre(case, recs):
    """Take the extra `pre` callbacks (first entries of an on_timeout list with two callbacks) out of the
    trace; every firing of such a state must run each of its callbacks exactly once, in list order."""
    nd = nodes(case)
    bad = []
    out = []
    pre_open = {}
    for r in recs:
        k, m, s = r
        if k == 'pre':
            if pre_open.get((m, s)):
                bad.append('first on_timeout callback of S%d ran twice for one timeout (model %d)' % (s, m))
            pre_open[(m, s)] = True
            continue
        if k == FIRED and nd[s]['ncb'] == 2:
            if not pre_open.get((m, s)):
                bad.append('on_timeout of S%d: the last callback ran without the first one (model %d)' % (s, m))
            pre_open[(m, s)] = False
        out.append(r)
    for (m, s), v in pre_open.items():
        if v:
            bad.append('on_timeout of S%d: the first callback ran without the last one (model %d)' % (s, m))
    return out, bad


def per_model_canon(recs):
    """async observation map: within one instant the interleaving of different models is not constrained"""
    out, seg = [], []
    for r in recs:
        if r[0] == TICK:
            out += sorted(seg, key=lambda x: x[1])
            out.append(r)
            seg = []
        else:
            seg.append(r)
    return out + sorted(seg, key=lambda x: x[1])


def double_fire(recs, shared_queue):
    """two timeouts of one model within one instant — their handlers run concurrently under asyncio; with a
    machine-wide queue the handlers of different models interfere as well (an event triggered by one is
    deferred behind the other's and processed by the other's task)"""
    seen = set()
    for r in recs:
        if r[0] == TICK:
            seen = set()
        elif r[0] == FIRED:
            if r[1] in seen or (shared_queue and seen):
                return True
            seen.add(r[1])
    return False


def expected_final(case, curs):
    pt = paths(case)
    return [name_of(pt[curs[m]]) for m, _i in case['models']]


def judge(case, model_ans, mon_ans, run):
    """-> (failures, flags)"""
    out = []
    flags = {}
    mrecs, leaked, tie, curs = parse_run(model_ans)
    if leaked:
        raise common.MachineryError('generated case enters an active timeout state without leaving it: %r' % (case,))
    is_async = case['cls'] in ASYNC_CLASSES
    recs, bad = split_pre(case, run.recs)
    bad = list(run.bad) + bad
    # HierarchicalAsyncMachine keeps its scope stack on the machine: transitions of *different* models that
    # run concurrently (two timeout handlers started at the same instant, each triggering an event) corrupt
    # each other's state names ("State 'S2_S2_S3' is not a registered state").  That is a defect of
    # concurrent nested async processing (C08/C10), not of the timeout feature; such instants are not judged.
    hsm_conc = case['cls'] == 'HierarchicalAsyncMachine' and double_fire(mrecs, True)
    flags['hsm_async_concurrent'] = hsm_conc
    ambiguous = is_async and (tie or hsm_conc)
    unordered = ambiguous or (is_async and double_fire(mrecs, case['queued'] is True))
    flags['tie'] = tie
    flags['ambiguous'] = ambiguous
    flags['unordered'] = unordered and not ambiguous
    if bad and not ambiguous:
        out.append(Failure('monitor', 'callbacks', case, {'bad': bad[:5], 'impl_trace': show(recs)},
                           signature='C17.callbacks'))
    if mon_ans is not None and mon_ans != 'ok' and not ambiguous:
        out.append(Failure('monitor', 'verified-monitor', case, {'monitor': mon_ans, 'impl_trace': show(recs),
                                                                 'model_trace': show(mrecs)},
                           signature='C17.monitor'))
    if not unordered:
        plain = drop_marks(recs)
        a, b = (per_model_canon(mrecs), per_model_canon(plain)) if is_async else (mrecs, plain)
        fin = expected_final(case, curs)
        if a != b or fin != list(run.final):
            k = next((i for i, (x, y) in enumerate(zip(a, b)) if x != y), min(len(a), len(b)))
            out.append(Failure('correspondence', 'trace_eq', case, {
                'first_difference_at': k, 'model': show(a), 'impl': show(b),
                'model_final': fin, 'impl_final': list(run.final)}))
    return out, flags


def evaluate(cases):
    ans = common.batch_driver([('c17run', enc_run(c)) for c in cases])
    runs = [run_impl(c) for c in cases]
    mons = common.batch_driver([('c17mon', enc_mon(c, split_pre(c, r.recs)[0])) for c, r in zip(cases, runs)])
    return [(c, r) + judge(c, a, mo, r) for c, a, mo, r in zip(cases, ans, mons, runs)]


# ---------------------------------------------------------------------------------------------
# constructor validation
# ---------------------------------------------------------------------------------------------

def ctor_cases():
    from transitions.extensions.states import Timeout
    from transitions.extensions.asyncio import AsyncTimeout
    out = []
    for cls in (Timeout, AsyncTimeout):
        for timeout in (None, 0, 1, 3, 0.5, -1, -0.5, 1000):
            for handlers in (None, 'h', ['h'], ['h', 'g'], []):
                out.append((cls, timeout, handlers))
    return out


def check_ctor():
    """Timeout / AsyncTimeout constructors against `Timeout.mkState` -> (n, failures)"""
    cases = ctor_cases()
    reqs = []
    for _cls, timeout, handlers in cases:
        t = 0 if timeout is None or timeout <= 0 else max(1, int(timeout))
        n = None if handlers is None else (1 if isinstance(handlers, str) else len(handlers))
        reqs.append(('c17ctor', [t] + ([0] if n is None else [1, n])))
    ans = common.batch_driver(reqs)
    fails = []
    for (cls, timeout, handlers), a in zip(cases, ans):
        kw = {}
        if timeout is not None:
            kw['timeout'] = timeout
        if handlers is not None:
            kw['on_timeout'] = handlers
        try:
            st = cls('X', **kw)
            got = 'ok %d' % len(st.on_timeout)
        except AttributeError:
            got = 'AttributeError'
        except BaseException as err:        # noqa
            got = 'other %r' % (err,)
        want = a if a == 'AttributeError' else 'ok ' + a.split()[2]
        case = {'ctor': cls.__name__, 'timeout': timeout, 'on_timeout': handlers}
        positive = timeout is not None and timeout > 0
        if positive and handlers is None and got != 'AttributeError':
            fails.append(Failure('monitor', 'ctor-accepts-missing-handler', case, {'got': got, 'model': a},
                                 signature='C17.ctor'))
        elif got != want:
            fails.append(Failure('correspondence', 'ctor', case, {'got': got, 'model': a}))
    return len(cases), fails


# ---------------------------------------------------------------------------------------------
# generator
# ---------------------------------------------------------------------------------------------

def gen_case(rng, cls):
    is_async = cls in ASYNC_CLASSES
    nested = cls in NESTED
    ids = iter(range(1, 100))
    n_events = rng.randint(2, 3)

    def mk_node(depth):
        n = {'id': next(ids), 'timeout': 0, 'ncb': 1, 'action': None, 'raises': False, 'children': [], 'initial': None}
        if rng.random() < (0.6 if depth else 0.7):
            n['timeout'] = rng.choice([1, 2, 2, 3, 3, 4, 5])
            n['ncb'] = 2 if rng.random() < 0.25 else 1
            if rng.random() < 0.55:
                n['action'] = rng.randrange(n_events)
            if rng.random() < 0.3:
                # created with an empty on_timeout list; the handler is registered afterwards through the model's
                # on_timeout_<state> method / machine.on_timeout_<state>(cb) / state.add_callback('timeout', cb)
                n['reg'] = rng.choice(['model', 'machine', 'state'])
                n['ncb'] = 1
            if rng.random() < (0.25 if is_async else 0.1):
                n['raises'] = True
                n['raise_kind'] = rng.choice(RAISE_KINDS)     # Exception / other BaseException / CancelledError
        elif rng.random() < 0.15:
            n['zero_with_handler'] = True
        if nested and depth < 2 and rng.random() < (0.45 if depth == 0 else 0.25):
            n['children'] = [mk_node(depth + 1) for _ in range(rng.randint(1, 2))]
            n['initial'] = rng.choice(n['children'])['id']
        # callbacks besides the probe: most states have none at all (then nothing suspends under asyncio)
        r = rng.random()
        if r < 0.14 and not n['children'] and depth == 0:     # (see assumptions: not from nested states)
            n['cb_enter'] = ['trigger', rng.randrange(n_events)]     # moves on (or not) from within on_enter
        elif r < 0.21:
            n['cb_enter'] = ['raise']
        elif r < 0.40:
            n['cb_enter'] = ['plain']
        else:
            n['cb_enter'] = None
        r = rng.random()
        n['cb_exit'] = 'raise' if r < 0.06 else ('plain' if r < 0.25 else None)
        return n

    states = [mk_node(0) for _ in range(rng.randint(2, 4))]
    case = {'cls': cls, 'states': states}
    all_ids = sorted(nodes(case))
    nd = nodes(case)
    transitions = []
    for sid in all_ids:
        for e in range(n_events):
            if rng.random() < 0.65:
                r = rng.random()
                if r < 0.12:
                    dst = None
                elif r < 0.27:
                    dst = sid
                else:
                    dst = rng.choice(all_ids)
                transitions.append({'ev': e, 'src': sid, 'dst': dst})
    if not transitions:
        transitions.append({'ev': 0, 'src': all_ids[0], 'dst': all_ids[-1]})
    n_models = rng.choice([1, 1, 2, 2, 3])
    self_model = cls in ('Machine', 'LockedMachine') and rng.random() < 0.3
    if self_model:
        n_models = 1
    models = [[m, rng.choice(all_ids)] for m in range(n_models)]
    case.update({
        'queued': rng.choice([False, False, True] + (['model'] if is_async else [])),
        'send_event': rng.random() < 0.5,
        'on_exc': rng.random() < 0.6,
        'async_cbs': rng.random() < 0.5,
        'batch': rng.random() < 0.6,        # asyncio: events of one instant are awaited back to back in one task
        # one machine with all models / one machine per model sharing the State objects
        'layout': 'shared',
        # model objects: plain (identity equality) / value equality with __hash__ / value equality, unhashable
        'model_eq': rng.choice(['identity', 'identity', 'value', 'value', 'unhashable']),
        'pks': [rng.randrange(2) for _ in range(n_models)],
        'transitions': transitions, 'models': models, 'history': []})
    if not nested and case['queued'] is False:
        # flat, unqueued: a prepare / conditions / before callback of a transition may trigger another event first,
        # so that the state actually left differs from the transition's declared source
        for t in transitions:
            if rng.random() < 0.15:
                t['pre'] = [rng.choice(['prepare', 'conditions', 'before']), rng.randrange(n_events)]
    if self_model:
        # machine as its own model, handlers by convention as methods on_timeout_<state>
        case['self_model'] = True
        case['model_eq'] = 'identity'
        for n in nd.values():
            if n['timeout'] > 0 and rng.random() < 0.7:
                n['reg'] = 'model'
                n['ncb'] = 1
    if n_models > 1 and rng.random() < (0.3 if case['model_eq'] == 'identity' else 0.7):
        case['layout'] = 'per_model'
    if case['layout'] == 'shared' or case['model_eq'] == 'identity':
        case['pks'] = list(range(n_models))     # one machine refuses a second model that equals a registered one
    try:
        resolve_table(case)
    except Cycle:
        for n in nd.values():
            if n['cb_enter'] and n['cb_enter'][0] == 'trigger':
                n['cb_enter'] = ['plain']
        for t in transitions:
            t.pop('pre', None)
    # history: (delay, event) pairs — delays below / equal to / above the timeouts in play
    touts = sorted(set(n['timeout'] for n in nd.values() if n['timeout'])) or [2]
    hist = []
    for _ in range(rng.randint(3, 9)):
        t = rng.choice(touts)
        d = rng.choice([0, 1, max(0, t - 1), t, t, t + 1, t + 2, rng.randint(0, 6)])
        m, e = rng.randrange(n_models), rng.randrange(n_events)
        early = (not is_async) and d > 0 and rng.random() < 0.3
        for i in range(d):
            hist.append(['tick', [[m, e]] if (early and i == d - 1) else []])
        if not early:
            hist.append(['ev', m, e])
        elif rng.random() < 0.3:       # a second early event at the same instant
            hist[-1][1].append([rng.randrange(n_models), rng.randrange(n_events)])
    handlers = [sid for sid in all_ids if has_handler(nd[sid])]
    if handlers and rng.random() < 0.5:
        # `timeout` is a public attribute: switch it off / change it somewhere in the middle of the history
        for _ in range(rng.randint(1, 3)):
            pos = rng.randrange(len(hist) + 1)
            hist.insert(pos, ['setT', rng.choice(handlers), rng.choice([0, 0, 1, 2, 3, 5])])
    if not is_async and case['layout'] == 'shared' and rng.random() < 0.4:
        # membership cycles: remove_model(m); add_model(m) somewhere in the history
        for _ in range(rng.randint(1, 2)):
            hist.insert(rng.randrange(len(hist) + 1), ['readd', rng.randrange(n_models)])
    if rng.random() < 0.5:
        # enter, wait a little, leave and come back within one instant, wait less than the timeout, leave, wait
        m = rng.randrange(n_models)
        t = rng.choice(touts)
        hist.append(['ev', m, rng.randrange(n_events)])
        hist += [['tick', []] for _ in range(rng.randint(1, max(1, t - 1)))]
        for _ in range(rng.randint(1, 3)):
            hist.append(['ev', m, rng.randrange(n_events)])
        hist += [['tick', []] for _ in range(rng.randint(1, max(1, t - 1)))]
        hist.append(['ev', m, rng.randrange(n_events)])
        hist += [['tick', []] for _ in range(t + 1)]
    for _ in range(rng.randint(1, 6)):
        hist.append(['tick', []])
    case['history'] = hist
    return case


def fingerprint(case):
    return hashlib.sha1(json.dumps(case, sort_keys=True).encode()).hexdigest()[:16]


def features(case, mrecs):
    """what a case exercises (for the non-triviality rule and the distribution)"""
    f = set()
    armed = {}
    now = 0
    for k, m, s in mrecs:
        if k == TICK:
            now += 1
        elif k == ENTER:
            armed[(m, s)] = now
        elif k == EXIT:
            if (m, s) in armed:
                f.add('cancelled')
                del armed[(m, s)]
        elif k == FIRED:
            f.add('fired')
            armed.pop((m, s), None)
        elif k == RAISED:
            f.add('raised')
        elif k == ROUTED:
            f.add('routed')
    return f


def chunk(seed, idx, n, classes):
    rng = random.Random('C17/%d/%d' % (seed, idx))
    cases = [gen_case(rng, rng.choice(classes)) for _ in range(n)]
    ex = Exploration()
    for case, run, fails, flags in evaluate(cases):
        ex.evaluations += 1
        recs = split_pre(case, run.recs)[0]
        f = features(case, recs)
        if 'fired' in f and 'cancelled' in f and not flags['ambiguous']:
            ex.nontrivial.add(fingerprint(case))
            if len(ex.samples) < 2:
                ex.samples.append({'cls': case['cls'], 'queued': case['queued'], 'history': case['history'],
                                   'trace': show(recs)[:60]})
        if not flags['ambiguous']:
            ex.traces_validated += 1
        st = ex.stats
        for key, val in (('class', case['cls']), ('queued', str(case['queued'])), ('models', str(len(case['models']))),
                         ('fired_per_case', str(min(8, sum(1 for r in recs if r[0] == FIRED)))),
                         ('layout', case.get('layout', 'shared')), ('model_eq', case.get('model_eq', 'identity')),
                         ('equal_models', str(len(set(case.get('pks') or [0])) < len(case['models']))),
                         ('nested_timeouts', str(any(n['timeout'] and n['children'] for n in nodes(case).values())))):
            d = st.setdefault(key, {})
            d[val] = d.get(val, 0) + 1
        d = st.setdefault('features', {})
        for key in sorted(f) + [k for k in ('tie', 'ambiguous', 'unordered', 'hsm_async_concurrent') if flags[k]]:
            d[key] = d.get(key, 0) + 1
        ex.failures += fails
    return ex


def shrink_steps(case):
    h = case['history']
    for i in range(len(h)):
        c = copy.deepcopy(case)
        del c['history'][i]
        yield c
    for i, op in enumerate(h):
        if op[0] == 'tick' and op[1]:
            c = copy.deepcopy(case)
            c['history'][i][1] = op[1][:-1]
            yield c
    if len(case['models']) > 1:
        last = case['models'][-1][0]
        c = copy.deepcopy(case)
        c['models'].pop()
        if c.get('pks'):
            c['pks'] = c['pks'][:len(c['models'])]
        c['history'] = [op for op in ([o[0], [p for p in o[1] if p[0] != last]] if o[0] == 'tick' else o
                                      for o in c['history']) if op[0] != 'ev' or op[1] != last]
        yield c
    for i in range(len(case['transitions'])):
        if len(case['transitions']) > 1:
            c = copy.deepcopy(case)
            del c['transitions'][i]
            yield c
        if case['transitions'][i].get('pre') is not None:
            c = copy.deepcopy(case)
            c['transitions'][i].pop('pre')
            yield c
    for k, top in enumerate(case['states']):
        if len(case['states']) > 1:
            gone = set(n['id'] for n, _p in walk([top]))
            if any(init in gone for _m, init in case['models']):
                continue
            c = copy.deepcopy(case)
            del c['states'][k]
            c['transitions'] = [t for t in c['transitions'] if t['src'] not in gone and t['dst'] not in gone]
            if c['transitions']:
                yield c
    if case.get('model_eq', 'identity') != 'identity':
        c = copy.deepcopy(case)
        c['model_eq'] = 'identity'
        yield c
    if case.get('layout') == 'per_model' and len(set(case.get('pks') or [])) == len(case['models']):
        c = copy.deepcopy(case)
        c['layout'] = 'shared'
        yield c
    for key, val in (('queued', False), ('send_event', False), ('on_exc', False), ('async_cbs', False), ('batch', False),
                     ('self_model', False)):
        if case.get(key, val) != val:
            c = copy.deepcopy(case)
            c[key] = val
            yield c
    for sid in sorted(nodes(case)):
        for key, val in (('raises', False), ('action', None), ('ncb', 1), ('cb_enter', None), ('cb_exit', None),
                         ('raise_kind', 'exc'), ('reg', None)):
            if nodes(case)[sid].get(key, val) != val:
                c = copy.deepcopy(case)
                nodes(c)[sid][key] = val
                yield c
        n = nodes(case)[sid]
        if n['timeout'] > 1:
            c = copy.deepcopy(case)
            nodes(c)[sid]['timeout'] = n['timeout'] - 1
            yield c
        if n['timeout'] > 0:
            c = copy.deepcopy(case)
            nodes(c)[sid].update({'timeout': 0, 'action': None, 'raises': False, 'ncb': 1})
            yield c


def fails_like(kind, what):
    def f(case):
        if not case['history']:
            return False
        return any(x.kind == kind and x.what == what for x in evaluate([case])[0][2])
    return f


def load_corpus():
    """minimised regression cases (corpus/C17/*.json), run first on every run"""
    import glob
    import os
    out = []
    for path in sorted(glob.glob(os.path.join(common.CORPUS, 'C17', '*.json'))):
        with open(path) as fh:
            out.append(json.load(fh)['case'])
    return out


class C17(runner.Check):
    prop = 'C17'
    level = 'proof'
    manifest = dict(
        level='proof', design='DESIGN.md 4/C17 + design_notes/C17.md',
        engines=('virtual-clock',),
        text="Lean 4 theorems about a timed model of Timeout/AsyncTimeout (timer objects, runner slot per state and "
             "model, cancel-if-alive on exit, firing on a virtual clock, handlers that trigger events or raise): for "
             "EVERY engine function, configuration and timed history that never enters an armed state without "
             "leaving it, the model's trace is accepted by the property acceptor C17.accepts (fires exactly when "
             "entered `timeout` ago and not left or fired since; time never passes a due timeout; started handlers "
             "end; failing async handlers reach on_exception), plus declarative readings of the acceptor, per-model "
             "frame, internal transitions, constructor rejection. Tied to /repo by trace equality with the real "
             "classes under a virtual clock and by running the same compiled acceptor on the implementation's "
             "timed traces. PARTIAL: real threading.Timer / event-loop wall-clock timing is replaced by the "
             "virtual clock, not verified.",
        note="Trusted: Lean kernel, hand-written model Model/Timeout.lean and acceptor Model/Spec/C17.lean, "
             "harness/vclock.py (virtual Timer with threading.Timer's start/cancel/is_alive semantics, "
             "SelectorEventLoop with a jumping clock), the harness's expectation of which Timeout.exit/enter calls an "
             "event causes (incl. re-entrant triggers from on_enter callbacks and callbacks that raise), the probe "
             "state mixin that records enter/exit; asyncio.shield/cancel/gather semantics are exercised, not modelled. Same-instant races under "
             "asyncio (an exit at the very instant a timeout is due) are not judged.",
        technique="Lean 4 proof (simulation of a property acceptor, induction over timed histories) + differential "
                  "correspondence under a virtual clock + verified trace monitor")
    theorems = ('TM.C17_model_accepted', 'TM.C17_fires_iff', 'TM.C17_fired_only_when_due', 'TM.C17_due_must_fire',
                'TM.C17_once', 'TM.C17_never_after_exit', 'TM.C17_restart_on_reenter', 'TM.C17_models_independent',
                'TM.C17_typed_reachable', 'TM.C17_internal_keeps_timer', 'TM.C17_reject_missing_handler',
                'TM.C17_async_started_handler_survives', 'TM.C17_async_error_routed',
                'TM.C17_unbracketed_counterexample', 'TM.C17_coarse_key_counterexample',
                'TM.C17_exit_cancels_whatever_is_armed', 'TM.C17_runV_const', 'TM.C17_acceptsV_single')
    rule = ('random machines with Timeout (Machine, HierarchicalMachine, LockedMachine) or AsyncTimeout (AsyncMachine, '
            'HierarchicalAsyncMachine): 2-4 states (nested up to depth 3, compound states with timeouts of their own), '
            'timeouts 0-5, 1-2 on_timeout callbacks that may trigger an event or raise (an Exception, another BaseException, '
            'or asyncio.CancelledError - under asyncio by awaiting a cancelled future), states with no on_enter/on_exit '
            'callback at all / plain ones / on_enter callbacks that trigger an event re-entrantly (unqueued and queued) '
            '/ on_enter and on_exit callbacks that raise (with and without on_exception), 2-3 events incl. reflexive '
            'and internal transitions, 1-3 models - plain objects, value objects (__eq__/__hash__ on a key, equal and '
            'unequal pairs) or unhashable ones, on one machine or one machine per model sharing the State objects - '
            'queued or not, send_event on/off; timeout states whose handlers are given at construction or - created with an '
            'empty list - registered afterwards (model method on_timeout_<state>, machine.on_timeout_<state>(cb), '
            'state.add_callback); machines acting as their own model (Machine, LockedMachine) with convention-named '
            'on_timeout_<state> methods; remove_model/add_model cycles in the history; on flat unqueued machines '
            'transitions whose prepare / conditions / before callback triggers another event first; history ops that assign state.timeout (0 or another value) between entries and exits; under asyncio the events of one '
            'instant are awaited back to back in one task (no idle loop in between) or one by one; histories of 3-9 (delay, event) '
            'pairs with delays below / equal to / above the timeouts, for the threaded classes also events that win '
            'the tie against a timer due at the same instant; a case is non-trivial when at least one timeout fired '
            'and at least one pending timeout was cancelled by an exit; distinct = different case description')
    trusted = ('hand-written model lean/Model/Timeout.lean tied to /repo by timed-trace equality on every generated case',
               'acceptor lean/Model/Spec/C17.lean read as the property statement',
               'harness/vclock.py: virtual Timer (replaces transitions.extensions.states.Timer) and virtual-clock event loop',
               'harness/props/c17.py resolve_table: the sequence of Timeout.exit/enter calls an event causes (flat and '
               'non-parallel nested; re-entrant on_enter triggers, raising callbacks)',
               'the probe state mixin (records enter/exit, delegates to the timeout feature)')

    quick = (32, 220)
    thorough = (128, 600)

    def explore(self, tier, seed):
        nch, per = self.quick if tier == 'quick' else self.thorough
        payloads = []
        for i in range(nch):
            classes = THREAD_CLASSES if i % 2 == 0 else ASYNC_CLASSES
            payloads.append((seed, i, per, classes))
        ex = Exploration()
        for part in runner.parallel(chunk, payloads):
            ex.merge(part)
        corpus = load_corpus()
        for case, run, fails, flags in evaluate(corpus) if corpus else []:
            ex.evaluations += 1
            ex.failures += fails
        ex.stats['corpus_cases'] = len(corpus)
        n, fails = check_ctor()
        ex.evaluations += n
        ex.stats['constructor_cases'] = n
        ex.failures += fails
        done = set()
        for f in ex.failures:
            key = (f.kind, f.what)
            if key in done or 'ctor' in f.case:
                continue
            done.add(key)
            f.case = runner.shrink(f.case, fails_like(f.kind, f.what), shrink_steps)
            self.annotate(f)
        return ex

    def annotate(self, f):
        case, run, fails, _flags = evaluate([f.case])[0]
        for x in fails:
            if x.kind == f.kind and x.what == f.what:
                f.details = dict(x.details)
        f.details['shrunk'] = True

    def search(self, tier, seed, failures):
        payloads = [(seed + 7919, i, 150, THREAD_CLASSES if i % 2 == 0 else ASYNC_CLASSES) for i in range(32)]
        found = []
        for part in runner.parallel(chunk, payloads):
            found += [f for f in part.failures if f.kind == 'monitor']
        for f in found[:1]:
            f.case = runner.shrink(f.case, fails_like(f.kind, f.what), shrink_steps)
            self.annotate(f)
        return found

    def replay(self, path):
        with open(path) as fh:
            payload = json.load(fh)
        case = payload.get('case')
        if not case:
            print('no concrete input in this replay file: broken obligation', payload.get('broken_obligation'))
            return 1
        if 'ctor' in case:
            _n, fails = check_ctor()
            for f in fails:
                print('FAIL', f.kind, f.what, f.case, f.details)
            return 1 if fails else 0
        ans = common.batch_driver([('c17run', enc_run(case))])[0]
        _c, run, fails, flags = evaluate([case])[0]
        print('class %s queued=%s models=%d' % (case['cls'], case['queued'], len(case['models'])))
        print('implementation trace:', ' | '.join(show(split_pre(case, run.recs)[0])))
        print('model trace:         ', ' | '.join(show(parse_run(ans)[0])))
        print('flags:', flags)
        print('verified monitor on implementation trace:',
              common.batch_driver([('c17mon', enc_mon(case, split_pre(case, run.recs)[0]))])[0],
              '(not judged: same-instant race)' if flags['ambiguous'] else '')
        for f in fails:
            print('FAIL', f.kind, f.what, json.dumps(f.details.get('bad') or f.details.get('monitor') or '', default=str))
        return 1 if fails else 0

    def assumptions(self):
        return [
            'time is the virtual clock: transitions.extensions.states.Timer is replaced by a virtual timer and the asyncio '
            'loop clock by a jumping clock; the accuracy of real threading.Timer / loop timers is not verified (partial)',
            'an event arriving at the very instant a timeout is due: under the threaded classes both orders are '
            'generated explicitly (timer first / event first) and each is judged by its order; under asyncio events '
            'are applied after the loop has gone idle at that instant (timer first), and cases where a timeout handler '
            'exits a state whose own timeout is due at the same instant (two timers of one model racing) are not '
            'judged (ambiguity resolved towards not alarming)',
            'on_enter callbacks may trigger one event on their own model (re-entrant; from top-level states only: a '
            're-entrant trigger from the on_enter callback of a NESTED state makes the hierarchical engine compute '
            'doubled state names - "State S5_S7_S5_S7_S9 is not a registered state" - which is not the timeout '
            "feature's business), on_enter / on_exit callbacks may raise; on_exit callbacks do not trigger events; "
            'on_timeout handlers trigger at most one event, on their own model',
            'a state counts as left when the engine has called its exit (the probe records it), also when an on_exit '
            'callback then raises and the model keeps the state value: the timer is cancelled by then and does not fire',
            'enter / exit are observed by a state mixin in front of Timeout / AsyncTimeout (add_state_features(Probe, '
            'Timeout)) that records and delegates, so that states without any callback can be observed',
            'the initial state of a model is set, not entered: no timer runs for it until it is (re-)entered',
            'state.timeout assigned at runtime: an entry uses the value valid at that moment, a pending timer keeps the '
            'deadline it was armed with, an exit cancels whatever is armed; the main theorem C17_model_accepted is stated '
            'for histories without such assignments (C17_runV_const), histories with them are tied by trace equality '
            'with the model (runV) and judged by the segmented acceptor C17.acceptsV',
            'hierarchical cases have no parallel states and declare transitions at root level with full state names',
        ]


CHECK = C17()
