"""C19 — state feature mixins (Tags, Error, Volatile, Retry; add_state_features) keep their contracts on
every machine class, in every order, per model, and leave everything else unchanged."""
import json
import os
import random

from .. import common, feat, runner
from ..runner import Exploration, Failure

# stream → (classes, probe, featureless)
STREAMS = {
    # ops the engine issues are observed by a user-level probe mixin placed first; Lean model runs on
    # the same ops (`runGroup`), the oracle judges every op
    'ops': dict(classes=feat.CLASSES, probe=True, featureless=False, quick=(16, 500), thorough=(64, 1500)),
    # flat machines without any probe: Lean flat layer (`trigger`) against the public API only
    'flat': dict(classes=feat.CLASSES[:2], probe=False, featureless=False, quick=(16, 250), thorough=(32, 1500)),
    # decorated vs plain machine on states that carry no feature arguments
    'diff': dict(classes=feat.CLASSES, probe=False, featureless=True, quick=(16, 100), thorough=(32, 600)),
}


def judge(stream, d):
    """run one case on the implementation (+ model); returns (failures, info)"""
    cfg = STREAMS[stream]
    case = {'stream': stream, 'desc': d}
    fails = []
    info = {'outcomes': {}, 'results': {}}
    run = feat.execute(d)
    for st in run.steps:
        rk = 'get_triggers' if st['result'].startswith('triggers:') else st['result']
        info['results'][rk] = info['results'].get(rk, 0) + 1

    def add(kind, what, details):
        sig = 'C19.' + what
        fails.append(Failure(kind, what, case, details, signature=sig))

    if run.build_error:
        add('monitor', 'construction', {'error': run.build_error, 'problem': 'a valid feature order with valid feature '
                                        'arguments must yield a working machine class'})
        info['nontrivial'] = False
        return fails, info, run, None

    for what, details in feat.oracle_tags(d, run):
        add('monitor', what, details)
    if stream == 'diff':
        # add_state_features: merged dynamic_methods vs the model's `customMethods` (compared in correspond())
        info['dyn'] = feat.state_cls_methods(d)
        plain = dict(d, feats=[], probe=False)
        prun = feat.execute(plain)
        a, b = feat.plain_view(run), feat.plain_view(prun)
        # every state of an Error machine is under the Error contract: the twin is compared only on machines
        # without dead ends (the generator provides that; a shrunk case must not drift out of it)
        in_scope = 'Error' not in d['feats'] or all(feat.has_out(d, n) for n in feat.state_names(d))
        if a != b and in_scope:
            k = next((i for i, (x, y) in enumerate(zip(a, b)) if x != y), min(len(a), len(b)))
            add('monitor', 'feature-free-unchanged',
                {'step': k, 'trigger': d['history'][k] if k < len(d['history']) else None,
                 'decorated': repr(a[k]) if k < len(a) else None, 'plain': repr(b[k]) if k < len(b) else None})
        info['nontrivial'] = any(st['result'] == 'true' and st['items'] for st in run.steps)
        return fails, info, run, ('c19dyn', feat.enc_feats(d) + [len(info['dyn'][1])] + info['dyn'][1])
    orun = run if d['probe'] else feat.inject_ops(d, run)
    for what, details in feat.oracle_steps(d, orun):
        add('monitor', what, details)
    # statistics / non-triviality from the ops
    for st in orun.steps:
        segs = feat.segments(d, st)
        for q, seg in enumerate(segs):
            if seg['op'] and seg['op'][0] == 'op_enter':
                o = feat.outcome_of(d, seg, q == len(segs) - 1, st['result'])
                info['outcomes'][str(o)] = info['outcomes'].get(str(o), 0) + 1
    feature_effect = info['outcomes'].get('failed', 0) + info['outcomes'].get('raised', 0) + \
        (info['outcomes'].get('entered', 0) if 'Volatile' in d['feats'] else 0) + \
        (1 if any(s.get('tags') or s.get('accepted') for s in d['states']) else 0)
    info['nontrivial'] = bool(info['outcomes'].get('entered', 0) and feature_effect)
    # correspondence with the Lean model
    if stream == 'ops':
        req = ('c19ops', feat.enc_ops(d, run))
    else:
        req = ('c19flat', feat.enc_flat(d))
    return fails, info, run, req


def correspond(stream, d, run, ans, info=None):
    if stream == 'diff':
        got = info['dyn'][0]
        want = [int(x) for x in ans.split()]
        if got != want:
            return [Failure('correspondence', 'dynamic_methods_eq', {'stream': stream, 'desc': d},
                            {'impl': got, 'model': want, 'undecorated': info['dyn'][1]})]
        return []
    if stream == 'ops':
        model = feat.dec_ops_answer(ans, d, len(feat.trigger_steps(d, run)))
        diff = feat.compare_ops(d, run, model)
        what = 'ops_trace_eq'
    else:
        model = feat.dec_flat_answer(ans, d)
        diff = feat.compare_flat(d, run, model)
        what = 'flat_trace_eq'
    if diff is None:
        return []
    return [Failure('correspondence', what, {'stream': stream, 'desc': d}, diff)]


def tags_requests(d):
    reqs = []
    st = feat.enc_states(d)
    for i in range(len(d['states'])):
        for t in range(len(feat.TAGS)):
            reqs.append(('c19tags', st + [i, t]))
    return reqs


def run_cases(stream, descs):
    """returns list of (failures, info)"""
    res = []
    reqs, owners = [], []
    descs = [feat.normalise(d) for d in descs]
    for n, d in enumerate(descs):
        fails, info, run, req = judge(stream, d)
        res.append([fails, info, run])
        if req is not None:
            reqs.append(req)
            owners.append((n, 'trace'))
        if ('Tags' in d['feats'] or 'Error' in d['feats']) and not run.build_error:
            for q in tags_requests(d):
                reqs.append(q)
                owners.append((n, 'tag'))
    if reqs:
        answers = common.batch_driver(reqs)
        tagans = {}
        for (n, kind), a in zip(owners, answers):
            if kind == 'trace':
                res[n][0] += correspond(stream, descs[n], res[n][2], a, res[n][1])
            else:
                tagans.setdefault(n, []).append(a)
        for n, al in tagans.items():
            d = descs[n]
            got = [[res[n][2].tags[i][t] for t in feat.TAGS] for i in range(len(d['states']))]
            want = [[al[i * len(feat.TAGS) + t] == '1' for t in range(len(feat.TAGS))] for i in range(len(d['states']))]
            if got != want:
                res[n][0].append(Failure('correspondence', 'tags_eq', {'stream': stream, 'desc': d},
                                         {'impl': repr(got), 'model': repr(want)}))
    return [(f, i) for f, i, _r in res]


def chunk(seed, idx, n, stream):
    cfg = STREAMS[stream]
    rng = random.Random('C19/%s/%d/%d' % (stream, seed, idx))
    descs = [feat.gen(rng, cls=rng.choice(cfg['classes']), probe=cfg['probe'], featureless=cfg['featureless'])
             for _ in range(n)]
    ex = Exploration()
    st = ex.stats
    for d, (fails, info) in zip(descs, run_cases(stream, descs)):
        ex.evaluations += 1
        ex.traces_validated += 1
        if info.get('nontrivial'):
            ex.nontrivial.add(feat.fingerprint(d))
            if len(ex.samples) < 1:
                ex.samples.append({'stream': stream, 'cls': d['cls'], 'feats': d['feats'], 'history': d['history'],
                                   'states': d['states'], 'transitions': d['transitions']})
        ex.failures += fails
        for key, val in (('class', d['cls']), ('feature_order', ','.join(d['feats'])), ('models', str(d['nmodels'])),
                         ('stream', stream)):
            h = st.setdefault(key, {})
            h[val] = h.get(val, 0) + 1
        for key in ('outcomes', 'results'):
            h = st.setdefault('enter_' + key if key == 'outcomes' else 'trigger_results', {})
            for k, v in info.get(key, {}).items():
                h[k] = h.get(k, 0) + v
    return ex


class C19(runner.Check):
    prop = 'C19'
    level = 'proof'
    manifest = dict(
        level='proof', design='DESIGN.md 4/C19 + design_notes/C19.md',
        text="Lean 4 theorems over the mixin model Model/Features.lean (enter/exit chains composed in the decorator's "
             "MRO order, per-state retry Counter keyed by model, per-model hook attributes, fresh-object counter), for "
             "every feature list, argument assignment and history of entries/exits: is_<tag> exactly for the tags; "
             "Error raises iff no outgoing transition and not accepted; Volatile binds a never-used object on every "
             "completed entry and removes it on exit; Retry admits exactly `retries` consecutive self re-entries after "
             "an entry from elsewhere, on_failure on the next, restart on foreign entry, with arbitrary interleaved "
             "ops of other models/states; ops of other models never touch a model's bookkeeping; argument-free "
             "states log what a plain state logs. Tied to /repo by trace equality on the real decorated classes "
             "(Machine, LockedMachine, HierarchicalMachine, LockedHierarchicalMachine) and a Python oracle that "
             "states each contract on the implementation's observations, plus decorated-vs-plain differential.",
        note="Trusted: Lean kernel, hand-written model Model/Features.lean, harness/feat.py (recorders, probe mixin "
             "that observes the engine's enter/exit calls, oracle). The engine's choice of which states to exit/enter "
             "is an input (C01-C03 cover it). Timeout is C17's. Order-dependent combinations (failed retry or Error "
             "raise vs Volatile creation) are mirrored by the model, not judged.",
        technique="Lean 4 proof (induction over op histories, invariants) + differential correspondence + Python oracle")
    theorems = ('TM.C19_tags', 'TM.C19_tags_mutable', 'TM.C19_tags_built', 'TM.C19_caller_lists_unchanged', 'TM.C19_error_iff',
                'TM.C19_volatile_kept', 'TM.C19_flat_veto', 'TM.C19_retry_scoped', 'TM.C19_volatile_fresh', 'TM.C19_volatile_removed',
                'TM.C19_volatile_history', 'TM.C19_retry_exact', 'TM.C19_retry_unlimited', 'TM.C19_per_model_frame', 'TM.C19_per_model',
                'TM.C19_feature_free_unchanged', 'TM.C19_flat_trigger', 'TM.C19_polls_pure', 'TM.C19_dynamic_methods_kept',
                'TM.C19_retry_counts_raising_entry')
    rule = ('random decorated machine classes: every subset of {Tags, Error, Volatile, Retry} in random decorator order '
            '(Tags-before-Error excluded: TypeError) x {Machine, LockedMachine, HierarchicalMachine, '
            'LockedHierarchicalMachine} x 2-4 top states (hierarchical: 0-3 children each, optional initial child, sometimes a '
            'chain of initial children 3-4 levels deep) x states declared in the states list, later by full-path name with the '
            'feature arguments as keywords, or later inside the parent scope x '
            'random feature arguments per state (tags — occasionally one list object shared by several states —, accepted, hook name, volatile class, retries, on_failure as '
            'callable or model method name) x auto_transitions/ignore_invalid_triggers/send_event x 1-3 models x '
            'histories of 3-20 steps with bursts of the same (reflexive) event, triggers during which an on_exit callback of the '
            'state being left raises (with/without on_exception handler), triggers during which an on_enter callback of '
            'the entered state raises and the caller carries on, re-entrant self re-entries fired from the state\'s own '
            'enter callback (flat, unqueued), model.to(<state>) on hierarchical machines, tag names colliding with State '
            'attributes (final, name, value, timeout) together with final=True/False states, edits of the public tags lists (assign/append/'
            'remove) between triggers, may_<event>()/may_trigger polls and get_triggers reads in between (more often on '
            'Error machines), hierarchical: transitions declared inside a parent state dict; twin stream: final states, '
            'on_final callbacks, model methods on_enter_/on_exit_/on_final_<state>, machine.on_<cb>_<state>(f); non-trivial = at least one completed '
            'entry and at least one feature effect (retry failure, Error raise, volatile object, tag); distinct = '
            'different description')
    trusted = ('hand-written model lean/Model/Features.lean tied to /repo by trace equality on every generated case',
               'harness/feat.py: recorders, user-level probe mixin (first in the decorator) that reports the enter/exit '
               'calls the engine issues, Python oracle of the five contracts',
               'Python MRO linearisation of the synthesised CustomState (decorator order = order of the enter chain)')

    def assumptions(self):
        return [
            "add_state_features(Tags, Error) (Tags before its subclass Error in one decorator) raises TypeError from "
            "Python's MRO; the documented use is Error INSTEAD of Tags; that order is excluded, not judged",
            "'entered from another state' is read as the code reads it: event_data.transition.source differs from the "
            "state's (full) name; on hierarchical machines a child re-entered through a transition declared on its "
            "parent therefore restarts its count (recorded, not judged)",
            "a model placed in a Retry state without an entry (initial state) has no count yet; its first reflexive "
            "transition is the docstring's 'first time entered' — the oracle judges counts only after an entry from "
            "another state; beyond the first refused re-entry the statement is silent — mirrored by the model, not judged",
            "whether a refused Retry entry or an Error raise still creates the Volatile object depends on the decorator "
            "order — mirrored by the model (correspondence), not judged by the oracle",
            "every state of an Error-decorated machine is subject to the Error contract and every state of a "
            "Volatile-decorated machine gets the default hook 'scope', argument-free or not; 'all other behaviour "
            "unchanged' is compared on callbacks, results and states for machines without dead-end states",
            "on_failure callbacks are recorders (callable or model method name); on_failure that triggers a further "
            "event is not generated; Timeout belongs to C17; no parallel states, no queued machines; transitions are "
            "declared on the machine or inside a parent's state dict (own event names, two nesting levels)",
            "a Volatile state's object is judged at op level: a completed entry binds a fresh one, a completed exit "
            "removes it, an exit aborted by a raising on_exit callback leaves every hook attribute as it was; on "
            "hierarchical machines only the first exit of a trigger is made to raise (a later one leaves the engine "
            "half-way, which is C04's subject)",
            "may_ polls, get_triggers reads and callback registrations are queries: they must not run callbacks or move a "
            "model (oracle query-not-pure); their answers are compared with the flat model (polls) and with the "
            "undecorated twin; 'dead end' is computed from the declared transitions, never from get_triggers",
            "the decorated-vs-plain twin covers the dynamic-method conventions (model methods on_enter_/on_exit_/"
            "on_final_<state>, machine.on_<cb>_<state>(f)), final states and on_final callbacks on states without feature "
            "arguments; on Error machines it is judged only when no state is a dead end",
            "an entry whose on_enter callback raises counts as an attempt (the code counts first); whether it still "
            "creates the Volatile object is order-dependent and not judged; re-entrant self re-entries are generated "
            "on flat machines with the probe only (on hierarchical machines a trigger from inside an enter callback "
            "runs while the engine is half-way, C03's subject)",
            "an entry that Error rejected may or may not have been counted by Retry (decorator order): the oracle does "
            "not judge Retry on rejecting dead ends and forgets its count after a rejected entry",
            "model.to(<state>) can re-enter a dead end from itself; if Retry, placed before Error in the decorator, refuses "
            "that entry Error never sees it — mirrored by the model, not judged (C19_error_iff's hypothesis hwf)",
            "on a machine without Tags/Error a state must answer is_<name> as a state of the undecorated class with the "
            "same final flag does (normally AttributeError)",
            "the features read self.name (scoped full name on hierarchical machines): an enter/exit the engine issues under "
            "a scoped name that is no state of the machine is reported (oracle scoped-name); which states are entered "
            "is otherwise the engine's business (C02/C03)",
            "a state declared later by full-path name + keyword arguments or inside its parent's scope must behave as the "
            "same state declared in the states list (the oracle only knows the description); such states are leaves, "
            "not an initial child and not the machine's initial state",
            "edits of state.tags follow Python's aliasing: states that were handed one list object and were not declared "
            "accepted share it, so an in-place edit shows in all of them",
        ]

    def explore(self, tier, seed):
        payloads = []
        for name, cfg in STREAMS.items():
            nch, per = cfg['quick'] if tier == 'quick' else cfg['thorough']
            payloads += [(seed, i, per, name) for i in range(nch)]
        ex = Exploration()
        # corpus first (witnesses of known findings, minimised past disagreements)
        cdir = os.path.join(common.CORPUS, self.prop)
        for name in sorted(os.listdir(cdir)) if os.path.isdir(cdir) else []:
            with open(os.path.join(cdir, name)) as fh:
                case = json.load(fh)['case']
            for fails, _info in run_cases(case['stream'], [case['desc']]):
                ex.evaluations += 1
                ex.failures += fails
        for part in runner.parallel(chunk, payloads):
            ex.merge(part)
        done = set()
        keep = []
        known_sigs = set(k.get('signature') for k in self.known())
        for f in ex.failures:
            key = (f.kind, f.what, f.signature)
            if key in done:
                continue
            done.add(key)
            if f.kind == 'monitor' and f.signature in known_sigs:
                keep.append(f)          # reported as KNOWN-FINDING; its witness lives in corpus/
                continue
            f.case = runner.shrink(f.case, self.fails_like(f.kind, f.what, f.signature), feat.shrink_steps)
            self.annotate(f)
            keep.append(f)
        # monitor failures first so that the replay shows the property failing
        ex.failures = sorted(keep, key=lambda f: f.kind != 'monitor')
        return ex

    def rejudge(self, case):
        return run_cases(case['stream'], [case['desc']])[0][0]

    def fails_like(self, kind, what, signature=None):
        def f(case):
            return any(x.kind == kind and x.what == what and (signature is None or x.signature == signature)
                       for x in self.rejudge(case))
        return f

    def annotate(self, f):
        for x in self.rejudge(f.case):
            if x.kind == f.kind and x.what == f.what and x.signature == f.signature:
                f.details = x.details
                break
        try:
            f.case = dict(f.case, desc=feat.normalise(f.case['desc']))
            run = feat.execute(f.case['desc'])
            f.details['impl_steps'] = [{'trigger': t, 'result': s['result'],
                                        'log': [repr(i) for i in s['items']], 'post': repr(s['post'])}
                                       for t, s in zip(f.case['desc']['history'], run.steps)]
        except Exception as e:          # annotation only
            f.details['impl_steps'] = 'unavailable: %r' % (e,)

    def search(self, tier, seed, failures):
        payloads = [(seed + 7919, i, 150, name) for name in ('ops', 'flat') for i in range(16)]
        found = []
        for part in runner.parallel(chunk, payloads):
            found += [f for f in part.failures if f.kind == 'monitor']
        for f in found[:1]:
            f.case = runner.shrink(f.case, self.fails_like(f.kind, f.what, f.signature), feat.shrink_steps)
            self.annotate(f)
        return found

    def replay(self, path):
        with open(path) as fh:
            payload = json.load(fh)
        if 'case' not in payload:
            print('no concrete input in this replay file: broken obligation', payload.get('broken_obligation'))
            return 1
        case = payload['case']
        case = dict(case, desc=feat.normalise(case['desc']))
        d = case['desc']
        print('class %s decorated with %s, probe=%s' % (d['cls'], d['feats'], d['probe']))
        run = feat.execute(d)
        for t, s in zip(d['history'], run.steps):
            print('trigger', t, '->', s['result'])
            for i in s['items']:
                print('    ', i)
            print('     post', s['post'])
        fs = self.rejudge(case)
        for f in fs:
            print('FAIL', f.kind, f.what, json.dumps(f.details, default=str)[:600])
        return 1 if fs else 0


CHECK = C19()
