"""C10 — models of one machine are independent; dispatch reaches each exactly once.

Streams (all on the real classes):
  * membership      histories interleaving trigger / dispatch / add_model / remove_model (also from callbacks,
                    queued or not) over 1-4 models on `Machine`: equality with the Lean engine model
                    (for which C10_dispatch_each_once_in_order, C10_trigger_local, C10_add_twice_noop,
                    C10_removed_untouched are proved) + oracles: dispatch twin (a dispatch behaves exactly like
                    triggering each registered model once, in order, conjunction), helper presence after add_model;
  * classes         the same histories on the other synchronous classes (watchdog thread: a hang is a failure);
  * independence    trigger-only histories over several models judged by the verified C04/C01 acceptor, which
                    tracks every model's state separately and requires every callback to be on behalf of the
                    triggered model;
  * lifecycle       all 12 predefined classes x queue modes: add later / add twice (incl. one call naming a model
                    twice and the 'self' literal) / model contexts of locked classes stay per model / removed models
                    are garbage-collectable and no longer dispatched to;
  * two-machines    a second machine bound to the same model objects under another model_attribute never interferes.
"""
import asyncio
import gc
import random
import threading
import weakref

from .. import common, flat, flatcheck, runner
from ..flat import TRIGGER, MAY, DISPATCH, REMOVE, ADD
from ..runner import Exploration, Failure
from .c04 import get_cls, SYNC_CLASSES

ASYNC_CLASSES = ['AsyncMachine', 'HierarchicalAsyncMachine', 'AsyncGraphMachine', 'HierarchicalAsyncGraphMachine']


# ---------------------------------------------------------------------------------------------
# flat streams
# ---------------------------------------------------------------------------------------------

def knobs_membership():
    return flat.Knobs(foreign_models=True, max_models=4, p_raise=0.03, p_cmds=0.2, p_on_exception=0.2, p_queued=0.3,
                      cmd_kinds=(TRIGGER, TRIGGER, DISPATCH, REMOVE, ADD),
                      hist_kinds=(TRIGGER, TRIGGER, DISPATCH, DISPATCH, REMOVE, ADD, ADD), p_unknown_event=0.03,
                      max_history=10, p_custom_attr=0.15, p_ignore_flip=0.15)


def knobs_classes():
    k = knobs_membership()
    k.p_unknown_event = 0.0     # event names unknown to the machine are outside C09/C10 for the derived classes
    # callbacks change membership only: a callback that re-triggers an event on the model whose transition is in
    # progress is C09's business (hierarchical classes resolve exits from the configuration at that moment)
    k.cmd_kinds = (REMOVE, ADD)
    return k


def knobs_indep():
    return flat.Knobs(max_models=4, p_unknown_event=0.0, max_history=12, p_raise=0.04, p_on_exception=0.3)


def membership_cmds_in_callbacks(d):
    return any(c[0] in (ADD, REMOVE) for cmds, _o in d.script.values() for c in cmds)


class CheckedRun(flat.FlatRun):
    """FlatRun + helper-presence probe after every top-level add_model"""

    def __init__(self, *a, **k):
        self.problems = []
        flat.FlatRun.__init__(self, *a, **k)

    def do_cmd(self, c):
        r = flat.FlatRun.do_cmd(self, c)
        if c[0] == ADD:
            mo = self.model_objs[c[1]]
            want = ['trigger', 'may_trigger']
            for ev, _ts in self.d.events:
                want += [flat.ename(ev), 'may_' + flat.ename(ev)]
            attr = getattr(self.d, 'model_attr', 'state')
            missing = [w for w in want if w not in mo.__dict__]
            for s in self.d.states:
                # flat classes put the model_attribute into the helper name, the hierarchical ones do not
                names = ['is_' + flat.sname(s['name']), 'is_%s_%s' % (attr, flat.sname(s['name']))]
                if not any(nm in mo.__dict__ for nm in names):
                    missing.append(names[-1])
            if missing:
                self.problems.append(('helpers-missing-after-add_model', c[1], missing[:4]))
        return r


def removed_model_touched(items):
    """'A removed model is no longer touched by the machine': once remove_model(m) has returned (and until m is added
    again) no callback runs on behalf of m — except as the continuation of an event of m that had already started
    running callbacks before the removal, or under a trigger the USER issues on m afterwards (the helpers stay bound;
    that is the user touching the model, not the machine). What remains: a dispatch that still reaches m, a queued
    event of m that is processed although it was pending at the removal, another model's event."""
    api, seen, removed, out = {}, {}, {}, []
    for idx, it in enumerate(items):
        if it[0] == 'api':
            api[it[2]] = (it[1], it[3], idx)
        elif it[0] == 'ret' and it[1] in api:
            kind, mid, _i = api[it[1]]
            if kind == REMOVE:
                removed[mid] = (idx, set(seen.get(mid, ())))
            elif kind == ADD:
                removed.pop(mid, None)
        elif it[0] == 'call':
            mid, tag = it[3], it[4]
            if mid in removed and tag not in removed[mid][1]:
                kind, target, started = api.get(tag, (None, None, -1))
                own = kind in (TRIGGER, MAY) and target == mid and started > removed[mid][0]
                if not own:
                    out.append(('removed-model-still-touched',
                                {'model': mid, 'removed_at_item': removed[mid][0], 'item': idx,
                                 'call': common.show_item(it),
                                 'under': None if kind is None else ['trigger', 'may', 'dispatch', 'remove_model',
                                                                     'add_model'][kind]}, 'C10.removed'))
                    break
            seen.setdefault(mid, set()).add(tag)
    return out


def oracle_membership(d, r):
    out = removed_model_touched(r.items)
    for p in getattr(r, 'problems', []):
        out.append((p[0], {'model': p[1], 'missing': p[2]}, 'C10.helpers'))
    if not membership_cmds_in_callbacks(d) and any(c[0] == DISPATCH for c in d.history):
        twin = flat.ExpandedDispatchRun(d).run()
        if twin.items != r.items or twin.final() != r.final():
            k = next((i for i, (a, b) in enumerate(zip(twin.items, r.items)) if a != b), min(len(twin.items), len(r.items)))
            out.append(('dispatch-differs-from-triggering-each-model-once-in-order',
                        {'first_difference_at': k,
                         'dispatch': [common.show_item(i) for i in r.items[max(0, k - 3):k + 4]],
                         'each_model_in_turn': [common.show_item(i) for i in twin.items[max(0, k - 3):k + 4]]},
                        'C10.dispatch'))
    return out


def monitor_indep(d, r):
    ms = []
    for m in d.models:
        ms += [m, d.initial]
    return ('c04', d.enc_cfg() + [len(d.models)] + ms + common.enc_items(r.items))


class WatchdogRun(object):
    """run a FlatRun on a worker thread; a hang (e.g. a lock entered twice) is reported, not suffered"""

    def __init__(self, d, clsname):
        cls, kw = get_cls(clsname)
        self.inner = CheckedRun(d, machine_cls=cls, extra_kwargs=kw)
        self.clsname = clsname

    def run(self):
        t = threading.Thread(target=self.inner.run, daemon=True)
        t.start()
        t.join(4.0)
        self.inner.hang = t.is_alive()
        if self.inner.hang:
            self.inner.problems.append(('machine-hangs', self.clsname, []))
        return self.inner


def cls_for(d):
    kinds = set(c[0] for c in d.history) | set(c[0] for cmds, _o in d.script.values() for c in cmds)
    pool = SYNC_CLASSES[1:]
    if ADD in kinds and REMOVE in kinds:
        # a removed model keeps its helpers; graph classes refuse (by design, AttributeError) to bind get_graph on a
        # model that already has one, so re-adding a REMOVED model is not comparable there — not a C10 clause
        pool = [c for c in pool if 'Graph' not in c]
    cb_kinds = set(c[0] for cmds, _o in d.script.values() for c in cmds)
    if ADD in cb_kinds and REMOVE in cb_kinds:
        # a callback may remove and re-add the very model whose transition is in progress, which resets its state
        # mid-transition; hierarchical classes then resolve exits from that configuration (C09's business)
        pool = [c for c in pool if 'Hierarchical' not in c]
    return pool[int(flatcheck.fingerprint(d), 16) % len(pool)]


def oracle_classes(d, r):
    return removed_model_touched(r.items) + [(p[0], {'class_or_model': p[1], 'missing': p[2]}, 'C10.' + ('hang' if p[0] == 'machine-hangs' else 'helpers'))
            for p in getattr(r, 'problems', [])]


# ---------------------------------------------------------------------------------------------
# lifecycle on all classes (no Lean model involved: Python oracle stating the clauses directly)
# ---------------------------------------------------------------------------------------------

class PlainModel(object):
    def __init__(self, name):
        self.name = name
        self.seen = []

    def note(self, *a, **k):
        self.seen.append(self.name)

    def ok(self, *a, **k):
        return getattr(self, 'allow', True)

    def __repr__(self):
        return '<PlainModel %s>' % self.name


class EmptyModel(PlainModel):
    """a container-like model that is currently empty: falsy"""
    def __len__(self):
        return 0


class FalseModel(PlainModel):
    def __bool__(self):
        return False


class Ctx(object):
    """instrumented context manager"""

    def __init__(self, name, log):
        self.name = name
        self.log = log

    def __enter__(self):
        self.log.append(('enter', self.name))

    def __exit__(self, *a):
        self.log.append(('exit', self.name))


def call(mach, fn, *a, **k):
    """call a trigger-like function on a sync or async machine, with a watchdog"""
    res = {}

    def go():
        try:
            r = fn(*a, **k)
            if asyncio.iscoroutine(r):
                loop = asyncio.new_event_loop()
                try:
                    r = loop.run_until_complete(r)
                finally:
                    loop.close()
            res['r'] = r
        except BaseException as e:        # noqa
            res['e'] = e
    t = threading.Thread(target=go, daemon=True)
    t.start()
    t.join(4.0)
    if t.is_alive():
        return 'hang', None
    if 'e' in res:
        return 'exc', res['e']
    return 'ok', res['r']


def lifecycle_case(clsname, queued, rng):
    """returns list of (what, details, signature)"""
    out = []
    cls, kw = get_cls(clsname)
    states = ['A', 'B', 'C']
    trans = [['go', 'A', 'B'], ['go', 'B', 'C'], ['go', 'C', 'A'], ['back', 'B', 'A']]
    n0 = rng.randint(1, 3)
    # some models are FALSY objects (container-like with __len__ == 0, or __bool__ False): legal models
    mk = rng.choice([PlainModel, PlainModel, EmptyModel, FalseModel])
    models = [(mk if rng.random() < 0.7 else PlainModel)('m%d' % i) for i in range(n0)]
    info = {'class': clsname, 'queued': queued}
    auto = rng.random() < 0.5
    try:
        mach = cls(model=list(models), states=states, transitions=trans, initial='A', queued=queued,
                   after_state_change='note', auto_transitions=auto, **kw)
    except Exception as e:      # noqa — registering legal models must not fail
        return [('registering-the-models-failed', dict(info, err=repr(e)[:160], models=[type(m).__name__ for m in models]),
                 'C10.add-later')]
    if [getattr(m, 'state', None) for m in models] != ['A'] * len(models):
        return [('model-without-the-initial-state', dict(info, states=[getattr(m, 'state', None) for m in models],
                                                          models=[type(m).__name__ for m in models]), 'C10.add-later')]

    def bad(what, sig, **d):
        out.append((what, dict(info, **d), sig))

    def states_of():
        return [m.state for m in mach.models]
    # some events first
    for _ in range(rng.randint(0, 3)):
        m = rng.choice(models)
        others = [(o, o.state) for o in models if o is not m]
        k, r = call(mach, m.go)
        if k != 'ok':
            bad('event-failed-%s' % k, 'C10.lifecycle', err=repr(r))
            return out
        moved = [o.name for o, st in others if o.state != st]
        others = None       # (must not keep the models alive: collectability is checked below)
        if moved:
            bad('event-on-one-model-moved-another', 'C10.independence', event_on=m.name, moved=moved,
                model_class=type(m).__name__)
            return out
    # a model added with an Enum member as its own initial state — also a FALSY member (IntEnum value 0)
    if rng.random() < 0.35:
        import enum
        Phase = enum.IntEnum('Phase', [('IDLE', 0), ('RUN', 1), ('DONE', 2)])
        em = cls(model=None, states=Phase, transitions=[['go', Phase.IDLE, Phase.RUN], ['go', Phase.RUN, Phase.DONE]],
                 initial=Phase.RUN, queued=queued, auto_transitions=False, **kw)
        for want in (Phase.IDLE, Phase.DONE, None):
            pm = PlainModel('enum')
            em.add_model(pm, initial=want)
            got = pm.state
            if got != (want if want is not None else Phase.RUN):
                bad('late-model-wrong-initial', 'C10.add-later', state=str(got), expected=str(want), enum=True)
    # a model added later, with its own initial state or the machine's
    late = PlainModel('late')
    init = rng.choice([None, 'B'])
    mach.add_model(late, initial=init)
    models.append(late)
    if late.state != (init or 'A'):
        bad('late-model-wrong-initial', 'C10.add-later', state=late.state)
    for h in ('go', 'back', 'may_go', 'trigger', 'may_trigger', 'is_A', 'is_C'):
        if not hasattr(late, h):
            bad('late-model-missing-helper', 'C10.add-later', helper=h)
    # a registration that FAILS (unknown initial state) leaves no trace in the registry; the corrected call then works
    if rng.random() < 0.5:
        rej = PlainModel('rejected')
        try:
            mach.add_model(rej, initial='nowhere')
            bad('model-accepted-with-an-unregistered-initial-state', 'C10.add-rejected', state=str(getattr(rej, 'state', None)))
        except Exception:       # noqa
            pass
        if any(m is rej for m in mach.models):
            bad('rejected-model-stays-registered', 'C10.add-rejected', n=len(mach.models))
            return out
        try:
            mach.add_model(rej)
        except Exception as e:  # noqa
            bad('corrected-add-model-raised', 'C10.add-rejected', err=repr(e)[:120])
            return out
        if getattr(rej, 'state', None) != 'A' or not any(m is rej for m in mach.models):
            bad('corrected-add-model-without-effect', 'C10.add-rejected', state=str(getattr(rej, 'state', None)))
        models.append(rej)
        rej = None          # (must not keep the model alive: collectability is checked below)
    # the machine as its own model (the default): naming it again — by the literal or as an object, alone or next to a
    # new model — has no effect on it, and the new model is registered completely
    if rng.random() < 0.35:
        own_m = cls(states=states, transitions=trans, initial='A', queued=queued, auto_transitions=auto, **kw)
        k, r = call(own_m, own_m.go)
        newm = PlainModel('next-to-self')
        try:
            own_m.add_model(rng.choice(['self', own_m]))
            own_m.add_model(['self', newm] if rng.random() < 0.5 else [newm, own_m])
        except Exception as e:  # noqa
            bad('add-twice-raised', 'C10.add-twice-self', err=repr(e)[:120])
            return out
        if len(own_m.models) != 2 or own_m.state != 'B' or getattr(newm, 'state', None) != 'A':
            bad('add-twice-changed-model-list', 'C10.add-twice-self', n=len(own_m.models), own=str(own_m.state),
                new=str(getattr(newm, 'state', None)))
        if 'Graph' in clsname and not (hasattr(newm, 'get_graph') and newm.get_graph() is not None):
            bad('late-model-missing-helper', 'C10.add-twice-self', helper='get_graph')
        own_m = newm = r = None
    # subsequently added state / transition reach every model
    mach.add_states('D')
    mach.add_transition('jump', '*', 'D')
    for m in models:
        if not (hasattr(m, 'jump') and hasattr(m, 'is_D') and hasattr(m, 'may_jump')):
            bad('subsequently-added-trigger-or-state-check-missing', 'C10.add-later', model=m.name)
    # adding twice: separate call, one call naming a model twice, mixed with a new one
    before = (len(mach.models), states_of())
    again = rng.choice(models)
    variant = rng.choice(['same', 'list-twice', 'new-and-old', 'new-and-old'])
    fresh = PlainModel('fresh')
    own = rng.choice([None, None, 'C'])     # the new model's own initial state, or the machine's
    try:
        if variant == 'same':
            mach.add_model(again)
        elif variant == 'list-twice':
            mach.add_model([fresh, again, fresh], initial=own)
            models.append(fresh)
        else:
            mach.add_model([again, fresh], initial=own)
            models.append(fresh)
    except Exception as e:      # noqa
        bad('add-twice-raised', 'C10.add-twice-raises:' + ('graph' if 'Graph' in clsname else 'other'),
            variant=variant, err=repr(e)[:120])
        return out
    if variant != 'same' and fresh.state != (own or 'A'):
        # a model added later starts in the machine's or its own initial state — whatever else the call lists
        bad('late-model-wrong-initial', 'C10.add-later', state=str(fresh.state), expected=own or 'A', variant=variant,
            listed_first=again.name, its_state=str(again.state))
    expect_n = before[0] + (0 if variant == 'same' else 1)
    if len(mach.models) != expect_n or len(set(map(id, mach.models))) != len(mach.models):
        bad('add-twice-changed-model-list', 'C10.add-twice', variant=variant, n=len(mach.models), expected=expect_n)
    if [m.state for m in mach.models][:before[0]] != before[1]:
        bad('add-twice-reset-a-state', 'C10.add-twice', variant=variant)
    # every model still reacts, exactly once per dispatch, in registration order
    for m in models:
        m.seen = []
    order = []
    for m in models:
        m.seen = order
    k, r = call(mach, mach.dispatch, 'go')
    if k == 'hang':
        bad('dispatch-hangs-after-add-twice', 'C10.add-twice-hang:' + ('locked' if 'Locked' in clsname else 'other'),
            variant=variant)
        return out
    if k == 'exc':
        bad('dispatch-raised', 'C10.lifecycle', err=repr(r))
        return out
    if order != [m.name for m in mach.models]:
        bad('dispatch-not-each-once-in-order', 'C10.dispatch', got=order, expected=[m.name for m in mach.models])
    # a dispatch in which some models decline (condition False): every registered model is still offered the event
    # exactly once, in order, and the result is the conjunction
    if len(mach.models) >= 2:
        mach.add_transition('maybe', '*', '=', conditions='ok')
        regs = list(mach.models)
        for i, m in enumerate(regs):
            m.allow = (i % 2 == 1) if rng.random() < 0.7 else rng.random() < 0.5
        order[:] = []
        k, r = call(mach, mach.dispatch, 'maybe')
        want = [m.name for m in regs if m.allow]
        if k != 'ok':
            bad('dispatch-%s' % k, 'C10.dispatch', err=repr(r)[:120])
            return out
        # (a queued machine answers True for every accepted trigger)
        if order != want or bool(r) != (True if queued else all(m.allow for m in regs)):
            bad('dispatch-not-each-once-in-order', 'C10.dispatch', got=list(order), expected=want, result=repr(r),
                declining=[m.name for m in regs if not m.allow])
        for m in regs:
            m.allow = True
        regs = m = None         # (must not keep the models alive: collectability is checked below)
    # the machine (with its models) may go through pickle first: the restored machine must not keep its models alive
    # in left-over tables either
    if rng.random() < 0.3 and not any('<locals>' in type(m).__qualname__ for m in models):
        import pickle
        try:
            mach = pickle.loads(pickle.dumps(mach))
        except Exception as e:      # noqa
            bad('machine-not-picklable', 'C10.lifecycle', err=repr(e)[:160])
            return out
        models = list(mach.models)
        late = fresh = again = None
        info['pickled'] = True
        for m in models:
            m.seen = order
    # removal: not dispatched to any more, collectable
    victim = rng.choice(models)
    models.remove(victim)
    vstate = victim.state
    mach.remove_model(victim)
    order[:] = []
    k, r = call(mach, mach.dispatch, 'go')
    if k != 'ok':
        bad('dispatch-after-remove-%s' % k, 'C10.lifecycle', err=repr(r))
        return out
    if victim.name in order or victim.state != vstate:
        bad('removed-model-still-touched', 'C10.removed', got=order)
    if order != [m.name for m in mach.models]:
        bad('dispatch-not-each-once-in-order', 'C10.dispatch', got=order, expected=[m.name for m in mach.models])
    ref = weakref.ref(victim)
    if fresh is victim:
        fresh = None
    if late is victim:
        late = None
    if again is victim:
        again = None
    del victim, m
    gc.collect()
    if ref() is not None:
        holders = [type(h).__name__ for h in gc.get_referrers(ref())][:5]
        bad('removed-model-not-collectable', 'C10.gc', referrers=holders)
    return out


def locked_context_case(clsname, rng):
    """model contexts of locked classes: entered for events of THEIR model only; gone after removal"""
    out = []
    cls, kw = get_cls(clsname)
    log = []
    a, b, c = PlainModel('a'), PlainModel('b'), PlainModel('c')
    mach = cls(model=None, states=['A', 'B'], transitions=[['go', 'A', 'B'], ['go', 'B', 'A']], initial='A', **kw)
    ctxs = {'a': [Ctx('ca', log)], 'b': [Ctx('cb1', log), Ctx('cb2', log)]}
    for cx in ctxs['a']:
        cx.owner = a        # the contexts reference their models (a per-model lock object usually does), so an
    for cx in ctxs['b']:    # entry left behind in the lock map keeps the model alive
        cx.owner = b
    mach.add_model(a, model_context=ctxs['a'])
    mach.add_model(b, model_context=ctxs['b'])
    del ctxs, cx
    mach.add_model(c)
    info = {'class': clsname}

    def ev(m):
        del log[:]
        k, r = call(mach, m.go)
        return k, list(log)
    for m, own in ((a, ['ca']), (b, ['cb1', 'cb2']), (c, [])):
        k, l = ev(m)
        if k != 'ok':
            out.append(('locked-event-%s' % k, dict(info, model=m.name), 'C10.locked-ctx'))
            return out
        entered = [n for kind, n in l if kind == 'enter']
        foreign = [n for n in entered if n not in own]
        if foreign:
            out.append(('foreign-model-context-entered', dict(info, model=m.name, entered=entered), 'C10.locked-ctx'))
        if entered != own:
            out.append(('own-model-context-not-entered-once-in-order', dict(info, model=m.name, entered=entered), 'C10.locked-ctx'))
    del log[:]
    # removal — one model, or SEVERAL in one remove_model([...]) call
    variant = rng.choice(['single', 'list-one', 'list-two', 'list-three'])
    victims = {'single': [a], 'list-one': [a], 'list-two': [a, b], 'list-three': [a, b, c]}[variant]
    info = dict(info, removal=variant)
    try:
        mach.remove_model(a if variant == 'single' else list(victims))
    except Exception as e:      # noqa
        out.append(('remove-model-raised', dict(info, err=repr(e)[:120]), 'C10.locked-ctx'))
        return out
    keep = [m for m in (a, b, c) if m not in victims]
    for m in keep:
        call(mach, m.go)
    call(mach, mach.add_states, 'Z')
    gone = [n for m, ns in ((a, ['ca']), (b, ['cb1', 'cb2'])) if m in victims for n in ns]
    if any(n in gone for _k, n in log):
        out.append(('context-of-removed-model-still-entered', info, 'C10.locked-ctx'))
    # registered again with another context: the NEW one is entered, the old one is not
    back = rng.choice(victims)
    mach.add_model(back, model_context=[Ctx('new', log)])
    del log[:]
    k, l = ev(back)
    entered = [n for kind, n in l if kind == 'enter']
    if k != 'ok' or entered != ['new']:
        out.append(('re-registered-model-enters-wrong-contexts', dict(info, model=back.name, outcome=k, entered=entered),
                    'C10.locked-ctx'))
    mach.remove_model(back)
    refs = [(m.name, weakref.ref(m)) for m in victims]
    del a, b, c, m, victims, keep, back
    gc.collect()
    alive = [n for n, r in refs if r() is not None]
    if alive:
        out.append(('removed-model-not-collectable', dict(info, models=alive), 'C10.gc'))
    return out


def queued_remove_case(clsname, rng):
    """queued machine: a callback of q0's event queues events for the other models and then removes SEVERAL of
    them in one remove_model([...]) call — none of the removed models may be touched afterwards (no reference
    retained in the queue), the kept ones are processed exactly once"""
    out = []
    cls, kw = get_cls(clsname)
    n = rng.randint(3, 4)
    log = []
    box = {}

    class QM(PlainModel):
        def entered(self, *a, **k):
            log.append(self.name)

        def kick(self, *a, **k):
            if self.name != 'q0':
                return
            for m in box['others']:
                m.go()
            box['mach'].remove_model(list(box['victims']))
    models = [QM('q%d' % i) for i in range(n)]
    others = models[1:]
    rng.shuffle(others)
    victims = rng.sample(others, rng.randint(2, len(others)))
    box['others'], box['victims'] = others, victims
    mach = cls(model=list(models), states=[{'name': 'A'}, {'name': 'B', 'on_enter': 'entered'}],
               transitions=[{'trigger': 'go', 'source': 'A', 'dest': 'B', 'before': 'kick'}], initial='A', queued=True,
               auto_transitions=False, **kw)
    box['mach'] = mach
    k, r = call(mach, models[0].go)
    info = {'class': clsname, 'removed': [v.name for v in victims], 'queued_for': [m.name for m in others]}
    if k != 'ok':
        out.append(('queued-remove-%s' % k, dict(info, err=repr(r)[:120]), 'C10.queued-remove'))
        return out
    touched = [v.name for v in victims if v.state != 'A' or v.name in log]
    if touched:
        out.append(('removed-model-processed-from-the-queue', dict(info, touched=touched, log=list(log)), 'C10.queued-remove'))
    kept = [m.name for m in others if m not in victims]
    want = ['q0'] + kept
    if sorted(log) != sorted(want) or any(m.state != 'B' for m in models if m.name in want):
        out.append(('kept-model-not-processed-exactly-once', dict(info, log=list(log), expected=want), 'C10.queued-remove'))
    return out


def async_model_queue_case(clsname, rng):
    """queued='model' on the async classes: models attached in ONE add_model([...]) call (or one by one, or through
    the constructor) have independent queues — while a0's event is suspended inside a callback, an event on a1 is
    processed at once, by its own caller"""
    out = []
    cls, kw = get_cls(clsname)
    attach = rng.choice(['list', 'list', 'each', 'ctor'])
    gate = {}
    res = {}

    class AM(PlainModel):
        async def hold(self, *a, **k):
            if self.name == 'a0':
                gate['inside'].set()
                await gate['release'].wait()

    a0, a1 = AM('a0'), AM('a1')

    async def main():
        gate['inside'], gate['release'] = asyncio.Event(), asyncio.Event()
        states = ['A', {'name': 'B', 'on_enter': 'hold'}]
        trans = [['go', 'A', 'B']]
        if attach == 'ctor':
            mach = cls(model=[a0, a1], states=states, transitions=trans, initial='A', queued='model',
                       auto_transitions=False, **kw)
        else:
            mach = cls(model=None, states=states, transitions=trans, initial='A', queued='model',
                       auto_transitions=False, **kw)
            if attach == 'list':
                mach.add_model([a0, a1])
            else:
                mach.add_model(a0)
                mach.add_model(a1)
        t0 = asyncio.ensure_future(a0.go())
        await asyncio.wait_for(gate['inside'].wait(), 5)
        res['r1'] = await asyncio.wait_for(a1.go(), 5)
        res['s1_when_returned'] = a1.state
        gate['release'].set()
        res['r0'] = await asyncio.wait_for(t0, 5)
        res['final'] = (a0.state, a1.state)
    try:
        asyncio.run(main())
    except BaseException as e:     # noqa
        out.append(('async-model-queue-scenario-failed', {'class': clsname, 'attach': attach, 'err': repr(e)[:160]},
                    'C10.async-model-queue'))
        return out
    if res.get('s1_when_returned') != 'B' or not res.get('r1') or res.get('final') != ('B', 'B'):
        out.append(('event-on-one-model-waited-for-another-models-event',
                    {'class': clsname, 'attach': attach, 'observed': {k: str(v) for k, v in res.items()}},
                    'C10.async-model-queue'))
    return out


def two_machines_case(rng):
    """machine B (other model_attribute, distinct event names) on the same model objects must not disturb A"""
    out = []
    kn = flat.Knobs(max_models=2, p_unknown_event=0.0, max_history=8)
    d = flat.gen_flat(rng, kn)
    d.model_attr = 'state'       # the second machine uses 'mode'
    alone = flat.FlatRun(d).run()
    both = flat.FlatRun(d)
    from transitions import Machine
    bstates = ['b0', 'b1', 'b2']
    btrans = [['f0', 'b0', 'b1'], ['f0', 'b1', 'b2'], ['f1', '*', 'b0']]
    auto = rng.random() < 0.6
    # the second machine may declare a trigger under a NAME the first machine uses too: the model keeps the first
    # machine's method (the second one is skipped with a warning); removing the second machine's transitions for
    # that name later must leave the first machine's method on the model alone
    shared = flat.ename(d.events[0][0]) if d.events and rng.random() < 0.5 else None
    btrans_b = btrans + ([[shared, 'b0', 'b1']] if shared else [])
    mb = Machine(model=[both.model_objs[m] for m in d.models], states=bstates, transitions=btrans_b, initial='b0',
                 model_attribute='mode', auto_transitions=auto)
    ref = Machine(model=[PlainModel('x') for _ in d.models], states=bstates, transitions=btrans, initial='b0',
                  model_attribute='mode', auto_transitions=auto)
    if shared:
        mb.remove_transition(shared)
        gone = [m for m in d.models if not callable(getattr(both.model_objs[m], shared, None))]
        if gone:
            out.append(('second-machine-removed-the-first-machines-trigger', {'trigger': shared, 'models': gone},
                        'C10.two-machines'))
            return out, d
    if auto:
        # every helper of a machine with a custom model_attribute carries that attribute in its name: nothing may be
        # bound under the plain to_<state> / is_<state> names (those belong to a machine using the default attribute),
        # and to_mode_<state>() works from EVERY state, also towards states declared earlier
        mo0 = both.model_objs[d.models[0]]
        plain = [n for n in ['to_' + b for b in bstates] + ['is_' + b for b in bstates] if n in mo0.__dict__]
        if plain:
            out.append(('custom-attribute-machine-bound-plain-helper-names', {'names': plain}, 'C10.two-machines'))
            return out, d
        before = both.state_id(mo0)
        for frm, to in (('b0', 'b2'), ('b2', 'b0'), ('b0', 'b1'), ('b1', 'b0'), ('b0', 'b0')):
            try:
                ok = getattr(mo0, 'to_mode_' + to)()
            except BaseException as e:      # noqa
                ok = type(e).__name__
            if ok is not True or mo0.mode != to:
                out.append(('to-helper-of-second-machine-failed', {'from': frm, 'to': to, 'result': str(ok), 'mode': mo0.mode},
                            'C10.two-machines'))
                return out, d
        if both.state_id(mo0) != before:
            out.append(('second-machine-moved-the-first-machines-state', {}, 'C10.two-machines'))
            return out, d
        getattr(ref.models[0], 'to_mode_b0')()
    for c in d.history:
        try:
            both.do_cmd(c)
        except BaseException as e:      # noqa
            if isinstance(e, (common.MachineryError, KeyboardInterrupt)):
                raise
        i = rng.randrange(len(d.models))
        evn = rng.choice(['f0', 'f1'])
        mo, rm = both.model_objs[d.models[i]], ref.models[i]
        r1 = ra = None
        try:
            r1 = getattr(mo, evn)()
        except BaseException as e:      # noqa
            r1 = type(e).__name__
        try:
            ra = getattr(rm, evn)()
        except BaseException as e:      # noqa
            ra = type(e).__name__
        if r1 != ra or mo.mode != rm.mode:
            out.append(('second-machine-disturbed', {'event': evn, 'got': [r1, mo.mode], 'expected': [ra, rm.mode]},
                        'C10.two-machines'))
            return out, d
    if both.items != alone.items or both.final() != alone.final():
        k = next((i for i, (a, b) in enumerate(zip(both.items, alone.items)) if a != b), 0)
        out.append(('first-machine-disturbed-by-second', {
            'first_difference_at': k, 'with_second': [common.show_item(i) for i in both.items[max(0, k - 3):k + 4]],
            'alone': [common.show_item(i) for i in alone.items[max(0, k - 3):k + 4]]}, 'C10.two-machines'))
    for m in d.models:
        mo = both.model_objs[m]
        if not hasattr(mo, 'is_b0') and not hasattr(mo, 'is_mode_b0'):
            out.append(('second-machine-helpers-missing', {'model': m}, 'C10.two-machines'))
    return out, d


def lifecycle_chunk(seed, idx, n):
    rng = random.Random('C10/life/%d/%d' % (seed, idx))
    ex = Exploration()
    for _ in range(n):
        kind = rng.choice(['life', 'life', 'life', 'lockctx', 'two', 'qremove', 'asyncq'])
        if kind == 'life':
            clsname = rng.choice(SYNC_CLASSES + ASYNC_CLASSES)
            queued = rng.choice([False, True] + (['model'] if 'Async' in clsname else []))
            sub = rng.randrange(1 << 30)
            res = lifecycle_case(clsname, queued, random.Random(sub))
            case = {'kind': kind, 'cls': clsname, 'queued': queued, 'sub': sub}
            key = 'life:%s:%s' % (clsname, queued)
        elif kind == 'lockctx':
            clsname = rng.choice(['LockedMachine', 'LockedHierarchicalMachine'])
            sub = rng.randrange(1 << 30)
            res = locked_context_case(clsname, random.Random(sub))
            case = {'kind': kind, 'cls': clsname, 'sub': sub}
            key = 'lockctx:' + clsname
        elif kind == 'qremove':
            clsname = rng.choice(SYNC_CLASSES)
            sub = rng.randrange(1 << 30)
            res = queued_remove_case(clsname, random.Random(sub))
            case = {'kind': kind, 'cls': clsname, 'sub': sub}
            key = 'qremove:' + clsname
        elif kind == 'asyncq':
            clsname = rng.choice(ASYNC_CLASSES)
            sub = rng.randrange(1 << 30)
            res = async_model_queue_case(clsname, random.Random(sub))
            case = {'kind': kind, 'cls': clsname, 'sub': sub}
            key = 'asyncq:' + clsname
        else:
            sub = rng.randrange(1 << 30)
            res, d = two_machines_case(random.Random(sub))
            case = {'kind': kind, 'sub': sub}
            key = 'two'
        ex.evaluations += 1
        ex.traces_validated += 1
        ex.nontrivial.add('%s/%d' % (key, sub))
        h = ex.stats.setdefault('lifecycle_kind', {})
        h[key] = h.get(key, 0) + 1
        for what, details, sig in res:
            ex.failures.append(Failure('monitor', what, case, details, signature=sig))
        if len(ex.failures) >= 2:
            break       # enough counterexamples from this chunk; hangs are expensive
    return ex


def rerun_lifecycle(case):
    if case['kind'] == 'life':
        return lifecycle_case(case['cls'], case['queued'], random.Random(case['sub']))
    if case['kind'] == 'lockctx':
        return locked_context_case(case['cls'], random.Random(case['sub']))
    if case['kind'] == 'qremove':
        return queued_remove_case(case['cls'], random.Random(case['sub']))
    if case['kind'] == 'asyncq':
        return async_model_queue_case(case['cls'], random.Random(case['sub']))
    return two_machines_case(random.Random(case['sub']))[0]


class C10(flatcheck.FlatCheck):
    prop = 'C10'
    level = 'proof'
    theorems = ('TM.C10_dispatch_each_once_in_order', 'TM.C10_trigger_local', 'TM.C10_add_twice_noop',
                'TM.C10_add_later', 'TM.C10_removed_untouched', 'TM.C10_removed_not_dispatched')
    manifest = dict(
        level='proof', design='DESIGN.md 4/C10',
        text="Lean 4 theorems on the engine model: dispatch's walk over the live model list equals the sequential specification (each registered model exactly once, registration order, conjunction) for every script without re-entrant commands; a trigger touches only its own model's state and runs callbacks only on its behalf; add_model of a registered model is the identity; a later model is appended in the initial state; remove_model erases the model, purges its queued events behind the head and touches no state. Tied to /repo by trace equality on membership histories (also from callbacks, queued or not), a dispatch-twin oracle, the verified per-model acceptor, and a Python lifecycle oracle on all 12 predefined classes (add later/twice, locked model contexts, removal + garbage collection, two machines on one model).",
        note="Trusted: Lean kernel, Model/Core.lean tied by trace equality, harness oracles. Partial: garbage-collectability, helper binding and the per-class side tables (lock map, graphs, task tables) are runtime behaviour decided by the lifecycle oracle (sampling), not by a theorem; theorems assume scripts without re-entrant commands (re-entrant membership changes are covered by model equality only).",
        technique="Lean 4 proof (induction over the model list; frame lemmas) + differential correspondence + lifecycle oracle on 12 classes")
    streams = (
        flatcheck.Stream('membership', knobs_membership, oracle=oracle_membership,
                         run_factory=lambda d: CheckedRun(d), quick=(16, 300), thorough=(64, 900)),
        flatcheck.Stream('classes', knobs_classes, oracle=oracle_classes,
                         run_factory=lambda d: WatchdogRun(d, cls_for(d)), quick=(16, 120), thorough=(64, 400)),
        flatcheck.Stream('independence', knobs_indep, monitor=monitor_indep, quick=(16, 150), thorough=(32, 700)),
    )
    rule = ('membership/classes: random flat configurations x histories of trigger/dispatch/add_model/remove_model over '
            '1-4 models (registered or not), the same calls also issued from callbacks, queued or not; independence: '
            'trigger-only histories over up to 4 models; lifecycle: scripted add-later/add-twice/remove/gc scenario with '
            'random class (12), queue mode, model choice; distinct = different encoding / (class, mode, sub-seed)')
    trusted = ('hand-written model lean/Model/Core.lean (dispatch, add_model, remove_model) tied to /repo by trace equality',
               'Python lifecycle oracle harness/props/c10.py (helper presence, weakref liveness, instrumented contexts)')

    def assumptions(self):
        return ['theorems assume scripts without re-entrant API calls; membership changes made by callbacks during a '
                'dispatch are decided by model equality only',
                'garbage collection is probed with weakref + gc.collect() (CPython reference semantics)',
                'LockedHierarchicalMachine not entering model contexts at all is judged by C06, not here']

    def explore(self, tier, seed):
        ex = flatcheck.FlatCheck.explore(self, tier, seed)
        nch, per = (16, 40) if tier == 'quick' else (32, 150)
        for part in runner.parallel(lifecycle_chunk, [(seed, i, per) for i in range(nch)]):
            ex.merge(part)
        return ex

    def rejudge(self, case):
        if 'kind' in case:
            fs = [Failure('monitor', w, case, d, signature=s) for w, d, s in rerun_lifecycle(case)]
            return None, None, None, None, fs
        return flatcheck.FlatCheck.rejudge(self, case)

    def annotate(self, f):
        if 'kind' in f.case:
            return
        flatcheck.FlatCheck.annotate(self, f)

    def replay(self, path):
        import json
        with open(path) as fh:
            payload = json.load(fh)
        if 'case' in payload and 'kind' in payload['case']:
            fs = rerun_lifecycle(payload['case'])
            for w, d, s in fs:
                print('FAIL', w, d)
            return 1 if fs else 0
        return flatcheck.FlatCheck.replay(self, path)


CHECK = C10()
