"""C16 — diagrams depict the machine: states, nesting, transitions and activity (Mermaid backend)."""
import copy
import hashlib
import json
import os
import random

from .. import common, diagram, runner
from ..runner import Exploration, Failure


def run_case(case):
    """Drive one case on the real classes. Returns (checkpoints, stopped) where a checkpoint is
    {'at': op index (-1 = after construction), 'model': i, 'roi': bool, 'text' | 'exc', 'req': [...],
     'oracle': [(what, details, signature)]}"""
    run = diagram.Run(case)
    cps = []
    stopped = None

    def checkpoint(at):
        for mi, model in enumerate(run.models):
            if mi in run.removed:
                continue
            for roi in (False, True):
                cp = {'at': at, 'model': mi, 'roi': roi, 'oracle': []}
                try:
                    cp['text'] = model.get_graph(show_roi=roi).draw(None)
                except Exception as e:
                    cp['exc'] = '%s: %s' % (type(e).__name__, e)
                    cp['oracle'].append(('roi-raises' if roi else 'get_graph-raises', {'exception': cp['exc']},
                                         'C16.roi.exception' if roi else 'C16.exception'))
                cp['req'] = diagram.enc_request(run, mi, roi)
                if 'text' in cp:
                    try:
                        d = diagram.parse_mermaid(cp['text'])
                        cp['canon'] = d.canon()
                        cp['oracle'] += diagram.oracle_roi(run, mi, d) if roi else diagram.oracle_full(run, mi, d)
                    except diagram.ParseError as e:
                        cp['oracle'].append(('unparseable', {'error': str(e)}, 'C16.parse'))
                # open finding (shared markup): the model does not mirror the foreign state; correspondence not compared
                cp['skip_corr'] = run.shares_markup()
                if cp['skip_corr']:
                    # the diagram is drawn from a dict the other machine has rewritten (its states, its options):
                    # every clause that fails here is this finding
                    cp['oracle'] = [(w, det, diagram.SIG_CLONE) for w, det, _sig in cp['oracle']]
                cp['cur'] = [diagram.name_of(p) for p in run.cur(mi)]
                cps.append(cp)

    checkpoint(-1)
    for k, op in enumerate(case['ops']):
        err = run.apply(op)
        if err is not None:
            stopped = (k, err)
            break
        checkpoint(k)
    run.close()
    return cps, stopped, run


def judge(case, cps, answers):
    out = []
    for cp, ans in zip(cps, answers):
        where = {'after_op': cp['at'], 'model': cp['model'], 'roi': cp['roi'], 'state': cp.get('cur')}
        for what, details, sig in cp['oracle']:
            det = dict(details)
            det.update(where)
            det['diagram'] = cp.get('text', cp.get('exc'))
            out.append(Failure('monitor', what, case, det, signature=sig))
        if ans == 'bad-input':
            raise common.MachineryError('driver rejected a c16 request: %r' % (cp['req'][:60],))
        if cp.get('skip_corr'):
            continue
        if cp['roi']:
            # the root `[*] -->` marker of the ROI view is not constrained by the property
            # (Enum states: `roi_state == machine.initial` compares an Enum with a name)
            if 'canon' in cp:
                cp['canon'] = cp['canon'][:2] + (None,)
        if not ans.startswith('D'):
            raise common.MachineryError('unexpected driver answer %r' % ans[:80])
        if 'exc' in cp:
            out.append(Failure('correspondence', 'diagram_eq', case, dict(where, model_says='a diagram', impl=cp['exc'])))
            continue
        if 'canon' not in cp:
            continue
        m = diagram.decode_diagram(ans)
        if cp['roi']:
            m = m[:2] + (None,)
        if m != cp['canon']:
            out.append(Failure('correspondence', 'diagram_eq', case,
                               dict(where, model=repr(m), impl=repr(cp['canon']), diagram=cp['text'])))
    return out


def evaluate(cases):
    """-> list of (case, cps, stopped, failures)"""
    runs = []
    reqs = []
    for case in cases:
        cps, stopped, run = run_case(case)
        runs.append((case, cps, stopped, dict(run.steps, recycled=[('recycled',)] * run.recycled)))
        reqs += [('c16', cp['req']) for cp in cps]
    answers = common.batch_driver(reqs) if reqs else []
    out = []
    pos = 0
    for case, cps, stopped, steps in runs:
        ans = answers[pos:pos + len(cps)]
        pos += len(cps)
        out.append((case, cps, stopped, judge(case, cps, ans), steps))
    return out


def fingerprint(case):
    return hashlib.sha1(json.dumps(case, sort_keys=True).encode()).hexdigest()[:16]


def nontrivial(case, cps):
    """at least one executed state change shown in a diagram and (hierarchical: a compound state; flat: ≥ 2 states)"""
    changed = len(set(tuple(cp['cur']) for cp in cps if not cp['roi'])) > 1
    if case['nested']:
        return changed and any(s['children'] for s in case['states'])
    return changed and len(case['states']) >= 2


def chunk(seed, idx, n, nested):
    rng = random.Random('C16/%s/%d/%d' % (nested, seed, idx))
    cases = [diagram.gen_case(rng, nested) for _ in range(n)]
    return account(cases)


def corpus_cases():
    """regression cases (witnesses of the former findings, minimised past disagreements): always run first"""
    cdir = os.path.join(common.CORPUS, 'C16')
    out = []
    if os.path.isdir(cdir):
        for name in sorted(os.listdir(cdir)):
            if name.endswith('.json'):
                with open(os.path.join(cdir, name)) as fh:
                    out.append(json.load(fh)['case'])
    return out


def account(cases):
    ex = Exploration()
    st = ex.stats
    for case, cps, stopped, fails, run_steps in evaluate(cases):
        ex.evaluations += 1
        ex.traces_validated += len(cps)
        if nontrivial(case, cps):
            ex.nontrivial.add(fingerprint(case))
            if len(ex.samples) < 1:
                ex.samples.append({'nested': case['nested'], 'ops': case['ops'][:6],
                                   'last_diagram': next((cp['text'] for cp in reversed(cps) if 'text' in cp and not cp['roi']), None)})
        k = 'hierarchical' if case['nested'] else 'flat'
        st.setdefault('kind', {}).setdefault(k, 0)
        st['kind'][k] += 1
        st.setdefault('checkpoints', {}).setdefault('roi' if False else 'all', 0)
        st['checkpoints']['all'] += len(cps)
        st.setdefault('roi_outcome', {})
        for cp in cps:
            if cp['roi']:
                o = 'raises' if 'exc' in cp else 'diagram'
                st['roi_outcome'][o] = st['roi_outcome'].get(o, 0) + 1
        st.setdefault('history_stopped_by_engine', {})
        if stopped:
            key = stopped[1].split(':')[0]
            st['history_stopped_by_engine'][key] = st['history_stopped_by_engine'].get(key, 0) + 1
        st.setdefault('ops', {})
        for op in case['ops']:
            st['ops'][op[0]] = st['ops'].get(op[0], 0) + 1
        st.setdefault('options', {})
        for o, v in case['opts'].items():
            if v:
                st['options'][o] = st['options'].get(o, 0) + 1
        for o, v in (('enum_states', case['enum']), ('queued', case.get('queued')), ('retrigger_callbacks', case.get('retrig')),
                     ('locked_class', case.get('locked')), ('async_class', case.get('async')), ('machine_modifying_callback', case.get('modcb')), ('custom_model_attribute', case.get('model_attr') == 'custom'),
                     ('custom_attribute_and_own_state', case.get('model_attr') == 'custom' and case.get('own_state'))):
            if v:
                st['options'][o] = st['options'].get(o, 0) + 1
        if run_steps.get('recycled'):
            st['options']['model_at_recycled_address'] = st['options'].get('model_at_recycled_address', 0) + 1
        if any(s[0] == 'begin' and k + 1 < len(ss) and ss[k + 1][0] == 'begin'
               for ss in run_steps.values() for k, s in enumerate(ss)):
            st['options']['nested_event_executed'] = st['options'].get('nested_event_executed', 0) + 1
        st.setdefault('oracle_signatures', {})
        for f in fails:
            s = f.signature or f.what
            st['oracle_signatures'][s] = st['oracle_signatures'].get(s, 0) + 1
        ex.failures += fails
    return ex


def shrink_steps(case):
    for i in reversed(range(len(case['ops']))):
        c = copy.deepcopy(case)
        del c['ops'][i]
        yield c
    for k, op in enumerate(case['ops']):
        if op[0] == 'add_states' and len(op[1]) > 1:
            for j in range(len(op[1])):
                c = copy.deepcopy(case)
                del c['ops'][k][1][j]
                yield c
    if case.get('modcb'):
        c = copy.deepcopy(case)
        c['modcb'] = None
        yield c
    for cb in list(case.get('retrig', {})):
        c = copy.deepcopy(case)
        del c['retrig'][cb]
        yield c
    for key in ('queued', 'locked', 'own_state', 'async'):
        if case.get(key):
            c = copy.deepcopy(case)
            c[key] = False
            yield c
    if case.get('model_attr') == 'custom':
        c = copy.deepcopy(case)
        c['model_attr'] = 'default'
        yield c
    if case['n_models'] > 1 and not any(op[0] == 'add_model' for op in case['ops']):
        c = copy.deepcopy(case)
        c['n_models'] = 1
        c['ops'] = [op for op in c['ops'] if op[0] != 'trigger' or op[1] == 0]
        yield c
    for i in range(len(case['transitions'])):
        if len(case['transitions']) > 1:
            c = copy.deepcopy(case)
            del c['transitions'][i]
            yield c

    def scopes(states, trail):
        for i, s in enumerate(states):
            yield trail + [i], s
            for x in scopes(s['children'], trail + [i]):
                yield x

    def at(c, trail):
        s = c['states'][trail[0]]
        for i in trail[1:]:
            s = s['children'][i]
        return s
    for trail, s in scopes(case['states'], []):
        for i in range(len(s['transitions'])):
            c = copy.deepcopy(case)
            del at(c, trail)['transitions'][i]
            yield c
        for key, empty in (('label', None), ('final', False), ('enter', []), ('exit', [])):
            if s[key]:
                c = copy.deepcopy(case)
                at(c, trail)[key] = empty
                yield c
    for i, t in enumerate(case['transitions']):
        for key, empty in (('label', None), ('conditions', []), ('unless', [])):
            if t[key]:
                c = copy.deepcopy(case)
                c['transitions'][i][key] = empty
                yield c
    for o in ('show_conditions', 'show_auto', 'show_attrs', 'auto_transitions'):
        if case['opts'][o]:
            c = copy.deepcopy(case)
            c['opts'][o] = False
            yield c


class C16(runner.Check):
    prop = 'C16'
    level = 'proof'
    theorems = ('TM.C16_states_once_nested', 'TM.C16_states_once_flat', 'TM.C16_edges_exact',
                'TM.C16_edges_present', 'TM.C16_elements_cover', 'TM.C16_final_initial_marked',
                'TM.C16_final_marked_flat', 'TM.C16_activity', 'TM.C16_activity_current', 'TM.C16_activity_previous', 'TM.C16_activity_attribute',
                'TM.C16_roi', 'TM.C16_roi_defined', 'TM.C16_regenerated', 'TM.C16_no_cache', 'TM.C16_add_model_fresh',
                'TM.C16_activity_regen_during_change_counterexample')
    manifest = dict(
        level='proof', design='DESIGN.md 4/C16 + design_notes/C16.md',
        text="Mermaid backend only. Lean 4 theorems over an executable model of _get_elements / _transition_label / "
             "Graph and NestedGraph node+edge generation / the ROI filter / the style bookkeeping: for every state tree "
             "with distinct sibling names every state is declared exactly once inside its parent's block; one edge per "
             "(source, destination) whose label list is exactly the labels of the transitions between them (internal "
             "marked, conditions iff requested); final and initial markers; after every graph history styled-active ⊆ "
             "current states, styled-previous ⊆ {global source of the last executed transition}, current top-level "
             "states carry `active`; the ROI view is defined for every machine and declares the active states, their "
             "ancestors and one-step targets; regeneration resets styles. "
             "The model is tied to /repo by parsing model.get_graph().draw(None) back into the abstract diagram "
             "(equality up to order) and a Python oracle states the clauses directly against the live machine.",
        note="Decided for the Mermaid backend only: graphviz / pygraphviz are not importable in this sandbox. Trusted: "
             "Lean kernel, hand-written Model/Diagram.lean, the Mermaid-subset parser and the oracle in "
             "harness/diagram.py. The model follows the repaired tree (fix: commits d4cb904, 043c146, 84b14cc, 47dcba3); "
             "the witnesses of the four former findings are regression cases in corpus/C16/ and a return of any of them "
             "is a VIOLATION.",
        technique="Lean 4 proof (induction over state trees, transition lists, graph histories) + differential "
                  "correspondence on parsed Mermaid text + direct Python oracle")
    rule = ('random flat (1-4 states, 15% Enum states) and hierarchical (2-4 top-level states, depth <= 3, child names '
            'drawn from the same pool as top-level names, parallel states, compound states with and without initial) '
            'GraphMachine / HierarchicalGraphMachine configurations on the Mermaid engine with labels, final flags, '
            'on_enter/on_exit, conditions/unless, internal / reflexive / wildcard / multi-source transitions at the root '
            'and inside compound states, show_conditions / show_auto_transitions / show_state_attributes / '
            'auto_transitions on and off, queued and unqueued, plain, Locked and asynchronous graph classes (events awaited one at a time), default and custom '
            'model_attribute (models with and without an unrelated own `state` attribute), 1-2 external model objects plus '
            'models registered later with add_model, on_enter / transition-after '
            'callbacks that fire further events on the same model (nested events), histories of 2-9 operations (trigger '
            'incl. auto triggers, display options set later on the machine (auto_transitions_markup, show_conditions, '
            'show_state_attributes, title), on_enter_/on_exit_<state> callbacks registered later, add_states with lists mixing compound definitions, joined parent_child names and plain '
            'states, add_transition, remove_transition); after construction and after every operation the full and '
            'the region-of-interest diagram of every model are parsed, compared with the Lean model and judged by the '
            'oracle; the regression cases of corpus/C16/ run first. Non-trivial: the model state shown changes during the history (and a compound state exists for '
            'hierarchical cases); distinct = different case description')
    trusted = ('hand-written model lean/Model/Diagram.lean tied to /repo by equality of abstract diagrams (up to order '
               'of declarations, edges and labels) at every checkpoint',
               'Mermaid-subset parser, live-machine table reader and oracle in harness/diagram.py',
               'Mermaid backend only (graphviz/pygraphviz not importable offline)')

    budgets = {'quick': (16, 55, 16, 55), 'thorough': (48, 180, 48, 180)}

    def explore(self, tier, seed):
        fc, fn, hc, hn = self.budgets['quick' if tier == 'quick' else 'thorough']
        payloads = [(seed, i, fn, False) for i in range(fc)] + [(seed, i, hn, True) for i in range(hc)]
        ex = account(corpus_cases())        # corpus first
        ex.stats['corpus_cases'] = ex.evaluations
        for part in runner.parallel(chunk, payloads):
            ex.merge(part)
        self.reduce(ex.failures)
        return ex

    def reduce(self, failures):
        done = set()
        known = set(k.get('signature') for k in self.known())
        for f in failures:
            key = (f.kind, f.what, f.signature)
            if key in done or f.signature in known:      # known findings are reported, not shrunk
                continue
            done.add(key)
            if len(done) > 6:
                break
            f.case = runner.shrink(f.case, self.fails_like(f), shrink_steps, budget=250)
            for g in self.rejudge(f.case):
                if (g.kind, g.what, g.signature) == key:
                    f.details = g.details
                    break

    def rejudge(self, case):
        try:
            return evaluate([case])[0][3]
        except common.MachineryError:
            raise
        except Exception:
            return []

    def fails_like(self, f):
        key = (f.kind, f.what, f.signature)

        def pred(case):
            return any((g.kind, g.what, g.signature) == key for g in self.rejudge(case))
        return pred

    def search(self, tier, seed, failures):
        payloads = [(seed + 7919, i, 80, False) for i in range(16)] + [(seed + 7919, i, 80, True) for i in range(16)]
        known = set(k.get('signature') for k in self.known())
        found = []
        for part in runner.parallel(chunk, payloads):
            found += [f for f in part.failures if f.kind == 'monitor' and f.signature not in known]
        self.reduce(found)
        return found

    def replay(self, path):
        with open(path) as fh:
            payload = json.load(fh)
        if 'case' not in payload:
            print('no concrete input in this replay file: broken obligation', payload.get('broken_obligation'))
            return 1
        (case, cps, stopped, fails, _steps), = evaluate([payload['case']])
        for cp in cps:
            if not cp['roi']:
                print('--- after op %d, model %d, state %s' % (cp['at'], cp['model'], cp['cur']))
                print(cp.get('text', cp.get('exc')))
        if stopped:
            print('history stopped by the engine at op %d: %s' % stopped)
        for f in fails:
            print('FAIL', f.kind, f.what, f.signature, json.dumps({k: v for k, v in f.details.items() if k != 'diagram'},
                                                                  default=str)[:600])
        return 1 if fails else 0

    def assumptions(self):
        return [
            'Mermaid backend only: graphviz and pygraphviz are not importable here, so the Graphviz clauses of C16 '
            '(all states styleable) are not decided',
            'the last executed transition is taken from an independent record: every assignment of the model state '
            'attribute is logged together with the innermost transition in progress; events are fired re-entrantly from '
            'on_enter and transition-after callbacks only (an event fired from on_exit makes the engine move the model '
            'twice; the history is then not `Settled`, see Props/C16.lean)',
            '"current state(s)" = the names in model.state; a compound ancestor of a current state may be styled active '
            'without alarm (the code never does); "the last executed transition" = the last transition that changed '
            'state: internal transitions never touch the graph, so the previous style survives them',
            'a top-level state that is both current and the last source (reflexive transition) may carry either style',
            'the order of declarations, edge lines and labels within an edge is not constrained; an empty label from a '
            'nested initial pseudo-transition next to a real trigger ("to_C_a | ") is ignored',
            'ROI: containment only (the view may show more, e.g. the previous state); transitions of ancestors of the '
            'active states count as one-step reachable; automatic transitions count only when shown',
            'the machine table is read from the live Event/Transition objects (what add/remove_transition did to the '
            'machine is C13/C14 business); automatic = trigger name starts with "to_", which generated names never do',
            'state tags / timeouts (feature mixins) in show_state_attributes are not generated; histories stop at an '
            'operation on which the engine itself raises (other properties)',
            'open finding (shared markup): after a second machine was built from machine.markup, extended and exported, '
            'this machine\'s diagrams show the foreign state; classified by the presence of exactly that state, '
            'correspondence skipped on those diagrams',
            'asynchronous graph classes: events awaited one at a time, plain-function callbacks, no transition labels '
            '(AsyncTransition rejects the label keyword), no callbacks that fire events or change the machine',
            'one open finding: a state callback that changes the machine (add_transition) while a state change is in '
            'progress regenerates the graph for the source state (two active states); classified when the graph of that '
            'model was regenerated with a transition in progress and the extra active state is that transition\'s source '
            '(or its previous style is missing); the model mirrors the code as it is',
            'a regeneration wipes the previous style: afterwards the last source may or may not carry it, but no other '
            'state may; models removed from the machine are not judged until they are attached again',
            'the model follows the repaired tree only; corpus/C16/*.json (witnesses of the four former findings) run '
            'first on every run and must pass',
        ]


CHECK = C16()
