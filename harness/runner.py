"""The shared skeleton of a property check: build, audit, explore (parallel), verdict, evidence.

A property module provides a subclass of `Check` with

    prop            'C01'
    theorems        Lean theorem names audited with `#print axioms`
    trusted         extra trusted-base lines
    def explore(self, tier, seed, budget) -> Exploration

Verdict rules (DESIGN.md 3.5):
  * a verified monitor (or the property's oracle) rejects an implementation trace
      → classified against known_findings.json; unlisted → VIOLATION with the shrunk input as replay
  * only the correspondence (model vs implementation) or a proof obligation is broken
      → failing-input search; none found → VIOLATION … no-failing-input-found
  * machinery errors → exit 2
"""
import json
import multiprocessing
import os
import sys
import time
import traceback

from . import common


class Failure(object):
    """One rejected case. kind: 'monitor' (property fails on the implementation) |
    'correspondence' (model and implementation differ, property not shown to fail)."""

    def __init__(self, kind, what, case, details=None, signature=None):
        self.kind = kind
        self.what = what
        self.case = case              # JSON-able replay payload
        self.details = details or {}
        self.signature = signature    # classifier key for known findings


class Exploration(object):
    def __init__(self):
        self.evaluations = 0
        self.nontrivial = set()       # fingerprints of distinct non-trivial cases
        self.samples = []
        self.failures = []
        self.stats = {}
        self.traces_validated = 0
        self.oof = 0

    def merge(self, o):
        self.evaluations += o.evaluations
        self.nontrivial |= o.nontrivial
        if len(self.samples) < 3:
            self.samples += o.samples[:3 - len(self.samples)]
        self.failures += o.failures
        self.traces_validated += o.traces_validated
        self.oof += o.oof
        for k, v in o.stats.items():
            if isinstance(v, dict):
                d = self.stats.setdefault(k, {})
                for kk, vv in v.items():
                    d[kk] = d.get(kk, 0) + vv
            else:
                self.stats[k] = self.stats.get(k, 0) + v


def _worker(args):
    fn, payload = args
    try:
        return ('ok', fn(*payload))
    except common.MachineryError as e:
        return ('machinery', str(e))
    except BaseException:
        return ('machinery', traceback.format_exc())


def parallel(fn, payloads, procs=None):
    """Run fn(*payload) over payloads on a process pool; fn must be a module-level function."""
    procs = procs or min(16, os.cpu_count() or 1, max(1, len(payloads)))
    if procs <= 1 or len(payloads) <= 1:
        res = [_worker((fn, p)) for p in payloads]
    else:
        ctx = multiprocessing.get_context('fork')
        with ctx.Pool(procs) as pool:
            res = pool.map(_worker, [(fn, p) for p in payloads], chunksize=1)
    out = []
    for kind, val in res:
        if kind != 'ok':
            raise common.MachineryError(val)
        out.append(val)
    return out


class Check(object):
    prop = None
    level = 'proof'
    theorems = ()
    trusted = ()
    rule = ''
    checker_cmd = 'cd lean && lake build && lake env lean <#print axioms file>'
    # opt-in: report a correspondence break even when (only) known findings were seen in the same run
    strict_correspondence = True

    def explore(self, tier, seed):
        raise NotImplementedError

    def search(self, tier, seed, failures):
        """failing-input search after a correspondence-only break: return monitor failures found"""
        return []

    def replay(self, path):
        raise NotImplementedError

    # -----------------------------------------------------------------------------------------
    def known(self):
        return [f for f in common.load_known_findings() if f.get('property') == self.prop and f.get('status') == 'open']

    def classify(self, failure, known):
        for k in known:
            if failure.signature is not None and failure.signature == k.get('signature'):
                return k
        return None

    def main(self, tier):
        t = common.Timer()
        seed = common.seed_from_env()
        prop = self.prop
        obligations = []      # (name, discharged?)
        try:
            ok, out = common.lake_build()
            broken_build = None
            if not ok:
                broken_build = out[-3000:]
                # the driver may still be usable from a previous build; the proof obligations are not
            hits = common.grep_forbidden()
            if hits:
                raise common.MachineryError('forbidden tokens in Lean sources: %s' % hits[:5])
            axioms = {}
            if not broken_build:
                axioms, missing, raw = common.print_axioms(list(self.theorems))
                if missing:
                    raise common.MachineryError('theorems not found by #print axioms: %s\n%s' % (missing, raw[-2000:]))
                for th, ax in axioms.items():
                    extra = [a for a in ax if a not in common.ALLOWED_AXIOMS]
                    if extra:
                        raise common.MachineryError('theorem %s depends on non-standard axioms %s' % (th, extra))
            for th in self.theorems:
                obligations.append(('lean:' + th, not broken_build))
            if tier == 'thorough' and not broken_build:
                self.leanchecker()
            ex = self.explore(tier, seed)
        except common.MachineryError as e:
            print('MACHINERY-ERROR property=%s %s' % (prop, e))
            return 2

        known = self.known()
        monitor_fail = [f for f in ex.failures if f.kind == 'monitor']
        corr_fail = [f for f in ex.failures if f.kind != 'monitor']
        obligations.append(('correspondence:model-vs-implementation', not corr_fail))
        mon_idx = len(obligations)
        obligations.append(('monitor:implementation-traces', not monitor_fail))

        searched = False
        quiet = not monitor_fail
        if self.strict_correspondence:
            quiet = all(self.classify(f, known) is not None for f in monitor_fail)
        if (corr_fail or broken_build) and quiet:
            searched = True
            try:
                monitor_fail = monitor_fail + self.search(tier, seed, corr_fail)
            except common.MachineryError as e:
                print('MACHINERY-ERROR property=%s %s' % (prop, e))
                return 2

        lines = []
        violations = 0
        seen_known = {}
        unlisted = []
        for f in monitor_fail:
            k = self.classify(f, known)
            if k is not None:
                seen_known.setdefault(k['id'], k)
            else:
                unlisted.append(f)
        for kid, k in sorted(seen_known.items()):
            lines.append('KNOWN-FINDING: property=%s %s' % (prop, k['what']))
        if unlisted:
            f = unlisted[0]
            path = common.write_replay(prop, 'violation', {'property': prop, 'kind': f.kind, 'what': f.what,
                                                          'case': f.case, 'details': f.details, 'seed': seed})
            lines.append('VIOLATION property=%s replay=%s' % (prop, path))
            violations = len(unlisted)
        elif (corr_fail or broken_build) and (self.strict_correspondence or not seen_known):
            # the property is no longer shown to hold, but no failing input was found
            payload = {'property': prop, 'seed': seed, 'searched': searched}
            if broken_build:
                payload['broken_obligation'] = 'lake build (proof obligations of %s)' % prop
                payload['build_output_tail'] = broken_build
            if corr_fail:
                f = corr_fail[0]
                payload['broken_obligation'] = 'corr.%s.%s' % (prop, f.what)
                payload['case'] = f.case
                payload['details'] = f.details
            path = common.write_replay(prop, 'unproved', payload)
            lines.append('VIOLATION property=%s replay=%s no-failing-input-found' % (prop, path))
            violations = max(1, len(corr_fail))

        # a rejected trace that matches a listed (open) known finding is accounted for by that finding's
        # `_partial` theorem + proved counterexample; the monitor obligation is "no UNLISTED rejection"
        obligations[mon_idx] = ('monitor:implementation-traces (no unlisted rejection)', not unlisted)
        n_obl = len(obligations)
        n_dis = sum(1 for _n, d in obligations if d)
        coverage = {
            'obligations': n_obl, 'discharged': n_dis,
            'obligation_list': [{'name': n, 'discharged': d} for n, d in obligations],
            'checker_cmd': self.checker_cmd,
            'trusted_base': ['Lean 4.33.0 kernel', 'axioms: ' + ', '.join(sorted(set(a for ax in axioms.values() for a in ax)) or ['none'])]
            + list(self.trusted),
            'axioms_per_theorem': axioms,
            'evaluations': ex.evaluations, 'distinct_nontrivial': len(ex.nontrivial), 'rule': self.rule,
            'samples': ex.samples[:3], 'traces_validated_against_impl': ex.traces_validated,
            'model_out_of_fuel': ex.oof, 'distribution': ex.stats,
            'known_findings_seen': sorted(seen_known),
        }
        common.write_evidence(prop, tier, seed, self.level, coverage, t.elapsed(), violations,
                              list(self.assumptions()))
        for l in lines:
            print(l)
        print('%s %s tier=%s seed=%d cases=%d nontrivial=%d obligations=%d/%d wall=%.1fs' % (
            prop, 'FAIL' if violations else 'ok', tier, seed, ex.evaluations, len(ex.nontrivial), n_dis, n_obl, t.elapsed()))
        return 1 if violations else 0

    def assumptions(self):
        return ()

    def leanchecker(self):
        import subprocess
        mods = sorted(set(['Props.' + self.prop]))
        p = subprocess.run(['lake', 'env', 'leanchecker'] + mods, cwd=common.LEAN, stdout=subprocess.PIPE,
                           stderr=subprocess.STDOUT, text=True)
        if p.returncode != 0:
            raise common.MachineryError('leanchecker failed: %s' % p.stdout[-1500:])


# ---------------------------------------------------------------------------------------------
# generic shrinking of JSON-like cases
# ---------------------------------------------------------------------------------------------

def shrink(case, fails, steps, budget=400):
    """Greedy delta debugging: `steps(case)` yields smaller candidate cases; keep one if `fails(c)`."""
    n = 0
    progress = True
    while progress and n < budget:
        progress = False
        for cand in steps(case):
            n += 1
            if n >= budget:
                break
            try:
                if fails(cand):
                    case = cand
                    progress = True
                    break
            except common.MachineryError:
                raise
            except BaseException:
                continue
    return case
